//! C11 — process groups reflect live membership and tell their monitors.
//!
//! Owner clients (threads in E-T, tasks in E-A) join / leave their own actors (local probes and
//! remote-id cells) into 2 scopes x 3 groups, read through all six query functions, and make their
//! actors exit; a churn client registers / removes monitors and lets monitors die. Stable monitors
//! (one group monitor, one scope monitor, one all-scopes monitor, one non-monitor) log every
//! notification. Oracles: single-writer register per (key, actor) for reads; per-monitor delivery
//! sequence per (key, actor); exactly one auto-leave per group held at exit; cross-index agreement
//! of the H3 snapshot and of the six query functions at quiescence.
use std::collections::{BTreeMap, BTreeSet, HashMap, HashSet};
use std::sync::{Arc, Mutex};

use ractor::pg;
use ractor::{ActorCell, ActorStatus};

use crate::json::J;
use crate::prng::{hash_words, Prng};
use crate::probe::*;
use crate::report::{Report, Violation};
use crate::trace::{stamp, Ev, Rec, SupKind, Trace};
use crate::{th, vt, Args};

type Key = (String, String);

#[derive(Clone, Debug)]
struct Trans {
    key: Key,
    pid: u64,
    call: u64,
    ret: u64,
    /// membership after this op (true = member)
    member: bool,
    /// the op changed the membership
    effective: bool,
    /// produced by the actor's exit (auto-leave) rather than by an explicit call
    by_exit: bool,
}

#[derive(Clone, Debug)]
struct Read {
    key: Key,
    local_only: bool,
    call: u64,
    ret: u64,
    result: Vec<u64>,
}

#[derive(Default)]
struct Hist {
    trans: Vec<Trans>,
    reads: Vec<Read>,
    exits: Vec<(u64, u64, u64)>, // pid, term_req, wait_ret
    late_joins: u64,
    query_calls: u64,
}

pub struct Outcome {
    pub violations: Vec<(String, String)>,
    pub nontrivial: bool,
    pub sig: u64,
    pub desc: Vec<String>,
    pub ops: u64,
    pub reads_decided: u64,
    pub notifications: u64,
    pub sample: Vec<String>,
}

fn scopes() -> Vec<String> {
    vec![pg::DEFAULT_SCOPE.to_string(), "c11s".to_string()]
}

fn all_keys(tag: &str) -> Vec<Key> {
    let mut v = vec![];
    for s in scopes() {
        for g in 0..3 {
            v.push((s.clone(), format!("c11-{tag}-g{g}")));
        }
    }
    v
}

struct Owned {
    cell: ActorCell,
    pid: u64,
    /// live local actor (can exit) vs remote-id cell
    live: Option<(ractor::ActorRef<PMsg>, ractor::concurrency::JoinHandle<()>)>,
    member_of: HashSet<Key>,
    dead: bool,
}

async fn owner(seed: u64, t: u64, nops: u64, keys: Arc<Vec<Key>>, mut mine: Vec<Owned>, hist: Arc<Mutex<Hist>>, yields: bool) {
    let mut p = Prng::new(seed ^ (t + 11).wrapping_mul(0xABCD));
    for _ in 0..nops {
        if yields {
            for _ in 0..p.below(3) {
                tokio::task::yield_now().await;
            }
        }
        let key = p.pick(&keys).clone();
        match p.below(12) {
            0..=3 => {
                // join a subset of my actors (possibly with duplicates in one call)
                let mut idxs: Vec<usize> = (0..mine.len()).filter(|_| p.chance(1, 2)).collect();
                if idxs.is_empty() {
                    idxs.push(p.below(mine.len() as u64) as usize);
                }
                if p.chance(1, 5) {
                    idxs.push(idxs[0]);
                }
                let cells: Vec<ActorCell> = idxs.iter().map(|i| mine[*i].cell.clone()).collect();
                let call = stamp();
                pg::join_scoped(key.0.clone(), key.1.clone(), cells);
                let ret = stamp();
                let mut g = hist.lock().unwrap();
                let mut seen = HashSet::new();
                for i in idxs {
                    if !seen.insert(i) {
                        continue;
                    }
                    let o = &mut mine[i];
                    if o.dead {
                        g.late_joins += 1;
                        // a join called after wait() returned must add nothing: recorded as a non-member transition
                        g.trans.push(Trans { key: key.clone(), pid: o.pid, call, ret, member: false, effective: false, by_exit: false });
                        continue;
                    }
                    let effective = o.member_of.insert(key.clone());
                    g.trans.push(Trans { key: key.clone(), pid: o.pid, call, ret, member: true, effective, by_exit: false });
                }
            }
            4..=6 => {
                let idxs: Vec<usize> = (0..mine.len()).filter(|i| !mine[*i].dead && p.chance(1, 2)).collect();
                if idxs.is_empty() {
                    continue;
                }
                let cells: Vec<ActorCell> = idxs.iter().map(|i| mine[*i].cell.clone()).collect();
                let call = stamp();
                pg::leave_scoped(key.0.clone(), key.1.clone(), cells);
                let ret = stamp();
                let mut g = hist.lock().unwrap();
                for i in idxs {
                    let o = &mut mine[i];
                    let effective = o.member_of.remove(&key);
                    g.trans.push(Trans { key: key.clone(), pid: o.pid, call, ret, member: false, effective, by_exit: false });
                }
            }
            7..=9 => {
                // reads
                let local_only = p.chance(1, 3);
                let call = stamp();
                let r = if local_only { pg::get_scoped_local_members(&key.0, &key.1) } else { pg::get_scoped_members(&key.0, &key.1) };
                let ret = stamp();
                let mut g = hist.lock().unwrap();
                g.reads.push(Read { key: key.clone(), local_only, call, ret, result: r.iter().map(pid_of).collect() });
                // the other query functions are exercised concurrently too (their agreement is checked at quiescence)
                let _ = pg::which_groups();
                let _ = pg::which_scopes();
                let _ = pg::which_scoped_groups(&key.0);
                let _ = pg::which_scopes_and_groups();
                g.query_calls += 5;
            }
            _ => {
                // one of my live actors exits
                let cands: Vec<usize> = (0..mine.len()).filter(|i| mine[*i].live.is_some() && !mine[*i].dead).collect();
                if cands.is_empty() || mine.iter().filter(|o| !o.dead).count() <= 1 {
                    continue;
                }
                let i = *p.pick(&cands);
                let (actor, handle) = mine[i].live.take().unwrap();
                let t_req = stamp();
                match p.below(3) {
                    0 => actor.stop(None),
                    1 => actor.kill(),
                    _ => {
                        let _ = actor.drain();
                    }
                }
                let _ = handle.await;
                let w = stamp();
                let held: Vec<Key> = mine[i].member_of.drain().collect();
                mine[i].dead = true;
                let mut g = hist.lock().unwrap();
                g.exits.push((mine[i].pid, t_req, w));
                for k in held {
                    g.trans.push(Trans { key: k, pid: mine[i].pid, call: t_req, ret: w, member: false, effective: true, by_exit: true });
                }
            }
        }
    }
    // hand the actors back through the history so that the scenario can tear them down
    OWNED_BACK.lock().unwrap().extend(mine);
}

static OWNED_BACK: Mutex<Vec<Owned>> = Mutex::new(Vec::new());

/// Monitor churn: registers/removes monitors and lets monitor actors die while joins/leaves run.
async fn churn(seed: u64, nops: u64, keys: Arc<Vec<Key>>, trace: Arc<Trace>, yields: bool) {
    let mut p = Prng::new(seed ^ 0xC4C4);
    for i in 0..nops {
        if yields {
            tokio::task::yield_now().await;
        }
        let spec = Arc::new(ProbeSpec::new(900 + i, None, trace.clone()));
        let Ok((a, h)) = spawn_probe(&spec, None).await else { continue };
        let key = p.pick(&keys).clone();
        if key.0 == pg::DEFAULT_SCOPE {
            pg::monitor(key.1.clone(), a.get_cell());
        }
        pg::monitor_scope(key.0.clone(), a.get_cell());
        if p.chance(1, 2) {
            pg::join_scoped(key.0.clone(), key.1.clone(), vec![a.get_cell()]);
        }
        if yields {
            tokio::task::yield_now().await;
        }
        match p.below(3) {
            0 => {
                pg::demonitor(key.1.clone(), a.get_id());
                pg::demonitor_scope(key.0.clone(), a.get_id());
                a.stop(None);
            }
            1 => a.kill(),
            _ => a.stop(None),
        }
        // registrations racing the exit
        pg::monitor_scope(key.0.clone(), a.get_cell());
        pg::join_scoped(key.0.clone(), key.1.clone(), vec![a.get_cell()]);
        let _ = h.await;
        // after wait() returned nothing may stick
        pg::monitor_scope(key.0.clone(), a.get_cell());
        pg::join_scoped(key.0.clone(), key.1.clone(), vec![a.get_cell()]);
    }
}

struct Dummy;
#[cfg_attr(feature = "alt", ractor::async_trait)]
impl ractor::Actor for Dummy {
    type Msg = PMsg;
    type State = ();
    type Arguments = ();
    async fn pre_start(&self, _: ractor::ActorRef<PMsg>, _: ()) -> Result<(), ractor::ActorProcessingErr> {
        Ok(())
    }
}

const MON_GROUP: u64 = 801;
const MON_SCOPE: u64 = 802;
const MON_WORLD: u64 = 803;
const MON_NONE: u64 = 804;

/// Structural agreement of the four internal indexes + the six public queries (quiescent point).
fn check_structure(dead: &HashSet<u64>) -> Vec<(String, String)> {
    let mut v = vec![];
    let snap = pg::verif_snapshot();
    let mut members: BTreeMap<Key, BTreeSet<u64>> = BTreeMap::new();
    let mut listeners: BTreeMap<Key, BTreeSet<u64>> = BTreeMap::new();
    for (s, g, m, l) in &snap.map {
        if m.is_empty() && l.is_empty() {
            v.push(("empty-entry".to_string(), format!("forward map keeps an empty entry for {s}/{g}")));
        }
        members.insert((s.clone(), g.clone()), m.iter().map(ractor::verif::id_u64).collect());
        listeners.insert((s.clone(), g.clone()), l.iter().map(ractor::verif::id_u64).collect());
    }
    for (s, g, l) in &snap.world_listeners {
        if l.is_empty() {
            v.push(("empty-entry".to_string(), format!("world listener map keeps an empty entry for {s}/{g}")));
        }
    }
    // reverse index <-> forward map
    let mut rev_members: BTreeMap<Key, BTreeSet<u64>> = BTreeMap::new();
    let mut rev_gmon: BTreeMap<Key, BTreeSet<u64>> = BTreeMap::new();
    let mut rev_wmon: BTreeMap<Key, BTreeSet<u64>> = BTreeMap::new();
    for (a, ms, gm, wm) in &snap.relations {
        let pid = ractor::verif::id_u64(a);
        // an empty record of a *live* actor is harmless bookkeeping (leave_scoped does not prune it; it goes away when
        // the actor exits) and is invisible through the API, so it is not demanded; a record of a dead actor is a leak.
        if dead.contains(&pid) {
            v.push(("dead-actor-in-index".to_string(), format!("reverse index still has a record for stopped actor {a}: {ms:?} {gm:?} {wm:?}")));
        }
        for k in ms {
            rev_members.entry(k.clone()).or_default().insert(pid);
        }
        for k in gm {
            rev_gmon.entry(k.clone()).or_default().insert(pid);
        }
        for k in wm {
            rev_wmon.entry(k.clone()).or_default().insert(pid);
        }
    }
    let nonempty = |m: &BTreeMap<Key, BTreeSet<u64>>| -> BTreeMap<Key, BTreeSet<u64>> { m.iter().filter(|(_, s)| !s.is_empty()).map(|(k, s)| (k.clone(), s.clone())).collect() };
    if nonempty(&members) != nonempty(&rev_members) {
        v.push(("index-mismatch".to_string(), format!("forward members {:?} != reverse memberships {:?}", nonempty(&members), nonempty(&rev_members))));
    }
    if nonempty(&listeners) != nonempty(&rev_gmon) {
        v.push(("index-mismatch".to_string(), format!("group listeners {:?} != reverse group monitors {:?}", nonempty(&listeners), nonempty(&rev_gmon))));
    }
    let mut wl: BTreeMap<Key, BTreeSet<u64>> = BTreeMap::new();
    for (s, g, l) in &snap.world_listeners {
        wl.insert((s.clone(), g.clone()), l.iter().map(ractor::verif::id_u64).collect());
    }
    if nonempty(&wl) != nonempty(&rev_wmon) {
        v.push(("index-mismatch".to_string(), format!("world listeners {:?} != reverse world monitors {:?}", nonempty(&wl), nonempty(&rev_wmon))));
    }
    for (_, m) in &members {
        for pid in m {
            if dead.contains(pid) {
                v.push(("dead-member".to_string(), format!("stopped actor pid {pid} is still a group member")));
            }
        }
    }
    // scope index = non-empty groups
    let mut idx: BTreeSet<Key> = BTreeSet::new();
    for (s, gs) in &snap.index {
        if gs.is_empty() {
            v.push(("empty-entry".to_string(), format!("scope index keeps an empty entry for {s}")));
        }
        for g in gs {
            idx.insert((s.clone(), g.clone()));
        }
    }
    let ne: BTreeSet<Key> = nonempty(&members).keys().cloned().collect();
    if idx != ne {
        v.push(("index-mismatch".to_string(), format!("scope index {idx:?} != non-empty groups {ne:?}")));
    }
    // the six query functions agree with that membership
    for (k, m) in &members {
        let got: BTreeSet<u64> = pg::get_scoped_members(&k.0, &k.1).iter().map(pid_of).collect();
        if &got != m {
            v.push(("query-mismatch".to_string(), format!("get_scoped_members({k:?}) = {got:?}, map says {m:?}")));
        }
        let local: BTreeSet<u64> = pg::get_scoped_local_members(&k.0, &k.1).iter().map(pid_of).collect();
        let want_local: BTreeSet<u64> = m.iter().copied().filter(|p| p >> 63 == 0).collect();
        if local != want_local {
            v.push(("query-mismatch".to_string(), format!("get_scoped_local_members({k:?}) = {local:?}, expected {want_local:?}")));
        }
    }
    let want_groups: BTreeSet<String> = ne.iter().map(|k| k.1.clone()).collect();
    let got_groups: BTreeSet<String> = pg::which_groups().into_iter().collect();
    if want_groups != got_groups {
        v.push(("query-mismatch".to_string(), format!("which_groups() = {got_groups:?}, expected {want_groups:?}")));
    }
    let want_scopes: BTreeSet<String> = ne.iter().map(|k| k.0.clone()).collect();
    let got_scopes: BTreeSet<String> = pg::which_scopes().into_iter().collect();
    if want_scopes != got_scopes {
        v.push(("query-mismatch".to_string(), format!("which_scopes() = {got_scopes:?}, expected {want_scopes:?}")));
    }
    for s in scopes() {
        let want: BTreeSet<String> = ne.iter().filter(|k| k.0 == s).map(|k| k.1.clone()).collect();
        let got: BTreeSet<String> = pg::which_scoped_groups(&s).into_iter().collect();
        if want != got {
            v.push(("query-mismatch".to_string(), format!("which_scoped_groups({s}) = {got:?}, expected {want:?}")));
        }
    }
    let sg: BTreeSet<Key> = pg::which_scopes_and_groups().into_iter().map(|k| (k.get_scope(), k.get_group())).collect();
    if sg != ne {
        v.push(("query-mismatch".to_string(), format!("which_scopes_and_groups() = {sg:?}, expected {ne:?}")));
    }
    v
}

fn check_history(h: &Hist, recs: &[Rec], mon_group_key: &Key, mon_scope: &str, final_members: &BTreeMap<Key, BTreeSet<u64>>) -> (Vec<(String, String)>, u64, u64) {
    let mut v = vec![];
    // per (key,pid) timeline in owner order (each pair has a single writer; exit transitions come last for that pid)
    let mut tl: HashMap<(Key, u64), Vec<&Trans>> = HashMap::new();
    for t in &h.trans {
        tl.entry((t.key.clone(), t.pid)).or_default().push(t);
    }
    for x in tl.values_mut() {
        x.sort_by_key(|t| t.call);
    }
    // (a) reads as a single-writer register
    let mut decided = 0;
    let pids: HashSet<u64> = h.trans.iter().map(|t| t.pid).collect();
    for r in &h.reads {
        for pid in &pids {
            let Some(line) = tl.get(&(r.key.clone(), *pid)) else {
                // never touched this group: must not be in it
                if r.result.contains(pid) {
                    v.push(("phantom-member".to_string(), format!("read of {:?} at [#{}, #{}] contains pid {pid} which never joined it", r.key, r.call, r.ret)));
                }
                continue;
            };
            let before: Vec<&&Trans> = line.iter().filter(|t| t.ret < r.call).collect();
            let overlapping = line.iter().any(|t| t.call <= r.ret && t.ret >= r.call);
            if overlapping {
                continue;
            }
            // an exit of this pid in progress makes every group of it indeterminate
            if h.exits.iter().any(|(p, a, b)| p == pid && *a <= r.ret && *b >= r.call) {
                continue;
            }
            let expect = before.last().map(|t| t.member).unwrap_or(false);
            let is_remote = pid >> 63 == 1;
            let expect = expect && !(r.local_only && is_remote);
            decided += 1;
            let got = r.result.contains(pid);
            if got != expect {
                v.push((
                    "register".to_string(),
                    format!("read of {:?} (local_only={}) at [#{}, #{}] {} pid {pid}, but its owner's last completed op before the read left member={expect}", r.key, r.local_only, r.call, r.ret, if got { "contains" } else { "lacks" }),
                ));
            }
        }
    }
    // final membership agrees with every owner's model
    for ((key, pid), line) in &tl {
        let expect = line.last().map(|t| t.member).unwrap_or(false);
        let got = final_members.get(key).map(|s| s.contains(pid)).unwrap_or(false);
        if got != expect {
            v.push(("final-membership".to_string(), format!("at quiescence pid {pid} member-of {key:?} = {got}, owner model says {expect}")));
        }
    }
    // (e) notifications per stable monitor
    let mut notifications = 0;
    let mut delivered: HashMap<(u64, Key, u64), Vec<(u64, bool)>> = HashMap::new(); // (monitor, key, pid) -> [(ts, is_join)]
    for r in recs {
        if let Ev::Sup { uid, kind, detail, extra, .. } = &r.ev {
            if !matches!(kind, SupKind::PgJoin | SupKind::PgLeave) {
                continue;
            }
            notifications += 1;
            let mut it = detail.splitn(2, '/');
            let key = (it.next().unwrap_or("").to_string(), it.next().unwrap_or("").to_string());
            let uniq: BTreeSet<u64> = extra.iter().copied().collect();
            for pid in uniq {
                delivered.entry((*uid, key.clone(), pid)).or_default().push((r.ts, *kind == SupKind::PgJoin));
            }
            match *uid {
                MON_NONE => v.push(("misdelivery".to_string(), format!("an actor that monitors nothing received a pg notification for {key:?}"))),
                MON_GROUP if &key != mon_group_key => v.push(("misdelivery".to_string(), format!("group monitor of {mon_group_key:?} received a notification for {key:?}"))),
                MON_SCOPE if key.0 != mon_scope => v.push(("misdelivery".to_string(), format!("scope monitor of {mon_scope} received a notification for {key:?}"))),
                _ => {}
            }
        }
    }
    let collapse = |xs: &[bool]| -> Vec<bool> {
        let mut out: Vec<bool> = vec![];
        for x in xs {
            if out.last() != Some(x) {
                out.push(*x);
            }
        }
        out
    };
    for ((key, pid), line) in &tl {
        if !pids.contains(pid) {
            continue;
        }
        let eff: Vec<bool> = line.iter().filter(|t| t.effective).map(|t| t.member).collect();
        for (mon, applies) in [
            (MON_GROUP, key == mon_group_key),
            (MON_SCOPE, key.0 == mon_scope),
            (MON_WORLD, true),
        ] {
            if !applies {
                continue;
            }
            let d: Vec<bool> = delivered.get(&(mon, key.clone(), *pid)).map(|x| x.iter().map(|y| y.1).collect()).unwrap_or_default();
            let mut dc = collapse(&d);
            if dc.first() == Some(&false) {
                dc.remove(0); // an ineffective leave before the first join may or may not notify
            }
            if dc != collapse(&eff) {
                v.push((
                    "notification-sequence".to_string(),
                    format!("monitor {mon} saw {:?} for pid {pid} in {key:?} (true=Join), the owner's effective transitions were {:?}", d, eff),
                ));
            }
            // counting: every effective op notifies exactly once, an ineffective one at most once, the automatic leave on
            // exit exactly once per group still held (and never for a group not held)
            let dl = delivered.get(&(mon, key.clone(), *pid));
            let j_total = dl.map(|x| x.iter().filter(|y| y.1).count()).unwrap_or(0);
            let l_total = dl.map(|x| x.iter().filter(|y| !y.1).count()).unwrap_or(0);
            let j_eff = line.iter().filter(|t| t.effective && t.member).count();
            let j_ineff = line.iter().filter(|t| !t.effective && t.member).count();
            let l_eff = line.iter().filter(|t| t.effective && !t.member).count(); // includes the exit transition
            let l_ineff = line.iter().filter(|t| !t.effective && !t.member && !t.by_exit).count();
            if j_total < j_eff || j_total > j_eff + j_ineff {
                v.push(("notification-count".to_string(), format!("monitor {mon}: {j_total} Join notifications for pid {pid} in {key:?}; owner made {j_eff} effective and {j_ineff} ineffective joins")));
            }
            if l_total < l_eff || l_total > l_eff + l_ineff {
                v.push((
                    "notification-count".to_string(),
                    format!(
                        "monitor {mon}: {l_total} Leave notifications for pid {pid} in {key:?}; owner made {l_eff} effective leaves (incl. {} automatic on exit) and {l_ineff} ineffective ones",
                        line.iter().filter(|t| t.by_exit).count()
                    ),
                ));
            }
        }
    }
    (v, decided, notifications)
}

async fn scenario(seed: u64, trace: Arc<Trace>, yields: bool, run_client: &dyn Fn(std::pin::Pin<Box<dyn std::future::Future<Output = ()> + Send>>) -> ClientHandle) -> (Hist, Vec<(String, String)>, Vec<String>) {
    let mut p = Prng::new(seed);
    let tag = format!("{seed:x}");
    let keys = Arc::new(all_keys(&tag));
    let hist = Arc::new(Mutex::new(Hist::default()));
    let mut v = vec![];
    // stable monitors
    let mon_group_key = keys[0].clone(); // default scope, g0
    let mon_scope = "c11s".to_string();
    let mut mons = vec![];
    for uid in [MON_GROUP, MON_SCOPE, MON_WORLD, MON_NONE] {
        let spec = Arc::new(ProbeSpec::new(uid, None, trace.clone()));
        let (a, h) = spawn_probe(&spec, None).await.expect("monitor");
        match uid {
            MON_GROUP => pg::monitor(mon_group_key.1.clone(), a.get_cell()),
            MON_SCOPE => pg::monitor_scope(mon_scope.clone(), a.get_cell()),
            MON_WORLD => pg::monitor_scope(pg::ALL_SCOPES_NOTIFICATION.to_string(), a.get_cell()),
            _ => {}
        }
        mons.push((a, h));
    }
    // owners and their actors
    let nowners = p.range(2, 5);
    let nops = p.range(6, 30);
    let mut handles = vec![];
    let mut next_uid = 100;
    OWNED_BACK.lock().unwrap().clear();
    // the (never polled) ports of the detached remote-id cells: kept for the whole scenario, dropped when it returns
    let mut kept_ports = vec![];
    for t in 0..nowners {
        let mut mine = vec![];
        for _ in 0..p.range(1, 3) {
            next_uid += 1;
            if cfg!(feature = "cluster") && p.chance(1, 4) {
                let id = ractor::ActorId::Remote { node_id: 3, pid: (seed & 0xfff) * 100 + next_uid };
                let (cell, ports) = ActorCell::verif_detached::<Dummy>(None, Some(id)).expect("remote cell");
                kept_ports.push(ports);
                mine.push(Owned { pid: pid_of(&cell), cell, live: None, member_of: HashSet::new(), dead: false });
            } else {
                let spec = Arc::new(ProbeSpec::new(next_uid, None, trace.clone()));
                let (a, h) = spawn_probe(&spec, None).await.expect("member");
                mine.push(Owned { pid: pid_of(&a.get_cell()), cell: a.get_cell(), live: Some((a, h)), member_of: HashSet::new(), dead: false });
            }
        }
        handles.push(run_client(Box::pin(owner(seed, t, nops, keys.clone(), mine, hist.clone(), yields))));
    }
    handles.push(run_client(Box::pin(churn(seed, p.range(0, 6), keys.clone(), trace.clone(), yields))));
    let desc = vec![format!("owners={nowners} ops/owner={nops} yields={yields}")];
    for h in handles {
        h.join().await;
    }
    // let the monitors drain their supervision ports
    for (a, _) in &mons {
        let _ = a.call(PMsg::Flush, None).await;
    }
    // quiescent structure check, before teardown
    let back: Vec<Owned> = std::mem::take(&mut *OWNED_BACK.lock().unwrap());
    let dead: HashSet<u64> = back.iter().filter(|o| o.dead).map(|o| o.pid).collect();
    v.extend(check_structure(&dead));
    let snap = pg::verif_snapshot();
    let mut final_members: BTreeMap<Key, BTreeSet<u64>> = BTreeMap::new();
    for (s, g, m, _) in &snap.map {
        final_members.insert((s.clone(), g.clone()), m.iter().map(ractor::verif::id_u64).collect());
    }
    let h = std::mem::take(&mut *hist.lock().unwrap());
    let recs = trace.snapshot();
    let (hv, decided, notifications) = check_history(&h, &recs, &mon_group_key, &mon_scope, &final_members);
    v.extend(hv);
    let mut hist_out = h;
    hist_out.query_calls += decided; // carried out through the struct for reporting
    NOTIF.store(notifications, std::sync::atomic::Ordering::SeqCst);
    DECIDED.store(decided, std::sync::atomic::Ordering::SeqCst);
    // teardown: remote cells leave explicitly, live actors stop
    for o in back {
        if let Some((a, hd)) = o.live {
            a.stop(None);
            let _ = hd.await;
        } else {
            for k in keys.iter() {
                pg::leave_scoped(k.0.clone(), k.1.clone(), vec![o.cell.clone()]);
            }
            o.cell.verif_set_status(ActorStatus::Stopped);
        }
    }
    for (a, hd) in mons {
        a.stop(None);
        let _ = hd.await;
    }
    (hist_out, v, desc)
}

static NOTIF: std::sync::atomic::AtomicU64 = std::sync::atomic::AtomicU64::new(0);
static DECIDED: std::sync::atomic::AtomicU64 = std::sync::atomic::AtomicU64::new(0);

pub enum ClientHandle {
    Task(tokio::task::JoinHandle<()>),
    Thread(Option<std::thread::JoinHandle<()>>),
}
impl ClientHandle {
    async fn join(self) {
        match self {
            ClientHandle::Task(t) => {
                let _ = t.await;
            }
            ClientHandle::Thread(mut t) => {
                // join on a blocking-friendly path
                let h = t.take().unwrap();
                let _ = tokio::task::spawn_blocking(move || h.join()).await;
            }
        }
    }
}

fn finish(seed: u64, h: Hist, mut v: Vec<(String, String)>, desc: Vec<String>, threaded: bool) -> Outcome {
    if threaded {
        let _ = crate::th::settle_leaks();
    }
    for l in vt::global_leaks() {
        v.push(("leak".to_string(), l));
    }
    for (loc, msg) in crate::take_foreign_panics() {
        v.push(("foreign-panic".into(), format!("{loc}: {msg}")));
    }
    let decided = DECIDED.load(std::sync::atomic::Ordering::SeqCst);
    let notifications = NOTIF.load(std::sync::atomic::Ordering::SeqCst);
    let eff = h.trans.iter().filter(|t| t.effective).count() as u64;
    let sample: Vec<String> = h.trans.iter().take(5).map(|t| format!("{t:?}")).chain(h.reads.iter().take(3).map(|r| format!("{r:?}"))).collect();
    let _ = seed;
    Outcome {
        violations: v,
        nontrivial: eff >= 2 && (decided > 0 || notifications > 0),
        sig: hash_words(&[h.trans.len() as u64, eff, h.reads.len() as u64, decided, notifications, h.exits.len() as u64]),
        desc,
        ops: (h.trans.len() + h.reads.len()) as u64,
        reads_decided: decided,
        notifications,
        sample,
    }
}

pub fn run_one_vt(seed: u64) -> Outcome {
    let mut pr = Prng::new(seed ^ 0x11);
    let defer = *pr.pick(&[0u64, 25]);
    let cell: Mutex<Option<(Hist, Vec<(String, String)>, Vec<String>)>> = Mutex::new(None);
    let r = vt::run(seed, defer, async {
        let trace = Arc::new(Trace::new());
        let out = scenario(seed, trace, true, &|f| ClientHandle::Task(vt::spawn_h("c11-client", f))).await;
        vt::quiesce(1).await;
        *cell.lock().unwrap() = Some(out);
    });
    let got = cell.lock().unwrap().take();
    let (h, mut v, mut desc) = got.unwrap_or((Hist::default(), vec![], vec![]));
    if r.is_none() {
        v.push(("stuck".to_string(), "scenario pending at the virtual-time horizon".to_string()));
    }
    desc.push(format!("vt defer={defer}"));
    finish(seed, h, v, desc, false)
}

pub fn run_one_th(seed: u64, rt: &tokio::runtime::Runtime) -> Outcome {
    let mut pr = Prng::new(seed ^ 0x11);
    let intensity = *pr.pick(&[0u32, 30, 60]);
    th::begin(seed, intensity);
    let trace = Arc::new(Trace::new());
    let handle = rt.handle().clone();
    let out = rt.block_on(scenario(seed, trace, false, &|f| {
        let h = handle.clone();
        ClientHandle::Thread(Some(std::thread::spawn(move || h.block_on(f))))
    }));
    th::end();
    let (h, v, mut desc) = out;
    desc.push(format!("th intensity={intensity}"));
    finish(seed, h, v, desc, true)
}

/// E-T "wide" scenario: an actor that is the sole member of many groups exits while other threads join other actors
/// into those same groups (and leave again); when everything has returned, the indexes and the six queries must agree
/// with the surviving membership.
pub fn run_wide_th(seed: u64, rt: &tokio::runtime::Runtime) -> Outcome {
    let mut p = Prng::new(seed ^ 0x3a);
    let intensity = *p.pick(&[0u32, 30, 60]);
    th::begin(seed, intensity);
    let k = p.range(20, 160) as usize;
    let scope = scopes()[p.below(2) as usize].clone();
    let groups: Vec<String> = (0..k).map(|i| format!("w{seed:x}-{i}")).collect();
    let njoiners = p.range(1, 3) as usize;
    let mut v: Vec<(String, String)> = vec![];
    let spawn = |tag: String| {
        let (a, h) = rt.block_on(ractor::Actor::spawn(Some(tag), Dummy, ())).expect("spawn");
        (a, h)
    };
    let (leaver, leaver_h) = spawn(format!("c11w-l-{seed:x}"));
    let joiners: Vec<_> = (0..njoiners).map(|j| spawn(format!("c11w-j{j}-{seed:x}"))).collect();
    for g in &groups {
        pg::join_scoped(scope.clone(), g.clone(), vec![leaver.get_cell()]);
    }
    let mut clients: Vec<Box<dyn FnOnce() -> BTreeSet<String> + Send>> = vec![];
    {
        let (l, mut sp, how) = (leaver.clone(), p.fork(), p.below(3));
        clients.push(Box::new(move || {
            for _ in 0..sp.below(3000) {
                std::hint::spin_loop();
            }
            match how {
                0 => l.stop(None),
                1 => l.kill(),
                _ => {
                    let _ = l.drain();
                }
            }
            BTreeSet::new()
        }));
    }
    for (j, (a, _)) in joiners.iter().enumerate() {
        let (a, mut sp, scope, mut gs) = (a.clone(), p.fork(), scope.clone(), groups.clone());
        sp.shuffle(&mut gs);
        let leave_some = j == 1;
        clients.push(Box::new(move || {
            let mut mine = BTreeSet::new();
            for _ in 0..sp.below(3000) {
                std::hint::spin_loop();
            }
            for g in gs {
                pg::join_scoped(scope.clone(), g.clone(), vec![a.get_cell()]);
                mine.insert(g.clone());
                if leave_some && sp.chance(1, 3) {
                    pg::leave_scoped(scope.clone(), g.clone(), vec![a.get_cell()]);
                    mine.remove(&g);
                }
            }
            mine
        }));
    }
    let results = th::run_clients(clients);
    let _ = rt.block_on(leaver_h);
    th::end();
    // expected membership: per group the joiners that kept it
    let mut dead = HashSet::new();
    dead.insert(pid_of(&leaver.get_cell()));
    v.extend(check_structure(&dead));
    for (j, mine) in results.iter().skip(1).enumerate() {
        let me = pid_of(&joiners[j].0.get_cell());
        for g in &groups {
            let has = pg::get_scoped_members(&scope, g).iter().any(|c| pid_of(c) == me);
            if has != mine.contains(g) {
                v.push(("membership".to_string(), format!("joiner {j} {} group {g} by its own operations but get_scoped_members says member={has}", if mine.contains(g) { "is in" } else { "left" })));
            }
        }
        let listed: BTreeSet<String> = pg::which_scoped_groups(&scope).into_iter().collect();
        for g in mine {
            if !listed.contains(g) {
                v.push(("query-mismatch".to_string(), format!("group {scope}/{g} has a live member (joiner {j}) but which_scoped_groups omits it")));
            }
        }
    }
    for (a, h) in joiners {
        a.stop(None);
        let _ = rt.block_on(h);
    }
    let _ = crate::th::settle_leaks();
    for l in vt::global_leaks() {
        v.push(("leak".to_string(), l));
    }
    for (loc, msg) in crate::take_foreign_panics() {
        v.push(("foreign-panic".into(), format!("{loc}: {msg}")));
    }
    Outcome {
        violations: v,
        nontrivial: true,
        sig: hash_words(&[0x51de, k as u64, njoiners as u64, intensity as u64, results.iter().map(|r| r.len() as u64).sum()]),
        desc: vec![format!("wide: leaver sole member of {k} groups in {scope}, {njoiners} concurrent joiners, intensity={intensity}")],
        ops: (k * (1 + njoiners)) as u64,
        reads_decided: 0,
        notifications: 0,
        sample: vec![],
    }
}

/// E-T "two-writer" scenarios (operations on one actor from different threads, racing its exit):
///  B: joiner threads put [leaver, own actor] into fresh groups in one call while the leaver exits; an all-scopes monitor
///     must see, per group, as many Leaves as Joins for the leaver (both 0 or both 1) and exactly one Join for the joiner's
///     own actor; afterwards the leaver is in no group.
///  C: every actor sits in one group; one thread takes each out of it while another puts the same actors into fresh groups;
///     then all actors exit: nothing of them may remain anywhere.
pub fn run_two_writer_th(seed: u64, rt: &tokio::runtime::Runtime) -> Outcome {
    let mut p = Prng::new(seed ^ 0x2b);
    let intensity = *p.pick(&[0u32, 30, 60]);
    th::begin(seed, intensity);
    let variant_b = p.chance(1, 2);
    let scope = scopes()[p.below(2) as usize].clone();
    let trace = Arc::new(Trace::new());
    let mut v: Vec<(String, String)> = vec![];
    let spawn = |tag: String| rt.block_on(ractor::Actor::spawn(Some(tag), Dummy, ())).expect("spawn");
    let mon_spec = Arc::new(ProbeSpec::new(MON_WORLD, None, trace.clone()));
    let (mon, mon_h) = rt.block_on(spawn_probe(&mon_spec, None)).expect("monitor");
    pg::monitor_scope(pg::ALL_SCOPES_NOTIFICATION.to_string(), mon.get_cell());
    let mut dead = HashSet::new();
    let desc;
    let mut ops = 0u64;
    if variant_b {
        let k = p.range(10, 80) as usize;
        let njoiners = p.range(1, 3) as usize;
        let (leaver, leaver_h) = spawn(format!("c11b-l-{seed:x}"));
        let joiners: Vec<_> = (0..njoiners).map(|j| spawn(format!("c11b-j{j}-{seed:x}"))).collect();
        let mut clients: Vec<Box<dyn FnOnce() + Send>> = vec![];
        {
            let (l, mut sp, how) = (leaver.clone(), p.fork(), p.below(3));
            clients.push(Box::new(move || {
                for _ in 0..sp.below(6000) {
                    std::hint::spin_loop();
                }
                match how {
                    0 => l.stop(None),
                    1 => l.kill(),
                    _ => {
                        let _ = l.drain();
                    }
                }
            }));
        }
        for (j, (a, _)) in joiners.iter().enumerate() {
            let (a, l, mut sp, scope, tag) = (a.clone(), leaver.clone(), p.fork(), scope.clone(), format!("b{seed:x}-{j}"));
            clients.push(Box::new(move || {
                for _ in 0..sp.below(3000) {
                    std::hint::spin_loop();
                }
                for i in 0..k {
                    let cells = if sp.chance(1, 2) { vec![l.get_cell(), a.get_cell()] } else { vec![a.get_cell(), l.get_cell()] };
                    pg::join_scoped(scope.clone(), format!("{tag}-{i}"), cells);
                }
            }));
        }
        th::run_clients(clients);
        let _ = rt.block_on(leaver_h);
        th::end();
        let _ = rt.block_on(mon.call(PMsg::Flush, None));
        let lp = pid_of(&leaver.get_cell());
        dead.insert(lp);
        v.extend(check_structure(&dead));
        // per group: notifications about the leaver balance, the joiner's own actor joined exactly once
        let mut per: HashMap<(String, u64), (u64, u64)> = HashMap::new();
        for r in trace.snapshot() {
            if let Ev::Sup { uid: MON_WORLD, kind, detail, extra, .. } = &r.ev {
                let is_join = match kind {
                    SupKind::PgJoin => true,
                    SupKind::PgLeave => false,
                    _ => continue,
                };
                let uniq: BTreeSet<u64> = extra.iter().copied().collect();
                for pid in uniq {
                    let e = per.entry((detail.clone(), pid)).or_default();
                    if is_join {
                        e.0 += 1;
                    } else {
                        e.1 += 1;
                    }
                }
            }
        }
        for (j, (a, _)) in joiners.iter().enumerate() {
            let ap = pid_of(&a.get_cell());
            for i in 0..k {
                let g = format!("{scope}/b{seed:x}-{j}-{i}");
                let (lj, ll) = per.get(&(g.clone(), lp)).copied().unwrap_or((0, 0));
                if lj != ll || lj > 1 {
                    v.push(("notification-count".to_string(), format!("the all-scopes monitor saw {lj} Join and {ll} Leave notifications naming the exiting actor for {g} (a join that lost against the exit must announce nothing, one that won is followed by exactly one automatic Leave)")));
                }
                let (aj, _) = per.get(&(g.clone(), ap)).copied().unwrap_or((0, 0));
                if aj != 1 {
                    v.push(("notification-count".to_string(), format!("the all-scopes monitor saw {aj} Join notifications for the joiner's own actor in {g}, expected 1")));
                }
            }
        }
        ops = (k * njoiners) as u64;
        desc = format!("two-writer B: {njoiners} threads join [exiting actor, own actor] into {k} fresh groups each while it exits; intensity={intensity}");
        for (a, h) in joiners {
            a.stop(None);
            let _ = rt.block_on(h);
        }
    } else {
        let n = p.range(10, 120) as usize;
        let g1 = format!("c{seed:x}-home");
        let actors: Vec<_> = (0..n).map(|i| spawn(format!("c11c-{i}-{seed:x}"))).collect();
        for (a, _) in &actors {
            pg::join_scoped(scope.clone(), g1.clone(), vec![a.get_cell()]);
        }
        let cells: Vec<ActorCell> = actors.iter().map(|(a, _)| a.get_cell()).collect();
        let mut clients: Vec<Box<dyn FnOnce() + Send>> = vec![];
        {
            let (cells, scope, g1, mut sp) = (cells.clone(), scope.clone(), g1.clone(), p.fork());
            clients.push(Box::new(move || {
                for _ in 0..sp.below(2000) {
                    std::hint::spin_loop();
                }
                for c in cells {
                    pg::leave_scoped(scope.clone(), g1.clone(), vec![c]);
                }
            }));
        }
        {
            let (cells, scope, mut sp, tag) = (cells.clone(), scope.clone(), p.fork(), format!("c{seed:x}"));
            clients.push(Box::new(move || {
                for _ in 0..sp.below(2000) {
                    std::hint::spin_loop();
                }
                for (i, c) in cells.into_iter().enumerate() {
                    pg::join_scoped(scope.clone(), format!("{tag}-{i}"), vec![c]);
                }
            }));
        }
        th::run_clients(clients);
        th::end();
        for (a, h) in actors {
            dead.insert(pid_of(&a.get_cell()));
            a.stop(None);
            let _ = rt.block_on(h);
        }
        v.extend(check_structure(&dead));
        for i in 0..n {
            let g = format!("c{seed:x}-{i}");
            if !pg::get_scoped_members(&scope, &g).is_empty() {
                v.push(("dead-member".to_string(), format!("group {scope}/{g} still has members after all its actors exited")));
            }
        }
        ops = 2 * n as u64;
        desc = format!("two-writer C: {n} actors leave their home group on one thread while another thread joins them to fresh groups, then all exit; intensity={intensity}");
    }
    mon.stop(None);
    let _ = rt.block_on(mon_h);
    let _ = crate::th::settle_leaks();
    for l in vt::global_leaks() {
        v.push(("leak".to_string(), l));
    }
    for (loc, msg) in crate::take_foreign_panics() {
        v.push(("foreign-panic".into(), format!("{loc}: {msg}")));
    }
    Outcome { violations: v, nontrivial: true, sig: hash_words(&[0x2b, variant_b as u64, ops, intensity as u64]), desc: vec![desc], ops, reads_decided: 0, notifications: 0, sample: vec![] }
}

pub fn run(args: &Args, rep: &mut Report) {
    let seeds: Vec<u64> = match args.replay {
        Some(s) => vec![s],
        None => args.indices().map(|i| args.scenario_seed(i)).collect(),
    };
    let rt = if args.engine == "th" { Some(th::runtime(3)) } else { None };
    for seed in seeds {
        crate::watch_begin(seed);
        let o = match &rt {
            Some(rt) if seed % 4 == 1 => run_wide_th(seed, rt),
            Some(rt) if seed % 4 == 2 => run_two_writer_th(seed, rt),
            Some(rt) => run_one_th(seed, rt),
            None => run_one_vt(seed),
        };
        crate::watch_end();
        rep.scenario(o.nontrivial, o.sig);
        rep.count("operations_recorded", o.ops);
        rep.count("reads_decided_by_register_oracle", o.reads_decided);
        rep.count("pg_notifications_observed", o.notifications);
        if o.nontrivial && rep.samples.len() < 3 {
            rep.sample(J::obj().set("scenario_seed", format!("{seed}")).set("desc", o.desc.clone()).set("history_excerpt", o.sample.clone()));
        }
        for (clause, detail) in o.violations {
            rep.violation(Violation { signature: clause.clone(), clause, detail, scenario_seed: seed, scenario: o.desc.join("; "), trace: o.sample.clone() });
        }
    }
    let hits = crate::ctl::ctl().hit_snapshot();
    use ractor::verif::pt;
    for (n, id) in [
        ("hits_pg_join_after_filter", pt::PG_JOIN_AFTER_FILTER),
        ("hits_pg_join_after_entry", pt::PG_JOIN_AFTER_ENTRY),
        ("hits_pg_leave_all_after_take", pt::PG_LEAVE_ALL_AFTER_TAKE),
        ("hits_pg_demonitor_all_after_take", pt::PG_DEMONITOR_ALL_AFTER_TAKE),
        ("hits_pg_monitor_after_register", pt::PG_MONITOR_AFTER_REGISTER),
    ] {
        rep.count(n, hits[id as usize]);
    }
    rep.count("hits_pg_join_in_entry(in-lock)", crate::ctl::ctl().inlock_hits.load(std::sync::atomic::Ordering::Relaxed));
}
