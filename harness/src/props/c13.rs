//! C13 — factory: every job meets exactly one fate, never runs twice.
use std::collections::HashMap;

use crate::json::J;
use crate::prng::hash_words;
use crate::report::{Report, Violation};
use crate::Args;

use super::fac::*;

#[derive(Default, Debug)]
struct JobFacts {
    key: u64,
    sent: bool,
    dispatch_ts: u64,
    starts: Vec<(u64, usize, u64)>,
    ends: u64,
    discards: Vec<String>,
    accepted: Option<bool>,
}

pub struct Checked {
    pub violations: Vec<(String, String, String)>,
    pub nontrivial: bool,
    pub sig: u64,
    pub jobs: u64,
    pub deaths: u64,
    pub discards: u64,
}

pub fn check(o: &FOutcome) -> Checked {
    let mut v: Vec<(String, String, String)> = vec![];
    let mut jobs: HashMap<u64, JobFacts> = HashMap::new();
    let mut gone: Vec<(u64, usize, u64, Option<u64>, bool)> = vec![];
    let mut exit_op = String::new();
    let mut barriers: Vec<u64> = vec![];
    let mut quiesced_ts: Option<u64> = None;
    let mut quiesced_pool = 0usize;
    let mut fate_ts: HashMap<u64, u64> = HashMap::new();
    for (ts, _ms, e) in &o.evs {
        if let FEv::Start { id, .. } | FEv::Discard { id, .. } = e {
            fate_ts.entry(*id).or_insert(*ts);
        }
    }
    for (ts, _ms, e) in &o.evs {
        match e {
            FEv::Dispatch { id, key, sent, .. } => {
                let j = jobs.entry(*id).or_default();
                j.key = *key;
                j.sent = *sent;
                j.dispatch_ts = *ts;
            }
            FEv::Start { id, wid, inc, .. } => jobs.entry(*id).or_default().starts.push((*ts, *wid, *inc)),
            FEv::End { id, .. } => jobs.entry(*id).or_default().ends += 1,
            FEv::Discard { id, reason, .. } => jobs.entry(*id).or_default().discards.push(reason.clone()),
            FEv::Accept { id, accepted } => jobs.entry(*id).or_default().accepted = Some(*accepted),
            FEv::WorkerGone { wid, inc, inflight, reported_inflight } => gone.push((*ts, *wid, *inc, *inflight, *reported_inflight)),
            FEv::Op(s) if s == "stop" || s == "drain" => exit_op = s.clone(),
            FEv::Barrier { .. } => barriers.push(*ts),
            FEv::Op(s) if s.starts_with("quiesced") => {
                quiesced_ts = Some(*ts);
                quiesced_pool = s.split("pool=").nth(1).and_then(|x| x.split(' ').next()).and_then(|x| x.parse::<usize>().ok()).unwrap_or(0);
            }
            FEv::Op(s) if s.starts_with("WRONG-JOB-RETURNED") => v.push(("wrong-job-returned".into(), s.clone(), "wrong-job-returned".into())),
            FEv::Op(s) if s.starts_with("port-pending") => v.push(("acceptance-port-hangs".into(), s.clone(), "acceptance-port-hangs".into())),
            _ => {}
        }
    }
    // a discard handler installed at run time (UpdateSettings carrying only the handler) is the one told from then on: a discard
    // reported after a barrier that was answered behind the update must go to handler 2, wherever the job was queued
    if let Some(set_ts) = o.evs.iter().find_map(|(ts, _, e)| matches!(e, FEv::Op(s) if s == "set handler 2").then_some(*ts)) {
        if let Some(proof) = barriers.iter().find(|b| **b > set_ts) {
            for (ts, _, e) in &o.evs {
                if let FEv::Discard { id, reason, handler } = e {
                    if *ts > *proof && *handler != 2 {
                        v.push(("discard-to-stale-handler".into(), format!("job {id} was discarded ({reason}) at #{ts} and reported to discard handler {handler}, but handler 2 had been installed at #{set_ts} and a barrier queued behind that update was answered at #{proof}: the installed handler never hears of this job"), "discard-to-stale-handler".into()));
                        break;
                    }
                }
            }
        }
    }
    let worker_queued = !o.cfg.router.factory_queued();
    let mut no_fate: Vec<u64> = vec![];
    let mut unfinished: Vec<u64> = vec![];
    let mut ndisc = 0;
    for (id, j) in &jobs {
        if j.starts.len() > 1 {
            v.push(("handled-twice".into(), format!("job {id} (key {}) was started {} times: {:?}", j.key, j.starts.len(), j.starts), "handled-twice".into()));
        }
        if !j.starts.is_empty() && !j.discards.is_empty() {
            v.push(("handled-and-discarded".into(), format!("job {id} was started and also discarded ({:?})", j.discards), "handled-and-discarded".into()));
        }
        if j.discards.len() > 1 {
            v.push(("discarded-twice".into(), format!("job {id} was handed to the discard handler {} times: {:?}", j.discards.len(), j.discards), "discarded-twice".into()));
        }
        ndisc += j.discards.len() as u64;
        if !j.sent {
            if !j.starts.is_empty() {
                v.push(("rejected-send-ran".into(), format!("job {id} ran although its dispatch failed"), "rejected-send-ran".into()));
            }
            continue;
        }
        match j.accepted {
            Some(false) => {
                if !j.starts.is_empty() {
                    v.push(("returned-and-ran".into(), format!("job {id} was returned to the submitter and also ran"), "returned-and-ran".into()));
                }
                if j.discards.len() != 1 {
                    v.push(("returned-not-reported".into(), format!("job {id} was returned to the submitter with {} discard reports", j.discards.len()), "returned-not-reported".into()));
                }
            }
            Some(true) | None => {}
        }
        // "accepted by the factory" must be evidenced: the acceptance port answered `accepted`, or a later query
        // (barrier) was answered, which proves the factory had processed every earlier message. A dispatch still sitting
        // in the mailbox of a factory that stopped first is an ordinary unhandled message (C02), not a lost job.
        let reached = j.accepted == Some(true) || barriers.iter().any(|b| *b > j.dispatch_ts);
        if j.starts.is_empty() && j.discards.is_empty() && j.accepted != Some(false) && reached {
            no_fate.push(*id);
        }
        if !j.starts.is_empty() && j.ends == 0 {
            unfinished.push(*id);
            // must be in flight on an incarnation that died
            let (_, wid, inc) = j.starts[0];
            if !gone.iter().any(|g| g.1 == wid && g.2 == inc && g.3 == Some(*id)) {
                v.push(("unfinished-without-death".into(), format!("job {id} started on worker {wid}#{inc} but neither finished nor did that worker die holding it"), "unfinished-without-death".into()));
            }
        }
    }
    // every worker death accounts for at most one lost job (the one it held: in flight or delivered-but-unstarted)
    let deaths_after = |ts: u64| gone.iter().filter(|g| g.0 > ts).count();
    let lost_total = no_fate.len() + unfinished.len();
    if lost_total > gone.len() {
        let detail = format!(
            "{} jobs met no fate ({} never started: {:?}; {} started but unfinished: {:?}) but only {} workers exited [{} routing, exit by {exit_op}]",
            lost_total,
            no_fate.len(),
            &no_fate[..no_fate.len().min(8)],
            unfinished.len(),
            &unfinished[..unfinished.len().min(8)],
            gone.len(),
            if worker_queued { "worker-queued" } else { "factory-queued" }
        );
        let sig = if worker_queued && !exit_op.is_empty() { "silently-lost worker-queue-at-exit".to_string() } else { "silently-lost".to_string() };
        v.push(("silently-lost".into(), detail, sig));
    }
    for id in &no_fate {
        let j = &jobs[id];
        if deaths_after(j.dispatch_ts) == 0 {
            v.push(("silently-lost".into(), format!("job {id} met no fate and no worker exited after it was dispatched"), "silently-lost".into()));
        }
    }
    // jobs queued for a worker that dies are given to its replacement / nothing waits forever while workers are healthy:
    // after 20 virtual seconds without any stimulus (job durations <= 50 ms) and with a non-empty pool, every job the
    // factory had accepted has started or has been discarded
    if let Some(q) = quiesced_ts {
        if quiesced_pool > 0 {
            let mut starved: Vec<u64> = jobs
                .iter()
                .filter(|(id, j)| j.sent && j.accepted != Some(false) && j.dispatch_ts < q && barriers.iter().any(|b| *b > j.dispatch_ts && *b < q) && fate_ts.get(*id).map_or(false, |t| *t > q))
                .map(|(id, _)| *id)
                .collect();
            starved.sort();
            if !starved.is_empty() {
                v.push(("starved".into(), format!("jobs {:?} were accepted, the factory (pool {quiesced_pool}) then idled for 20 virtual seconds, and they had still neither started nor been discarded (they were only dealt with when the factory was told to stop)", &starved[..starved.len().min(8)]), "starved".into()));
            }
        }
    }
    if o.stuck {
        v.push(("stuck".into(), "factory scenario pending at the virtual-time horizon".into(), "stuck".into()));
    }
    for l in &o.leaks {
        v.push(("leak".into(), l.clone(), "leak".into()));
    }
    for (loc, msg) in &o.foreign_panics {
        v.push(("foreign-panic".into(), format!("{loc}: {msg}"), format!("foreign-panic {loc}")));
    }
    let completed = jobs.values().filter(|j| j.ends > 0).count() as u64;
    Checked {
        nontrivial: jobs.len() >= 5 && (!gone.is_empty() || ndisc > 0),
        sig: hash_words(&[
            crate::prng::hash_str(&format!("{:?}{}", o.cfg.router, o.cfg.priority_queue)),
            completed,
            ndisc,
            no_fate.len() as u64,
            unfinished.len() as u64,
            gone.len() as u64,
        ]),
        violations: v,
        jobs: jobs.len() as u64,
        deaths: gone.len() as u64,
        discards: ndisc,
    }
}

pub fn run(args: &Args, rep: &mut Report) {
    let seeds: Vec<u64> = match args.replay {
        Some(s) => vec![s],
        None => args.indices().map(|i| args.scenario_seed(i)).collect(),
    };
    for seed in seeds {
        crate::watch_begin(seed);
        let cfg = if seed % 4 == 1 { gen_cfg_settings(seed) } else { gen_cfg(seed, 13) };
        let o = run_scenario(seed, cfg);
        crate::watch_end();
        let c = check(&o);
        rep.scenario(c.nontrivial, c.sig);
        rep.count("jobs_dispatched", c.jobs);
        rep.count("worker_exits_observed", c.deaths);
        rep.count("discard_reports", c.discards);
        rep.count("events_observed", o.evs.len() as u64);
        rep.count(&format!("router_{:?}", o.cfg.router).replace(['(', ')'], "_"), 1);
        if c.nontrivial && rep.samples.len() < 3 {
            rep.sample(J::obj().set("scenario_seed", format!("{seed}")).set("config", format!("router={:?} prio_queue={} discard={:?} rate={:?} pool={} ops={}", o.cfg.router, o.cfg.priority_queue, o.cfg.discard, o.cfg.rate, o.cfg.pool, o.cfg.ops.len())).set("trace_excerpt", render(&o.evs, 14)));
        }
        for (clause, detail, sig) in c.violations {
            rep.violation(Violation {
                clause,
                detail,
                signature: sig,
                scenario_seed: seed,
                scenario: format!("router={:?} prio_queue={} discard={:?} rate={:?} dead_man={:?} pool={} end_with_drain={}", o.cfg.router, o.cfg.priority_queue, o.cfg.discard, o.cfg.rate, o.cfg.dead_man, o.cfg.pool, o.cfg.end_with_drain),
                trace: render(&o.evs, 80),
            });
        }
    }
}
