//! C15 — factory capacity controls: limits, rate, pool size, draining.
use std::collections::{BTreeMap, HashMap, HashSet};
use std::time::Duration;

use ractor::factory::ratelim::{LeakyBucketRateLimiter, RateLimiter};

use crate::json::J;
use crate::prng::{hash_words, Prng};
use crate::report::{Report, Violation};
use crate::{vt, Args};

use super::fac::*;

pub struct Checked {
    pub violations: Vec<(String, String, String)>,
    pub nontrivial: bool,
    pub sig: u64,
    pub barriers: u64,
    pub sheds: u64,
    pub ratelimited: u64,
}

pub fn check(o: &FOutcome) -> Checked {
    let mut v: Vec<(String, String, String)> = vec![];
    let router = o.cfg.router;
    let mut dispatch: BTreeMap<u64, (u64, bool)> = BTreeMap::new();
    let mut started: HashMap<u64, u64> = HashMap::new();
    let mut ended: HashSet<u64> = HashSet::new();
    let mut discards: Vec<(u64, u64, String)> = vec![];
    let mut accepted: HashMap<u64, bool> = HashMap::new();
    let mut hooks: Vec<&'static str> = vec![];
    let mut barriers = 0;
    let mut limit_changed = false;
    let mut cur_limit = o.cfg.discard;
    let mut dispatched_since_change = false;
    let mut change_ts = 0u64;
    let mut drain_ts: Option<u64> = None;
    let mut stop_ts: Option<u64> = None;
    let mut deaths = 0u64;
    let mut exited = false;
    let mut last_disturb = 0u64;
    let mut drain_failed = false;
    let mut workers_ever = 0u64;
    for (ts, _ms, e) in &o.evs {
        match e {
            FEv::Dispatch { id, sent, .. } => {
                dispatch.insert(*id, (*ts, *sent));
                if *sent {
                    dispatched_since_change = true;
                }
            }
            FEv::Start { id, .. } => {
                started.insert(*id, *ts);
            }
            FEv::End { id, .. } => {
                ended.insert(*id);
            }
            FEv::Discard { id, reason, .. } => {
                discards.push((*ts, *id, reason.clone()));
            }
            FEv::Accept { id, accepted: a } => {
                accepted.insert(*id, *a);
            }
            FEv::Hook(h) => hooks.push(h),
            FEv::WorkerGone { .. } => {
                deaths += 1;
                last_disturb = *ts;
            }
            FEv::Op(s) => {
                if s.starts_with("set discard") {
                    limit_changed = true;
                    // "set discard None" | "set discard Some((L, newest))"
                    cur_limit = s.split("Some((").nth(1).and_then(|x| {
                        let mut it = x.trim_end_matches(')').split(", ");
                        let l = it.next()?.parse::<usize>().ok()?;
                        let newest = it.next()? == "true";
                        Some((l, newest))
                    });
                    dispatched_since_change = false;
                    change_ts = *ts;
                }
                if s.starts_with("kill") || s.starts_with("resize") {
                    last_disturb = *ts;
                }
                if s == "drain" && drain_ts.is_none() {
                    drain_ts = Some(*ts);
                }
                if s == "stop" {
                    stop_ts = Some(*ts);
                }
                if s == "drain-did-not-stop" {
                    drain_failed = true;
                }
            }
            FEv::Barrier { depth, active: _, capacity: _, live_children, expect_pool } => {
                barriers += 1;
                // --- queue limit after every processed dispatch (limit constant so far, all jobs discardable)
                if let (Some((limit, _)), false, true, false) = (o.cfg.discard, limit_changed, router.factory_queued(), o.cfg.priority_queue) {
                    if *depth > limit {
                        v.push(("queue-over-limit".into(), format!("factory queue holds {depth} jobs with a discard limit of {limit}"), "queue-over-limit".into()));
                    }
                }
                // after the limit was changed: in Oldest mode the next processed dispatch sheds down to the new limit
                // (Newest mode only refuses newcomers, so an excess left over from a higher limit may legitimately remain)
                // (decidable for plain Queuer routing, where a job that has neither started nor been discarded can only sit in the
                // factory queue: such a job, dispatched after the change, proves that the shedding step ran under the new limit)
                let enqueued_since_change = dispatch.iter().any(|(j, (dts, sent))| *sent && *dts > change_ts && *dts < *ts && !started.contains_key(j) && !discards.iter().any(|d| d.1 == *j));
                if let (Some((limit, false)), true, true, true, false) = (cur_limit, limit_changed, dispatched_since_change && enqueued_since_change, matches!(router, RouterKind::Queuer), o.cfg.priority_queue) {
                    if *depth > limit && drain_ts.is_none() && o.cfg.rate.is_none() {
                        v.push(("queue-over-limit".into(), format!("factory queue holds {depth} jobs although the discard limit was set to {limit} (oldest-first shedding) and a dispatch has been processed since"), "queue-over-limit".into()));
                    }
                }
                if let (Some((limit, _)), false, false, false) = (o.cfg.discard, limit_changed, router.factory_queued(), o.cfg.priority_queue) {
                    // worker-queued: waiting = accepted, not started, not discarded; each live worker may hold `limit` queued
                    // jobs plus the one delivered to its mailbox
                    let waiting = dispatch
                        .iter()
                        .filter(|(j, (dts, sent))| *sent && *dts < *ts && !started.contains_key(j) && !discards.iter().any(|d| d.1 == **j))
                        .count();
                    let bound = (limit + 1) * (*live_children).max(1) + if o.cfg.pool == 0 { limit } else { 0 };
                    // (only while no worker has died: a job delivered to a worker that dies before starting it is lost with
                    // that worker and would be counted as waiting for ever)
                    if waiting > bound && *live_children > 0 && deaths == 0 {
                        v.push(("worker-queue-over-limit".into(), format!("{waiting} jobs are waiting for {live_children} workers with a per-worker discard limit of {limit}"), "worker-queue-over-limit".into()));
                    }
                }
                // worker-queued routers after a limit change: every worker that was handed a job since the (processed) change has applied
                // the new limit at that moment (Oldest sheds down to it, Newest refuses the newcomer), so of the jobs dispatched since the
                // change at most limit (+1 in the mailbox) can be waiting per live worker
                if let (Some((limit, _)), true, false, false) = (cur_limit, limit_changed, router.factory_queued(), o.cfg.priority_queue) {
                    let proof = o.evs.iter().any(|(bts, _, be)| matches!(be, FEv::Barrier { .. }) && *bts > change_ts && *bts < *ts);
                    let waiting_post = dispatch
                        .iter()
                        .filter(|(j, (dts, sent))| *sent && *dts > change_ts && *dts < *ts && !started.contains_key(j) && !discards.iter().any(|d| d.1 == **j))
                        .count();
                    let bound = (limit + 1) * (*live_children).max(1);
                    if proof && waiting_post > bound && *live_children > 0 && deaths == 0 && last_disturb < change_ts && drain_ts.is_none() && o.cfg.pool > 0 {
                        v.push(("worker-queue-over-limit".into(), format!("{waiting_post} jobs dispatched after the discard limit was set to {limit} are waiting for {live_children} workers (per-worker limit {limit}, change at #{change_ts})"), "worker-queue-over-limit".into()));
                    }
                }
                // --- pool size at a quiescent point (final barrier only: 300 virtual ms after the last operation)
                let _ = (live_children, expect_pool);
            }
            FEv::FactoryExit => exited = true,
            FEv::WorkerUp { .. } => workers_ever += 1,
        }
    }
    // --- pool convergence at the final quiescent barrier
    let final_barrier = o.evs.iter().rev().find_map(|(ts, _, e)| match e {
        FEv::Barrier { live_children, expect_pool, active, depth, .. } => Some((*ts, *live_children, *expect_pool, *active, *depth)),
        _ => None,
    });
    let is_final = o.evs.iter().any(|(_, _, e)| matches!(e, FEv::Op(s) if s == "final"));
    // the size is read 20 idle virtual seconds after the final barrier ("quiesced pool=P live=L"): at the barrier itself a worker
    // that was retired by a shrink may still be on its way out (active 0, yet a child for a few more milliseconds) - the first
    // formulation, which read the barrier, raised a false alarm on exactly that (§6)
    let quiesced = o.evs.iter().rev().find_map(|(ts, _, e)| match e {
        FEv::Op(s) if s.starts_with("quiesced pool=") => {
            let p = s.split("pool=").nth(1)?.split(' ').next()?.parse::<usize>().ok()?;
            let l = s.split("live=").nth(1)?.parse::<usize>().ok()?;
            Some((*ts, p, l))
        }
        _ => None,
    });
    if let (Some((_bts, _live, _expect, active, depth)), true, Some((ts, expect, live))) = (final_barrier, is_final, quiesced) {
        if expect > 0 && active == 0 && depth == 0 && live != expect {
            // discriminating fact: a worker above the requested size died while it was draining and was replaced
            let sig = if live > expect && deaths > 0 { "pool-size extra-worker-after-death-of-draining-worker" } else { "pool-size" };
            v.push(("pool-size".into(), format!("after 20 idle virtual seconds (#{ts}) the factory has {live} live workers, the last requested non-zero size is {expect} (worker exits so far: {deaths})"), sig.into()));
        }
    }
    // --- rate limited jobs
    let mut nrl = 0;
    for (_, id, reason) in &discards {
        if reason == "RateLimited" {
            nrl += 1;
            if started.contains_key(id) {
                v.push(("ratelimited-but-ran".into(), format!("job {id} was reported RateLimited and also ran"), "ratelimited-but-ran".into()));
            }
            if o.cfg.rate.is_none() {
                v.push(("ratelimited-without-limiter".into(), format!("job {id} was reported RateLimited but no limiter is configured"), "ratelimited-without-limiter".into()));
            }
        }
        if reason == "Loadshed" {
            if started.contains_key(id) {
                v.push(("shed-but-ran".into(), format!("job {id} was load-shed and also ran"), "shed-but-ran".into()));
            }
            if let (Some((_, true)), false, true) = (o.cfg.discard, limit_changed, o.cfg.pool > 0) {
                // Newest mode: the shed job is the incoming one, so it was never accepted (with an initially empty pool a job
                // accepted into the factory backlog may later be shed by the queue limit of the worker it is moved to)
                if accepted.get(id) == Some(&true) {
                    v.push(("wrong-shed-victim".into(), format!("newest-mode load shedding discarded job {id} which had already been accepted"), "wrong-shed-victim".into()));
                }
            }
            if let (Some((_, false)), false) = (o.cfg.discard, limit_changed) {
                // Oldest mode: the shed job had been queued (hence accepted) before; the incoming job is accepted
                if accepted.get(id) == Some(&false) {
                    v.push(("wrong-shed-victim".into(), format!("oldest-mode load shedding returned the incoming job {id} instead of shedding the oldest queued one"), "wrong-shed-victim".into()));
                }
            }
            if o.cfg.discard.is_none() && !limit_changed {
                v.push(("shed-without-limit".into(), format!("job {id} was load-shed although no limit is configured"), "shed-without-limit".into()));
            }
        }
    }
    if let (Some((_, false)), false, RouterKind::Queuer, false) = (o.cfg.discard, limit_changed, router, o.cfg.priority_queue) {
        let shed: Vec<u64> = discards.iter().filter(|d| d.2 == "Loadshed").map(|d| d.1).collect();
        if let Some(w) = shed.windows(2).find(|w| w[0] > w[1]) {
            v.push(("wrong-shed-victim".into(), format!("oldest-mode load shedding discarded job {} before the older job {}", w[0], w[1]), "wrong-shed-victim".into()));
        }
    }
    let mut seen = HashSet::new();
    for (_, id, reason) in &discards {
        if !seen.insert(*id) {
            v.push(("reported-twice".into(), format!("job {id} was reported to the discard handler more than once ({reason})"), "reported-twice".into()));
        }
    }
    // --- draining (a factory that never had a worker cannot finish accepted jobs: precondition of the clause unmet)
    if drain_failed && workers_ever > 0 {
        v.push(("drain-never-stops".into(), "60 virtual seconds after DrainRequests the factory had not stopped".into(), "drain-never-stops".into()));
    }
    let drain_ts = if drain_failed { None } else { drain_ts };
    if let Some(dts) = drain_ts {
        for (id, (ts, sent)) in &dispatch {
            if *ts > dts && *sent {
                if started.contains_key(id) {
                    v.push(("accepted-while-draining".into(), format!("job {id} was dispatched after DrainRequests and still ran"), "accepted-while-draining".into()));
                }
                if accepted.get(id) == Some(&true) {
                    v.push(("accepted-while-draining".into(), format!("job {id} was dispatched after DrainRequests and was accepted"), "accepted-while-draining".into()));
                }
            }
            if *ts < dts && *sent && stop_ts.is_none() {
                // accepted before the drain: must finish, unless it was legitimately discarded for another reason or lost with a worker
                if discards.iter().any(|d| d.1 == *id && d.2 == "Shutdown") && accepted.get(id) != Some(&false) {
                    // the job may have reached the factory only after the drain request (same instant): only a job proven to
                    // have been processed earlier counts
                    if accepted.get(id) == Some(&true) {
                        v.push(("drain-dropped-accepted".into(), format!("job {id} had been accepted before DrainRequests but was discarded with Shutdown"), "drain-dropped-accepted".into()));
                    }
                }
                if started.contains_key(id) && !ended.contains(id) && deaths == 0 {
                    v.push(("drain-unfinished".into(), format!("job {id} was running when draining was requested and never finished"), "drain-unfinished".into()));
                }
            }
        }
    }
    // --- lifecycle hooks: started, draining, stopped; once each, in that order
    let order = |h: &str| match h {
        "started" => 0,
        "draining" => 1,
        _ => 2,
    };
    if hooks.windows(2).any(|w| order(w[0]) >= order(w[1])) || hooks.first().map(|h| *h != "started").unwrap_or(false) {
        v.push(("hook-order".into(), format!("lifecycle hooks fired as {hooks:?}"), "hook-order".into()));
    }
    if exited && hooks.last().map(|h| *h != "stopped").unwrap_or(true) {
        v.push(("hook-order".into(), format!("factory exited but the stopped hook did not fire last: {hooks:?}"), "hook-order".into()));
    }
    if drain_ts.is_some() && exited && !hooks.contains(&"draining") && stop_ts.map(|s| s > drain_ts.unwrap()).unwrap_or(true) {
        // the drain request may still be unprocessed if a stop overtook it; only flag when no stop was issued before it could run
        if stop_ts.is_none() {
            v.push(("hook-order".into(), format!("DrainRequests was processed but the draining hook never fired: {hooks:?}"), "hook-order".into()));
        }
    }
    if o.stuck {
        v.push(("stuck".into(), "factory scenario pending at the virtual-time horizon".into(), "stuck".into()));
    }
    for (loc, msg) in &o.foreign_panics {
        v.push(("foreign-panic".into(), format!("{loc}: {msg}"), format!("foreign-panic {loc}")));
    }
    let _ = last_disturb;
    let sheds = discards.iter().filter(|d| d.2 == "Loadshed").count() as u64;
    Checked {
        nontrivial: barriers > 0 && (sheds > 0 || nrl > 0 || drain_ts.is_some() || deaths > 0),
        sig: hash_words(&[crate::prng::hash_str(&format!("{router:?}{:?}{:?}", o.cfg.discard, o.cfg.rate)), sheds, nrl, barriers, deaths, drain_ts.is_some() as u64]),
        violations: v,
        barriers,
        sheds,
        ratelimited: nrl,
    }
}

// ------------------------------------------------------------------ leaky bucket driven directly on the paused clock

pub struct LbOutcome {
    pub violations: Vec<(String, String)>,
    pub admitted: u64,
    pub checks: u64,
    pub desc: String,
    pub sig: u64,
}

pub fn run_leaky_bucket(seed: u64) -> LbOutcome {
    let mut p = Prng::new(seed);
    let refill = *p.pick(&[0usize, 1, 2, 5, usize::MAX]);
    let interval = *p.pick(&[Duration::ZERO, Duration::from_nanos(1), Duration::from_millis(1), Duration::from_millis(10), Duration::from_secs(3600), Duration::MAX]);
    let max = *p.pick(&[0usize, 1, 3, 10, usize::MAX, ractor::factory::ratelim::MAX_LB_BALANCE]);
    let initial = *p.pick(&[None, Some(0usize), Some(1), Some(7), Some(usize::MAX)]);
    let desc = format!("refill={refill} interval={interval:?} max={max} initial={initial:?}");
    let mut out = LbOutcome { violations: vec![], admitted: 0, checks: 0, desc: desc.clone(), sig: 0 };
    let res = std::panic::catch_unwind(std::panic::AssertUnwindSafe(|| {
        vt::run(seed, 0, async {
            let t0 = tokio::time::Instant::now();
            let mut lb = LeakyBucketRateLimiter::builder().refill(refill).interval(interval).max(max).maybe_initial(initial).build();
            let start_balance = initial.unwrap_or(max).min(max);
            let mut admitted: u128 = 0;
            let mut v = vec![];
            let mut admit_times: Vec<u128> = vec![];
            let steps = p.range(5, 60);
            for _ in 0..steps {
                match p.below(3) {
                    0 => {
                        let adv = *p.pick(&[0u64, 1, 1, 3, 10, 25, 5_000_000]);
                        tokio::time::sleep(Duration::from_millis(adv)).await;
                    }
                    _ => {
                        let ok = lb.check();
                        if ok {
                            lb.bump();
                            admitted += 1;
                            admit_times.push(tokio::time::Instant::now().duration_since(t0).as_nanos());
                        }
                        if lb.balance > max {
                            v.push(("balance-over-max".to_string(), format!("balance {} exceeds max {max} [{desc}]", lb.balance)));
                        }
                        if interval.as_nanos() > 0 {
                            let elapsed = tokio::time::Instant::now().duration_since(t0).as_nanos();
                            let periods = elapsed / interval.as_nanos();
                            let bound = (start_balance as u128).saturating_add(periods.saturating_mul(refill as u128));
                            if admitted > bound {
                                v.push(("over-admission".to_string(), format!("{admitted} jobs admitted within {elapsed}ns, bound = {start_balance} + {refill} x {periods} = {bound} [{desc}]")));
                            }
                            // liveness (bounded): a full interval has passed since the last admission, refill and max are positive => admits
                            if !ok && refill > 0 && max > 0 {
                                if let Some(last) = admit_times.last() {
                                    if elapsed.saturating_sub(*last) >= 2 * interval.as_nanos() {
                                        v.push(("starvation".to_string(), format!("check() refused although two full intervals elapsed since the last admission [{desc}]")));
                                    }
                                }
                            }
                        }
                    }
                }
            }
            // any window: admitted within D <= max + refill * (floor(D/interval) + 1)
            if interval.as_nanos() > 0 {
                for i in 0..admit_times.len() {
                    for j in i..admit_times.len() {
                        let d = admit_times[j] - admit_times[i];
                        let n = (j - i + 1) as u128;
                        let bound = (max as u128).saturating_add((refill as u128).saturating_mul(d / interval.as_nanos() + 1));
                        if n > bound {
                            v.push(("window-over-admission".to_string(), format!("{n} admissions within {d}ns exceed max + refill x (floor(D/interval)+1) = {bound} [{desc}]")));
                        }
                    }
                }
            }
            (v, admitted as u64, steps)
        })
    }));
    match res {
        Ok(Some((v, admitted, steps))) => {
            out.violations = v;
            out.admitted = admitted;
            out.checks = steps;
        }
        Ok(None) => out.violations.push(("stuck".into(), format!("leaky bucket scenario hung [{desc}]"))),
        Err(_) => out.violations.push(("panic".into(), format!("the rate limiter panicked [{desc}]"))),
    }
    for (loc, msg) in crate::take_foreign_panics() {
        out.violations.push(("panic".into(), format!("{loc}: {msg} [{desc}]")));
    }
    out.sig = hash_words(&[crate::prng::hash_str(&desc), out.admitted]);
    out
}

pub fn run(args: &Args, rep: &mut Report) {
    let seeds: Vec<u64> = match args.replay {
        Some(s) => vec![s],
        None => args.indices().map(|i| args.scenario_seed(i)).collect(),
    };
    for seed in seeds {
        crate::watch_begin(seed);
        if args.engine == "lb" {
            let o = run_leaky_bucket(seed);
            crate::watch_end();
            rep.scenario(o.checks >= 5, o.sig);
            rep.count("limiter_admissions_observed", o.admitted);
            if rep.samples.len() < 2 {
                rep.sample(J::obj().set("scenario_seed", format!("{seed}")).set("limiter", o.desc.clone()).set("admitted", o.admitted));
            }
            for (clause, detail) in o.violations {
                rep.violation(Violation { signature: clause.clone(), clause, detail, scenario_seed: seed, scenario: o.desc.clone(), trace: vec![] });
            }
            continue;
        }
        let cfg = if seed % 3 == 1 { gen_cfg_settings(seed) } else { gen_cfg(seed, 15) };
        let o = run_scenario(seed, cfg);
        crate::watch_end();
        let c = check(&o);
        rep.scenario(c.nontrivial, c.sig);
        rep.count("barriers_checked", c.barriers);
        rep.count("loadshed_reports", c.sheds);
        rep.count("ratelimited_reports", c.ratelimited);
        if c.nontrivial && rep.samples.len() < 3 {
            rep.sample(J::obj().set("scenario_seed", format!("{seed}")).set("config", format!("router={:?} discard={:?} rate={:?} pool={} ops={}", o.cfg.router, o.cfg.discard, o.cfg.rate, o.cfg.pool, o.cfg.ops.len())).set("trace_excerpt", render(&o.evs, 14)));
        }
        for (clause, detail, sig) in c.violations {
            rep.violation(Violation {
                clause,
                detail,
                signature: sig,
                scenario_seed: seed,
                scenario: format!("router={:?} prio_queue={} discard={:?} rate={:?} dead_man={:?} pool={} end_with_drain={}", o.cfg.router, o.cfg.priority_queue, o.cfg.discard, o.cfg.rate, o.cfg.dead_man, o.cfg.pool, o.cfg.end_with_drain),
                trace: render(&o.evs, 400),
            });
        }
    }
}
