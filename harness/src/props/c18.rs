//! C18 — cluster: duplicate connections converge on one and the same link.
//!
//! elect : the real election function (H5) on every multiset of <= 5 physical connections x initiator x
//!         nonce in {0 (legacy), 1, 2} (repeats allowed) x both name orders, each evaluated at both endpoints
//!         (mirrored roles, independently shuffled actor ids) under every permutation of candidate order.
//! vt    : two real NodeServers joined by 1-4 in-memory connections (random initiators, arrival order,
//!         delays, chosen nonces incl. legacy/repeated) plus unauthenticated spoofers claiming the peer's name.
#![cfg(feature = "cluster")]
use std::collections::{BTreeSet, HashMap};
use std::sync::{Arc, Mutex};
use std::time::Duration;

use ractor::{Actor, ActorRef};
use ractor_cluster::verif::{auth, meta, NetworkMessage};
use ractor_cluster::{NodeEventSubscription, NodeServerMessage};
use tokio::io::AsyncWriteExt;

use crate::json::J;
use crate::prng::{hash_words, Prng};
use crate::report::{Report, Violation};
use crate::{vt, Args};

use super::c17::{Duplex, COOKIE, WRONG_COOKIE};

// ------------------------------------------------------------------ level 1: the election function

fn permutations<T: Clone>(xs: &[T]) -> Vec<Vec<T>> {
    if xs.len() <= 1 {
        return vec![xs.to_vec()];
    }
    let mut out = vec![];
    for i in 0..xs.len() {
        let mut rest = xs.to_vec();
        let x = rest.remove(i);
        for mut p in permutations(&rest) {
            p.insert(0, x.clone());
            out.push(p);
        }
    }
    out
}

/// A physical connection: (initiated by A?, nonce)
type Conn = (bool, u64);

fn elect_at(this: &str, peer: &str, at_a: bool, conns: &[Conn], ids: &[u64], order: &[usize]) -> BTreeSet<usize> {
    let cands: Vec<(u64, bool, u64)> = order
        .iter()
        .map(|&i| {
            let (by_a, nonce) = conns[i];
            // at A a connection initiated by B is a server-side (accepted) session, and vice versa
            let is_server = if at_a { !by_a } else { by_a };
            (ids[i], is_server, nonce)
        })
        .collect();
    let elected = ractor_cluster::verif::elect_sessions(this, peer, &cands);
    elected.iter().map(|id| ids.iter().position(|x| x == id).expect("unknown id elected")).collect()
}

pub fn run_elect(rep: &mut Report, shard: u64, nshards: u64, seed: u64) {
    let mut p = Prng::new(seed ^ 0xE1EC7);
    let labels: Vec<Conn> = vec![(true, 0), (true, 1), (true, 2), (false, 0), (false, 1), (false, 2)];
    // all multisets of size 1..=5 over the 6 labels
    let mut multisets: Vec<Vec<usize>> = vec![];
    fn rec(start: usize, cur: &mut Vec<usize>, out: &mut Vec<Vec<usize>>, n: usize) {
        if !cur.is_empty() {
            out.push(cur.clone());
        }
        if cur.len() == 5 {
            return;
        }
        for i in start..n {
            cur.push(i);
            rec(i, cur, out, n);
            cur.pop();
        }
    }
    rec(0, &mut vec![], &mut multisets, labels.len());
    let mut idx = 0u64;
    for ms in &multisets {
        for names in [("a@host", "b@host"), ("b@host", "a@host")] {
            idx += 1;
            if idx % nshards != shard {
                continue;
            }
            let conns: Vec<Conn> = ms.iter().map(|i| labels[*i]).collect();
            let n = conns.len();
            // independently shuffled actor ids at the two endpoints
            let mut ids_a: Vec<u64> = (1..=n as u64).map(|x| x * 3 + 100).collect();
            let mut ids_b: Vec<u64> = (1..=n as u64).map(|x| x * 5 + 700).collect();
            p.shuffle(&mut ids_a);
            p.shuffle(&mut ids_b);
            let (name_a, name_b) = names;
            let base: Vec<usize> = (0..n).collect();
            let perms = permutations(&base);
            let ra0 = elect_at(name_a, name_b, true, &conns, &ids_a, &base);
            let rb0 = elect_at(name_b, name_a, false, &conns, &ids_b, &base);
            let mut found: Vec<(String, String)> = vec![];
            let mut bad = |clause: &str, detail: String| found.push((clause.to_string(), detail));
            let mut evals = 0u64;
            for perm in &perms {
                evals += 2;
                let ra = elect_at(name_a, name_b, true, &conns, &ids_a, perm);
                let rb = elect_at(name_b, name_a, false, &conns, &ids_b, perm);
                if ra != ra0 {
                    bad("order-dependent", format!("endpoint A elects {ra:?} for candidate order {perm:?} but {ra0:?} for {base:?}"));
                }
                if rb != rb0 {
                    bad("order-dependent", format!("endpoint B elects {rb:?} for candidate order {perm:?} but {rb0:?} for {base:?}"));
                }
            }
            if ra0.is_empty() || rb0.is_empty() {
                bad("nobody-elected", format!("A elects {ra0:?}, B elects {rb0:?}"));
            } else {
            // the winner's label; every survivor on either side must carry it
            let w = conns[*ra0.iter().next().unwrap()];
            for i in ra0.iter().chain(rb0.iter()) {
                if conns[*i] != w {
                    bad("different-link", format!("survivors carry different (initiator, nonce) labels: A keeps {ra0:?}, B keeps {rb0:?}"));
                }
            }
            // the accepting endpoint of the winning direction elects exactly one; the initiating endpoint may keep the
            // tied candidates (it cannot tell them apart until the peer closes the others) but must include that one
            let (acc, ini) = if w.0 { (&rb0, &ra0) } else { (&ra0, &rb0) };
            if acc.len() != 1 {
                bad("accepting-side-not-single", format!("the accepting endpoint elects {acc:?} (A keeps {ra0:?}, B keeps {rb0:?})"));
            }
            if !acc.is_subset(ini) {
                bad("different-link", format!("the accepting endpoint keeps {acc:?} which the initiating endpoint dropped ({ini:?})"));
            }
            let tied = conns.iter().filter(|c| **c == w).count();
            if ini.len() > tied || (tied == 1 && ini.len() != 1) {
                bad("too-many-survivors", format!("initiating endpoint keeps {ini:?}, only {tied} candidates carry the winning label"));
            }
            }
            rep.evaluations += evals;
            for (clause, detail) in found {
                rep.violation(Violation { signature: clause.clone(), clause, detail, scenario_seed: idx, scenario: format!("conns(by_a,nonce)={conns:?} names={names:?} ids_a={ids_a:?} ids_b={ids_b:?}"), trace: vec![] });
            }
            rep.nontrivial += 1;
            rep.signatures.insert(hash_words(&[idx]));
            if idx % 101 == 7 {
                rep.sample(J::obj().set("connections(initiated_by_A,nonce)", format!("{conns:?}")).set("names(A,B)", format!("{names:?}")).set("A_keeps", format!("{ra0:?}")).set("B_keeps", format!("{rb0:?}")).set("permutations_tried", perms.len()));
            }
        }
    }
    rep.count("multisets_x_name_orders", idx / nshards.max(1));
    rep.exhaustive = Some(true);
}

// ------------------------------------------------------------------ level 2: two real node servers

#[derive(Default)]
pub struct Ev {
    pub log: Mutex<Vec<(u64, &'static str, String)>>, // stamp, kind, label (peer_addr)
}
pub struct Sub(pub Arc<Ev>);
impl NodeEventSubscription for Sub {
    fn node_session_opened(&self, s: ractor_cluster::node::NodeServerSessionInformation) {
        self.0.log.lock().unwrap().push((crate::trace::stamp(), "opened", s.peer_addr));
    }
    fn node_session_disconnected(&self, s: ractor_cluster::node::NodeServerSessionInformation) {
        self.0.log.lock().unwrap().push((crate::trace::stamp(), "disconnected", s.peer_addr));
    }
    fn node_session_authenticated(&self, s: ractor_cluster::node::NodeServerSessionInformation) {
        self.0.log.lock().unwrap().push((crate::trace::stamp(), "authenticated", s.peer_addr));
    }
    fn node_session_ready(&self, s: ractor_cluster::node::NodeServerSessionInformation) {
        self.0.log.lock().unwrap().push((crate::trace::stamp(), "ready", s.peer_addr));
    }
}

pub struct Outcome {
    pub violations: Vec<(String, String)>,
    pub nontrivial: bool,
    pub sig: u64,
    pub desc: Vec<String>,
}

fn enc(m: &NetworkMessage) -> Vec<u8> {
    let mut b = vec![];
    ractor_cluster::verif::encode_network_message(m, &mut b);
    b
}

async fn spawn_node(name: &str) -> (ActorRef<NodeServerMessage>, tokio::task::JoinHandle<()>, Arc<Ev>) {
    let server = ractor_cluster::NodeServer::new(0, COOKIE.to_string(), name.to_string(), "host".to_string(), None, Some(ractor_cluster::node::NodeConnectionMode::Isolated));
    let (node, h) = Actor::spawn(None, server, ()).await.expect("node server");
    let ev = Arc::new(Ev::default());
    let _ = node.cast(NodeServerMessage::SubscribeToEvents { id: "c18".into(), subscription: Box::new(Sub(ev.clone())) });
    (node, h, ev)
}

/// At every sample a node lists at most one authenticated session (unless same-direction candidates carry identical
/// nonces, which the initiating side cannot tell apart until the peer closes the losers).
async fn sample_sessions(who: &str, node: &ActorRef<NodeServerMessage>, tie_possible: bool, v: &mut Vec<(String, String)>) {
    if let Ok(ractor::rpc::CallResult::Success(m)) = node.call(NodeServerMessage::GetSessions, None).await {
        let labels: Vec<String> = m.values().map(|s| s.peer_addr.clone()).collect();
        if labels.len() > 1 && !tie_possible {
            v.push(("two-authenticated-sessions".into(), format!("node {who} lists {} authenticated sessions at once: {labels:?}", labels.len())));
        }
        if labels.iter().any(|l| l.starts_with("spoof")) {
            v.push(("spoofer-won".into(), format!("node {who} lists a spoofed connection as authenticated: {labels:?}")));
        }
    }
}

async fn body(seed: u64) -> Outcome {
    let mut p = Prng::new(seed);
    let mut v: Vec<(String, String)> = vec![];
    let a_first = p.chance(1, 2);
    let (na, nb) = if a_first { (format!("a{seed:x}"), format!("b{seed:x}")) } else { (format!("b{seed:x}"), format!("a{seed:x}")) };
    let (node_a, ha, ev_a) = spawn_node(&na).await;
    let (node_b, hb, ev_b) = spawn_node(&nb).await;
    vt::settle().await;
    let nconn = p.range(1, 4);
    let nonces = [0u64, 1, 2, 2, 7];
    let mut plan = vec![];
    for i in 0..nconn {
        plan.push((i, p.chance(1, 2), *p.pick(&nonces), p.below(4)));
    }
    let nspoof = p.below(3);
    let tie_possible = {
        let mut seen = std::collections::HashSet::new();
        plan.iter().any(|(_, by_a, nonce, _)| !seen.insert((*by_a, *nonce)))
    };
    let desc = vec![format!("names=({na},{nb}) connections(id, initiated_by_A, nonce, delay)={plan:?} spoofers={nspoof}")];
    let mut spoof_writers = vec![];
    let mut relays: Vec<Arc<super::c20::Link>> = vec![];
    // open the connections
    let mut order: Vec<usize> = (0..plan.len()).collect();
    p.shuffle(&mut order);
    for &i in &order {
        let (id, by_a, nonce, delay) = plan[i];
        for _ in 0..delay {
            tokio::task::yield_now().await;
        }
        if delay == 3 {
            tokio::time::sleep(Duration::from_millis(p.range(1, 30))).await;
        }
        // half of the links go through a relay that fragments and delays (virtual time), so that the handshakes of
        // different links overlap in many ways
        let (x, y) = if p.chance(1, 2) {
            tokio::io::duplex(1 << 16)
        } else {
            let (mc, dp, md) = *p.pick(&[(8u64, 30u64, 3u64), (64, 50, 10), (2000, 60, 25)]);
            let (x, y, link) = super::c20::make_link(&mut p, mc, dp, md, [u64::MAX, u64::MAX]);
            relays.push(link);
            (x, y)
        };
        let label = format!("link-{id}");
        crate::ctl::ctl().push_override(ractor::verif::pt::OV_CONNECTION_ID, nonce);
        let (ini, acc) = if by_a { (&node_a, &node_b) } else { (&node_b, &node_a) };
        let _ = ractor_cluster::client_connect_external(ini, Box::new(Duplex(x, label.clone()))).await;
        // the override is consumed when the initiating server creates the session: let it do so before the next draw
        vt::settle_yield().await;
        let _ = acc.cast(NodeServerMessage::ConnectionOpenedExternal { stream: Box::new(Duplex(y, label)), is_server: true });
        if p.chance(1, 2) {
            vt::settle().await;
            sample_sessions("A", &node_a, tie_possible, &mut v).await;
            sample_sessions("B", &node_b, tie_possible, &mut v).await;
        }
        // spoofers: claim the peer's name towards A without knowing the cookie
        if (spoof_writers.len() as u64) < nspoof && p.chance(1, 2) {
            let (mine, theirs) = tokio::io::duplex(1 << 16);
            let _ = node_a.cast(NodeServerMessage::ConnectionOpenedExternal { stream: Box::new(Duplex(theirs, format!("spoof-{}", spoof_writers.len()))), is_server: true });
            let (_r, mut w) = tokio::io::split(mine);
            let name = auth::NameMessage { name: format!("{nb}@host"), flags: Some(auth::NodeFlags { version: 1 }), connection_string: "host:1".into(), connection_id: *p.pick(&nonces) };
            let _ = w.write_all(&enc(&NetworkMessage { message: Some(meta::network_message::Message::Auth(auth::AuthenticationMessage { msg: Some(auth::authentication_message::Msg::Name(name)) })) })).await;
            if p.chance(1, 2) {
                vt::settle().await;
                let bad = auth::ChallengeReply { challenge: 1, digest: ractor_cluster::verif::challenge_digest(WRONG_COOKIE, 1).to_vec() };
                let _ = w.write_all(&enc(&NetworkMessage { message: Some(meta::network_message::Message::Auth(auth::AuthenticationMessage { msg: Some(auth::authentication_message::Msg::ClientChallenge(bad)) })) })).await;
            }
            spoof_writers.push((_r, w));
        }
    }
    // late spoofers against an established link
    for _ in 0..5 {
        vt::quiesce(4).await;
        sample_sessions("A", &node_a, tie_possible, &mut v).await;
        sample_sessions("B", &node_b, tie_possible, &mut v).await;
    }
    while (spoof_writers.len() as u64) < nspoof {
        let (mine, theirs) = tokio::io::duplex(1 << 16);
        let _ = node_a.cast(NodeServerMessage::ConnectionOpenedExternal { stream: Box::new(Duplex(theirs, format!("spoof-{}", spoof_writers.len()))), is_server: true });
        let (_r, mut w) = tokio::io::split(mine);
        let name = auth::NameMessage { name: format!("{nb}@host"), flags: Some(auth::NodeFlags { version: 1 }), connection_string: "host:1".into(), connection_id: *p.pick(&nonces) };
        let _ = w.write_all(&enc(&NetworkMessage { message: Some(meta::network_message::Message::Auth(auth::AuthenticationMessage { msg: Some(auth::authentication_message::Msg::Name(name)) })) })).await;
        spoof_writers.push((_r, w));
    }
    vt::quiesce(60).await;
    // ---- oracle
    let mut final_labels = vec![];
    for (who, node) in [("A", &node_a), ("B", &node_b)] {
        match node.call(NodeServerMessage::GetSessions, None).await {
            Ok(ractor::rpc::CallResult::Success(m)) => {
                let labels: Vec<String> = m.values().map(|s| s.peer_addr.clone()).collect();
                if labels.len() != 1 {
                    v.push(("not-converged".into(), format!("node {who} ends with {} authenticated sessions {labels:?}, expected exactly 1", labels.len())));
                }
                final_labels.push(labels);
            }
            _ => v.push(("harness".into(), format!("GetSessions failed on node {who}"))),
        }
    }
    if final_labels.len() == 2 && final_labels[0].len() == 1 && final_labels[1].len() == 1 && final_labels[0] != final_labels[1] {
        v.push(("different-link".into(), format!("A kept {:?} but B kept {:?}", final_labels[0], final_labels[1])));
    }
    if final_labels.iter().flatten().any(|l| l.starts_with("spoof")) {
        v.push(("spoofer-won".into(), format!("a spoofed connection is listed as authenticated: {final_labels:?}")));
    }
    // a `ready` event may only be reported for a session that is elected when the node processes its readiness: if, in a
    // node's own event stream, another real link W was reported authenticated (and not yet disconnected) before `ready(L)`
    // and the real election function prefers W over L on that node, L had already lost
    for (who, ev, this, peer, at_a) in [("A", &ev_a, &na, &nb, true), ("B", &ev_b, &nb, &na, false)] {
        let log = ev.log.lock().unwrap().clone();
        let conn_of = |label: &str| -> Option<Conn> {
            let id: u64 = label.strip_prefix("link-")?.parse().ok()?;
            plan.iter().find(|c| c.0 == id).map(|c| (c.1, c.2))
        };
        let mut auth_live: Vec<String> = vec![];
        for (_, kind, label) in &log {
            match *kind {
                "authenticated" => auth_live.push(label.clone()),
                "disconnected" => auth_live.retain(|l| l != label),
                "ready" => {
                    if let Some(lc) = conn_of(label) {
                        for w in auth_live.iter().filter(|w| *w != label) {
                            if let Some(wc) = conn_of(w) {
                                if wc == lc {
                                    continue; // identical labels: a tie the election cannot break by itself
                                }
                                let winners = elect_at(this, peer, at_a, &[lc, wc], &[1, 2], &[0, 1]);
                                if winners.len() == 1 && winners.contains(&1) {
                                    v.push(("ready-for-loser".into(), format!("node {who} reported {label} ready although {w}, which its election prefers, had been reported authenticated before and was still connected (events: {:?})", log.iter().map(|(_, k, l)| format!("{k}:{l}")).collect::<Vec<_>>())));
                                }
                            }
                        }
                    }
                }
                _ => {}
            }
        }
    }
    for (who, ev) in [("A", &ev_a), ("B", &ev_b)] {
        let log = ev.log.lock().unwrap().clone();
        // at all times (#ready - #ready-then-disconnected) <= 1, finally 1
        let mut ready_now: HashMap<String, bool> = HashMap::new();
        for (_, kind, label) in &log {
            match *kind {
                "ready" => {
                    ready_now.insert(label.clone(), true);
                    // (a displaced link's `disconnected` event may trail the winner's `ready` event: the server's own
                    // session table is sampled for the at-most-one clause instead, see `sample_sessions`)
                    if label.starts_with("spoof") {
                        v.push(("spoofer-won".into(), format!("node {who} reported a spoofed connection ready")));
                    }
                }
                "disconnected" => {
                    if ready_now.get(label) == Some(&true) {
                        ready_now.insert(label.clone(), false);
                        // a ready authenticated session was displaced: only legitimate if another real link replaced it
                    }
                }
                "authenticated" if label.starts_with("spoof") => v.push(("spoofer-won".into(), format!("node {who} authenticated a spoofed connection"))),
                _ => {}
            }
        }
        let live = ready_now.values().filter(|x| **x).count();
        if live != 1 {
            v.push(("ready-count".into(), format!("node {who} ends with {live} ready sessions (events: {:?})", log.iter().map(|(_, k, l)| format!("{k}:{l}")).collect::<Vec<_>>())));
        }
        // once a link is ready and stays the elected one, it is never disconnected because of a spoofer: a ready link that
        // disconnects must be followed by another real link becoming ready
        let ready_then_gone: Vec<&String> = ready_now.iter().filter(|(_, v)| !**v).map(|(k, _)| k).collect();
        if !ready_then_gone.is_empty() && plan.len() == 1 {
            v.push(("displaced".into(), format!("node {who}: the only real link {ready_then_gone:?} was ready and then disconnected (spoofers: {nspoof})")));
        }
    }
    // ---- teardown
    for l in &relays {
        l.cut_now();
    }
    drop(spoof_writers);
    node_a.stop(None);
    node_b.stop(None);
    let _ = ha.await;
    let _ = hb.await;
    vt::quiesce(1).await;
    let nontrivial = plan.len() >= 2 || nspoof > 0;
    Outcome { violations: v, nontrivial, sig: hash_words(&[crate::prng::hash_str(&format!("{plan:?}{nspoof}{a_first}{order:?}"))]), desc }
}

pub fn run(args: &Args, rep: &mut Report) {
    if args.engine == "elect" {
        run_elect(rep, args.shard, args.nshards, args.seed);
        return;
    }
    let seeds: Vec<u64> = match args.replay {
        Some(s) => vec![s],
        None => args.indices().map(|i| args.scenario_seed(i)).collect(),
    };
    for seed in seeds {
        crate::watch_begin(seed);
        let cell: Mutex<Option<Outcome>> = Mutex::new(None);
        let defer = *Prng::new(seed ^ 0x18).pick(&[0u64, 20, 40]);
        let r = vt::run(seed, defer, async {
            let o = body(seed).await;
            *cell.lock().unwrap() = Some(o);
        });
        crate::watch_end();
        let got = cell.lock().unwrap().take();
        let mut o = got.unwrap_or(Outcome { violations: vec![], nontrivial: false, sig: 0, desc: vec![] });
        if r.is_none() {
            o.violations.push(("stuck".into(), "scenario pending at the virtual-time horizon".into()));
        }
        for l in vt::global_leaks() {
            o.violations.push(("leak".into(), l));
        }
        for (loc, msg) in crate::take_foreign_panics() {
            o.violations.push(("foreign-panic".into(), format!("{loc}: {msg}")));
        }
        rep.scenario(o.nontrivial, o.sig);
        if o.nontrivial && rep.samples.len() < 3 {
            rep.sample(J::obj().set("scenario_seed", format!("{seed}")).set("desc", o.desc.clone()));
        }
        for (clause, detail) in o.violations {
            rep.violation(Violation { signature: clause.clone(), clause, detail, scenario_seed: seed, scenario: o.desc.join("; "), trace: vec![] });
        }
    }
    let _: BTreeSet<u8> = BTreeSet::new();
}
