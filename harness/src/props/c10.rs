//! C10 — a name maps to at most one live actor and is released on exit.
//!
//! Client threads (E-T) / tasks (E-A) spawn, look up, terminate and re-spawn actors under 2-3 shared
//! names; remote proxies carrying the same names are spawned and stopped (as NodeSession does with
//! the peer's actor names). Every operation is stamped at the client boundary; an offline checker
//! reasons on definite / possible registration intervals (no search).
use std::sync::{Arc, Mutex};

use ractor::{ActorCell, ActorStatus};

use crate::json::J;
use crate::prng::{hash_words, Prng};
use crate::probe::*;
use crate::report::{Report, Violation};
use crate::trace::{stamp, Rec, Trace};
use crate::{th, vt, Args};

#[derive(Clone, Debug)]
struct Holder {
    name: usize,
    pid: u64,
    call: u64,
    ret: u64,
    ok: bool,
    already_registered: bool,
    /// stamp taken just before the first termination request (u64::MAX = never)
    term_req: u64,
    /// stamp taken after wait()/join returned (u64::MAX = never)
    wait_ret: u64,
    failing_start: bool,
}

#[derive(Clone, Debug)]
struct Lookup {
    name: usize,
    by_pid: Option<u64>,
    call: u64,
    ret: u64,
    result: Option<u64>,
}

#[derive(Default)]
struct Hist {
    holders: Vec<Holder>,
    lookups: Vec<Lookup>,
    proxies: u64,
}

pub struct Outcome {
    pub violations: Vec<(String, String)>,
    pub nontrivial: bool,
    pub sig: u64,
    pub desc: Vec<String>,
    pub ops: u64,
    pub lookups_in_definite: u64,
    pub sample: Vec<String>,
}

fn check(h: &Hist) -> (Vec<(String, String)>, u64, bool) {
    let mut v = vec![];
    let ok: Vec<&Holder> = h.holders.iter().filter(|x| x.ok).collect();
    // two holders definitely registered at the same instant
    for (i, a) in ok.iter().enumerate() {
        for b in ok.iter().skip(i + 1) {
            if a.name == b.name && a.ret < b.term_req && b.ret < a.term_req {
                v.push((
                    "two-holders".to_string(),
                    format!("name {}: pid {} (spawn returned #{}, termination requested #{}) and pid {} (returned #{}, termination #{}) were both registered", a.name, a.pid, a.ret, a.term_req, b.pid, b.ret, b.term_req),
                ));
            }
        }
    }
    // unjustified ActorAlreadyRegistered
    for f in h.holders.iter().filter(|x| !x.ok && x.already_registered) {
        let justified = h.holders.iter().any(|x| {
            if std::ptr::eq(x, f) || x.name != f.name || x.already_registered {
                return false;
            }
            let end = if x.ok { x.wait_ret } else { x.ret };
            x.call <= f.ret && end >= f.call
        });
        if !justified {
            v.push(("unjustified-rejection".to_string(), format!("spawn under name {} at [#{}, #{}] failed with ActorAlreadyRegistered but no other actor could have held the name then", f.name, f.call, f.ret)));
        }
    }
    for f in h.holders.iter().filter(|x| !x.ok && !x.already_registered && !x.failing_start) {
        v.push(("unexpected-spawn-error".to_string(), format!("spawn under name {} failed with an unexpected error", f.name)));
    }
    // lookups
    let mut in_definite = 0;
    for l in &h.lookups {
        let expected: Vec<&&Holder> = ok
            .iter()
            .filter(|a| a.ret <= l.call && l.ret <= a.term_req && (l.by_pid.is_none() && a.name == l.name || l.by_pid == Some(a.pid)))
            .collect();
        if let Some(a) = expected.first() {
            in_definite += 1;
            if l.result != Some(a.pid) {
                v.push((
                    "lookup-miss".to_string(),
                    format!(
                        "{} at [#{}, #{}] returned {:?} although pid {} was registered for the whole interval (spawn returned #{}, termination requested #{})",
                        if l.by_pid.is_some() { format!("where_is_pid({})", a.pid) } else { format!("where_is(name {})", l.name) },
                        l.call,
                        l.ret,
                        l.result,
                        a.pid,
                        a.ret,
                        a.term_req
                    ),
                ));
            }
        }
        if let Some(pid) = l.result {
            if let Some(x) = h.holders.iter().find(|x| x.pid == pid) {
                if x.wait_ret < l.call {
                    v.push(("lookup-stale".to_string(), format!("lookup at #{} returned pid {pid} whose wait() had returned at #{}", l.call, x.wait_ret)));
                }
                if l.by_pid.is_none() && x.name != l.name {
                    v.push(("lookup-wrong-name".to_string(), format!("where_is(name {}) returned an actor spawned under name {}", l.name, x.name)));
                }
            }
        }
    }
    let contended = h.holders.iter().filter(|x| x.already_registered).count() > 0 || h.lookups.iter().any(|l| l.result.is_none());
    (v, in_definite, contended)
}

struct OwnedActor {
    hidx: usize,
    actor: ractor::ActorRef<PMsg>,
    handle: ractor::concurrency::JoinHandle<()>,
}

/// One client (thread or task) worth of operations. `block` runs an async op to completion.
async fn client(seed: u64, t: u64, nops: u64, names: Arc<Vec<String>>, hist: Arc<Mutex<Hist>>, trace: Arc<Trace>, sup: ActorCell, yields: bool, tl: Option<ractor::thread_local::ThreadLocalActorSpawner>) {
    let mut p = Prng::new(seed ^ (t + 1).wrapping_mul(0x9E37));
    let mut owned: Vec<OwnedActor> = vec![];
    for op in 0..nops {
        if yields {
            for _ in 0..p.below(3) {
                tokio::task::yield_now().await;
            }
        }
        let n = p.below(names.len() as u64) as usize;
        match p.below(11) {
            10 => {
                // an instant spawn whose pre_start fails, watched through the reference that exists at once: the moment the watcher
                // sees Stopped a wait() would return, so from then on the name must be free (lookup, re-spawn)
                let mut spec = ProbeSpec::new(3000 * (t + 1) + op, Some(names[n].clone()), trace.clone());
                spec.pre_start = vec![Step::Yield, Step::Err];
                let spec = Arc::new(spec);
                let call = stamp();
                if let Ok((aref, mut outer)) = ractor::ActorRuntime::<Probe>::spawn_instant(spec.name.clone(), Probe { spec: spec.clone() }, ()) {
                    let mut seen = false;
                    for _ in 0..2_000_000u64 {
                        if aref.get_status() == ActorStatus::Stopped {
                            seen = true;
                            break;
                        }
                        if yields {
                            tokio::task::yield_now().await;
                        } else {
                            std::hint::spin_loop();
                        }
                    }
                    let pid = pid_of(&aref.get_cell());
                    if !seen {
                        // not seen in time: fall back to the start task's own completion (no lookup clause then)
                        let _ = (&mut outer).await;
                    }
                    let ret = stamp();
                    hist.lock().unwrap().holders.push(Holder { name: n, pid, call, ret, ok: false, already_registered: false, term_req: call, wait_ret: ret, failing_start: true });
                    if seen {
                        let c2 = stamp();
                        let r = ractor::registry::where_is(&names[n]);
                        let r2 = stamp();
                        hist.lock().unwrap().lookups.push(Lookup { name: n, by_pid: None, call: c2, ret: r2, result: r.map(|c| pid_of(&c)) });
                    }
                    if seen {
                        let _ = outer.await;
                    }
                }
            }
            0..=2 => {
                // spawn under a shared name (sometimes with a failing pre_start)
                let failing = p.chance(1, 6);
                let mut spec = ProbeSpec::new(1000 * (t + 1) + op, Some(names[n].clone()), trace.clone());
                if failing {
                    spec.pre_start = vec![Step::Yield, Step::Err];
                } else if p.chance(1, 3) {
                    spec.pre_start = vec![Step::Yield];
                }
                if p.chance(1, 3) {
                    // a slow post_stop: the name is already free while the old holder is still exiting
                    spec.post_stop = vec![Step::Sleep(p.range(1, 4))];
                }
                let spec = Arc::new(spec);
                let call = stamp();
                // thread engine: one spawn in four is a thread-local actor contending for the same names
                let r = match &tl {
                    Some(sp) if p.chance(1, 4) => spawn_tl_probe(&spec, None, sp.clone()).await,
                    _ => spawn_probe(&spec, None).await,
                };
                let ret = stamp();
                let mut hh = Holder { name: n, pid: u64::MAX, call, ret, ok: false, already_registered: false, term_req: u64::MAX, wait_ret: u64::MAX, failing_start: failing };
                match r {
                    Ok((actor, handle)) => {
                        hh.ok = true;
                        hh.pid = pid_of(&actor.get_cell());
                        let mut g = hist.lock().unwrap();
                        g.holders.push(hh);
                        owned.push(OwnedActor { hidx: g.holders.len() - 1, actor, handle });
                    }
                    Err(ractor::SpawnErr::ActorAlreadyRegistered(_)) => {
                        hh.already_registered = true;
                        hist.lock().unwrap().holders.push(hh);
                    }
                    Err(_) => {
                        hh.pid = spec.pid.load(std::sync::atomic::Ordering::SeqCst);
                        hist.lock().unwrap().holders.push(hh);
                    }
                }
            }
            3..=5 => {
                let call = stamp();
                let r = ractor::registry::where_is(&names[n]);
                let ret = stamp();
                hist.lock().unwrap().lookups.push(Lookup { name: n, by_pid: None, call, ret, result: r.map(|c| pid_of(&c)) });
            }
            #[cfg(feature = "cluster")]
            6 => {
                // pid lookup of one of my own actors or of a random known one
                let target = {
                    let g = hist.lock().unwrap();
                    let oks: Vec<u64> = g.holders.iter().filter(|x| x.ok).map(|x| x.pid).collect();
                    if oks.is_empty() {
                        None
                    } else {
                        Some(oks[p.below(oks.len() as u64) as usize])
                    }
                };
                if let Some(pid) = target {
                    let call = stamp();
                    let r = ractor::registry::where_is_pid(ractor::ActorId::Local(pid));
                    let ret = stamp();
                    hist.lock().unwrap().lookups.push(Lookup { name: usize::MAX, by_pid: Some(pid), call, ret, result: r.map(|c| pid_of(&c)) });
                }
            }
            #[cfg(feature = "cluster")]
            7 => {
                // a remote proxy carrying one of the shared names lives and dies
                let spec = Arc::new(ProbeSpec::new(5000 + t * 100 + op, Some(names[n].clone()), trace.clone()));
                let id = ractor::ActorId::Remote { node_id: 7, pid: (seed & 0xffff) * 1000 + t * 100 + op };
                if let Ok((a, h)) = ractor::ActorRuntime::<Probe>::spawn_linked_remote(Some(names[n].clone()), Probe { spec }, id, (), sup.clone()).await {
                    if yields {
                        tokio::task::yield_now().await;
                    }
                    a.stop(None);
                    let _ = h.await;
                    hist.lock().unwrap().proxies += 1;
                }
            }
            _ => {
                // terminate one of my actors, by a random cause, and wait for it
                if !owned.is_empty() {
                    let i = p.below(owned.len() as u64) as usize;
                    let o = owned.swap_remove(i);
                    let t_req = stamp();
                    hist.lock().unwrap().holders[o.hidx].term_req = t_req;
                    match p.below(4) {
                        0 => o.actor.stop(None),
                        1 => o.actor.kill(),
                        2 => {
                            let _ = o.actor.drain();
                        }
                        _ => {
                            let _ = o.actor.send_message(PMsg::Work(Work::new(&trace, t as u32, op, vec![Step::PanicString])));
                        }
                    }
                    if p.chance(1, 3) {
                        // repeated / late termination requests while the actor is (perhaps) already exiting
                        if yields {
                            tokio::task::yield_now().await;
                        } else {
                            tokio::time::sleep(std::time::Duration::from_millis(1)).await;
                        }
                        match p.below(3) {
                            0 => {
                                let _ = o.actor.drain();
                            }
                            1 => o.actor.stop(None),
                            _ => o.actor.kill(),
                        }
                    }
                    if p.chance(1, 2) {
                        let _ = o.actor.wait(None).await;
                    } else {
                        let _ = o.handle.await;
                    }
                    let w = stamp();
                    hist.lock().unwrap().holders[o.hidx].wait_ret = w;
                }
            }
        }
    }
    for o in owned {
        let t_req = stamp();
        hist.lock().unwrap().holders[o.hidx].term_req = t_req;
        o.actor.stop(None);
        let _ = o.handle.await;
        let w = stamp();
        hist.lock().unwrap().holders[o.hidx].wait_ret = w;
    }
    let _ = sup;
}

/// C10 'fail without side effects': a pid lifecycle listener must only ever hear about actors whose spawn went through
/// (or got as far as pre_start); a spawn refused with ActorAlreadyRegistered announces nothing.
#[cfg(feature = "cluster")]
fn pid_event_oracle(trace: &Trace, hist: &Hist, also_known: &[u64]) -> Vec<(String, String)> {
    let mut v = vec![];
    let known: std::collections::HashSet<u64> = hist.holders.iter().map(|h| h.pid).chain(also_known.iter().copied()).collect();
    for r in trace.snapshot() {
        if let crate::trace::Ev::Sup { uid: 2, kind, who, .. } = &r.ev {
            if matches!(kind, crate::trace::SupKind::PidSpawn | crate::trace::SupKind::PidTerminate) && !known.contains(who) {
                v.push(("refused-spawn-side-effect".to_string(), format!("the pid lifecycle listener received {kind:?} for pid {who}, which belongs to no actor of this scenario that was ever spawned successfully or ran pre_start (a refused spawn announced itself)")));
                break;
            }
        }
    }
    v
}

fn finish(seed: u64, hist: &Hist, desc: Vec<String>, extra: Vec<(String, String)>) -> Outcome {
    let (mut v, in_definite, contended) = check(hist);
    v.extend(extra);
    let oks = hist.holders.iter().filter(|x| x.ok).count() as u64;
    let rej = hist.holders.iter().filter(|x| x.already_registered).count() as u64;
    let mut sample: Vec<String> = hist.holders.iter().take(6).map(|h| format!("{h:?}")).collect();
    sample.extend(hist.lookups.iter().take(4).map(|l| format!("{l:?}")));
    let _ = seed;
    Outcome {
        violations: v,
        nontrivial: contended && oks >= 2,
        sig: hash_words(&[oks, rej, hist.lookups.len() as u64, in_definite, hist.proxies]),
        desc,
        ops: (hist.holders.len() + hist.lookups.len()) as u64,
        lookups_in_definite: in_definite,
        sample,
    }
}

fn tl_spawner() -> ractor::thread_local::ThreadLocalActorSpawner {
    static TL: std::sync::OnceLock<ractor::thread_local::ThreadLocalActorSpawner> = std::sync::OnceLock::new();
    TL.get_or_init(ractor::thread_local::ThreadLocalActorSpawner::new).clone()
}

pub fn run_one_th(seed: u64, rt: &tokio::runtime::Runtime) -> Outcome {
    let mut p = Prng::new(seed);
    let intensity = *p.pick(&[0u32, 30, 60]);
    th::begin(seed, intensity);
    let trace = Arc::new(Trace::new());
    let nnames = p.range(1, 3);
    let names: Arc<Vec<String>> = Arc::new((0..nnames).map(|i| format!("c10-{seed:x}-{i}")).collect());
    let nthreads = p.range(2, 8);
    let nops = p.range(4, 24);
    let hist = Arc::new(Mutex::new(Hist::default()));
    let sup_spec = Arc::new(ProbeSpec::new(1, None, trace.clone()));
    let (sup, sup_h) = rt.block_on(spawn_probe(&sup_spec, None)).expect("sup");
    #[cfg(feature = "cluster")]
    let pidmon = {
        let mut m = ProbeSpec::new(2, None, trace.clone());
        m.pre_start = vec![Step::PidMonitor];
        let m = Arc::new(m);
        rt.block_on(spawn_probe(&m, None)).expect("pid monitor")
    };
    let mut clients: Vec<Box<dyn FnOnce() + Send>> = vec![];
    for t in 0..nthreads {
        let (names, hist, trace, supc, h) = (names.clone(), hist.clone(), trace.clone(), sup.get_cell(), rt.handle().clone());
        let tl = tl_spawner();
        clients.push(Box::new(move || h.block_on(client(seed, t, nops, names, hist, trace, supc, false, Some(tl)))));
    }
    th::run_clients(clients);
    let mut extra = vec![];
    #[cfg(feature = "cluster")]
    {
        // every event emitted so far has been queued to the listener; a Flush behind them makes sure they were logged
        let _ = rt.block_on(pidmon.0.call(PMsg::Flush, Some(std::time::Duration::from_secs(20))));
        extra.extend(pid_event_oracle(&trace, &hist.lock().unwrap(), &[pid_of(&sup.get_cell()), pid_of(&pidmon.0.get_cell())]));
        pidmon.0.stop(None);
        let _ = rt.block_on(pidmon.1);
    }
    sup.stop(None);
    let _ = rt.block_on(sup_h);
    th::end();
    let _ = crate::th::settle_leaks();
    for l in vt::global_leaks() {
        extra.push(("leak".to_string(), l));
    }
    for (loc, msg) in crate::take_foreign_panics() {
        extra.push(("foreign-panic".into(), format!("{loc}: {msg}")));
    }
    let h = hist.lock().unwrap();
    finish(seed, &h, vec![format!("th names={nnames} threads={nthreads} ops/thread={nops} intensity={intensity}")], extra)
}

pub fn run_one_vt(seed: u64) -> Outcome {
    let mut p = Prng::new(seed);
    let defer = *p.pick(&[0u64, 25]);
    let nnames = p.range(1, 3);
    let names: Arc<Vec<String>> = Arc::new((0..nnames).map(|i| format!("c10v-{seed:x}-{i}")).collect());
    let ntasks = p.range(2, 8);
    let nops = p.range(4, 24);
    let hist = Arc::new(Mutex::new(Hist::default()));
    let h2 = hist.clone();
    let extra_vt: Arc<Mutex<Vec<(String, String)>>> = Default::default();
    let ex2 = extra_vt.clone();
    let r = vt::run(seed, defer, async move {
        let trace = Arc::new(Trace::new());
        let sup_spec = Arc::new(ProbeSpec::new(1, None, trace.clone()));
        let (sup, sup_h) = spawn_probe(&sup_spec, None).await.expect("sup");
        #[cfg(feature = "cluster")]
        let pidmon = {
            let mut m = ProbeSpec::new(2, None, trace.clone());
            m.pre_start = vec![Step::PidMonitor];
            let m = Arc::new(m);
            spawn_probe(&m, None).await.expect("pid monitor")
        };
        let mut tasks = vec![];
        for t in 0..ntasks {
            tasks.push(vt::spawn_h(&format!("c10-client{t}"), client(seed, t, nops, names.clone(), h2.clone(), trace.clone(), sup.get_cell(), true, None)));
        }
        for t in tasks {
            let _ = t.await;
        }
        #[cfg(feature = "cluster")]
        {
            vt::settle().await;
            let _ = pidmon.0.call(PMsg::Flush, None).await;
            ex2.lock().unwrap().extend(pid_event_oracle(&trace, &h2.lock().unwrap(), &[pid_of(&sup.get_cell()), pid_of(&pidmon.0.get_cell())]));
            pidmon.0.stop(None);
            let _ = pidmon.1.await;
        }
        sup.stop(None);
        let _ = sup_h.await;
        vt::quiesce(1).await;
    });
    let mut extra: Vec<(String, String)> = std::mem::take(&mut *extra_vt.lock().unwrap());
    if r.is_none() {
        extra.push(("stuck".to_string(), "scenario pending at the virtual-time horizon".to_string()));
    }
    for l in vt::global_leaks() {
        extra.push(("leak".to_string(), l));
    }
    for (loc, msg) in crate::take_foreign_panics() {
        extra.push(("foreign-panic".into(), format!("{loc}: {msg}")));
    }
    let h = hist.lock().unwrap();
    finish(seed, &h, vec![format!("vt names={nnames} tasks={ntasks} ops/task={nops} defer={defer}")], extra)
}

pub fn run(args: &Args, rep: &mut Report) {
    let seeds: Vec<u64> = match args.replay {
        Some(s) => vec![s],
        None => args.indices().map(|i| args.scenario_seed(i)).collect(),
    };
    let rt = if args.engine == "th" { Some(th::runtime(4)) } else { None };
    for seed in seeds {
        crate::watch_begin(seed);
        let o = match &rt {
            Some(rt) => run_one_th(seed, rt),
            None => run_one_vt(seed),
        };
        crate::watch_end();
        rep.scenario(o.nontrivial, o.sig);
        rep.count("operations_recorded", o.ops);
        rep.count("lookups_inside_a_definite_holding_interval", o.lookups_in_definite);
        if o.nontrivial && rep.samples.len() < 3 {
            rep.sample(J::obj().set("scenario_seed", format!("{seed}")).set("desc", o.desc.clone()).set("history_excerpt", o.sample.clone()));
        }
        for (clause, detail) in o.violations {
            rep.violation(Violation { signature: clause.clone(), clause, detail, scenario_seed: seed, scenario: o.desc.join("; "), trace: o.sample.clone() });
        }
    }
    let hits = crate::ctl::ctl().hit_snapshot();
    rep.count("hits_registry_register", hits[ractor::verif::pt::REGISTRY_REGISTER as usize]);
    rep.count("hits_registry_unregister", hits[ractor::verif::pt::REGISTRY_UNREGISTER as usize]);
    let _: Option<Rec> = None;
    let _ = ActorStatus::Running;
}
