//! Detached-cell *tables* scenario for C10 / C11: bare OS threads create named cells (no actor task behind them), join /
//! leave / monitor process groups, look names and members up, and "exit" their cells (`verif_set_status(Stopping)` runs the
//! real exit cleanup: name and pid unregistration, `demonitor_all`, `leave_all`). No runtime is involved, so the scenario
//! also runs under **Miri** (engine `miri`: data races, UB and weak-memory behaviours in ractor's use of DashMap, the
//! reverse-index mutexes and the registry) besides natively under H1 noise (engine `dtab`).
//!
//! The oracle needs no history and no clock (and therefore adds no synchronisation of its own that could order the
//! threads for Miri): every thread returns its own plain log when it is joined, and the *end state* is judged —
//!   C10: two cells that were never exited do not share a name; `where_is(name)` yields exactly the surviving holder, or
//!        nothing; a lookup never returns a cell carrying another name; exited cells are in no table.
//!   C11: for every (scope, group) the members are exactly the surviving cells whose owner's last operation on that group
//!        was a join (each cell has one writer); a group / scope is listed iff it has members; the four internal indexes
//!        (H3 snapshot) agree with that; exited cells are members and monitors of nothing.
use std::collections::{BTreeMap, BTreeSet};

use ractor::{ActorCell, ActorRef, ActorStatus};

use crate::prng::{hash_words, Prng};
use crate::probe::PMsg;
use crate::th;

struct Dummy;
#[cfg_attr(feature = "alt", ractor::async_trait)]
impl ractor::Actor for Dummy {
    type Msg = PMsg;
    type State = ();
    type Arguments = ();
    async fn pre_start(&self, _: ActorRef<PMsg>, _: ()) -> Result<(), ractor::ActorProcessingErr> {
        Ok(())
    }
}

pub struct Outcome {
    pub violations: Vec<(&'static str, String, String)>,
    pub nontrivial: bool,
    pub sig: u64,
    pub ops: u64,
    pub desc: String,
}

struct Owned {
    cell: ActorCell,
    _ports: ractor::actor::actor_cell::VerifPorts,
    name: Option<usize>,
    exited: bool,
    /// (scope index or None for the default scope, group index) -> joined?
    member: BTreeMap<(Option<usize>, usize), bool>,
    monitors: BTreeSet<usize>,
}

struct ThreadLog {
    /// (cell, group index) pairs of the default scope that a thread other than the owner joined
    tainted: Vec<(String, usize)>,
    owned: Vec<Owned>,
    wrong_name: Vec<String>,
    refused: u64,
    ops: u64,
}

pub fn run_one(seed: u64, yield_only: bool) -> Outcome {
    let mut p = Prng::new(seed);
    if yield_only {
        crate::ctl::ctl().begin(crate::ctl::MODE_YIELD, seed);
    } else {
        th::begin(seed, *p.pick(&[0u32, 40, 80]));
    }
    let tag = format!("{:x}", seed & 0xffff_ffff);
    let names: Vec<String> = (0..2).map(|i| format!("mt-{tag}-{i}")).collect();
    let groups: Vec<String> = (0..2).map(|i| format!("mg-{tag}-{i}")).collect();
    let scopes: Vec<String> = (0..1).map(|i| format!("ms-{tag}-{i}")).collect();
    let nthreads = if yield_only { 2 + p.below(2) } else { 2 + p.below(3) };
    // cells published for the other threads: they join / monitor with them while the owner may be exiting them
    let pool: std::sync::Arc<std::sync::Mutex<Vec<ActorCell>>> = Default::default();
    let mut clients: Vec<Box<dyn FnOnce() -> ThreadLog + Send>> = vec![];
    for t in 0..nthreads {
        let (names, groups, scopes, pool) = (names.clone(), groups.clone(), scopes.clone(), pool.clone());
        let mut q = Prng::new(seed ^ (t + 1).wrapping_mul(0x9e3779b97f4a7c15));
        let nops = if yield_only { 4 + q.below(5) } else { 10 + q.below(40) };
        clients.push(Box::new(move || {
            let mut lg = ThreadLog { tainted: vec![], owned: vec![], wrong_name: vec![], refused: 0, ops: 0 };
            for _ in 0..nops {
                lg.ops += 1;
                let gi = q.below(groups.len() as u64) as usize;
                let si = if q.chance(1, 2) { Some(0usize) } else { None };
                let live: Vec<usize> = lg.owned.iter().enumerate().filter(|(_, o)| !o.exited).map(|(i, _)| i).collect();
                match q.below(12) {
                    0..=2 => {
                        let ni = if q.chance(2, 3) { Some(q.below(names.len() as u64) as usize) } else { None };
                        match ActorCell::verif_detached::<Dummy>(ni.map(|i| names[i].clone()), None) {
                            Ok((cell, ports)) => {
                                if q.chance(1, 2) {
                                    pool.lock().unwrap().push(cell.clone());
                                }
                                lg.owned.push(Owned { cell, _ports: ports, name: ni, exited: false, member: BTreeMap::new(), monitors: BTreeSet::new() })
                            }
                            Err(_) => lg.refused += 1,
                        }
                    }
                    3..=4 if !live.is_empty() => {
                        let o = &mut lg.owned[live[q.below(live.len() as u64) as usize]];
                        match si {
                            Some(s) => ractor::pg::join_scoped(scopes[s].clone(), groups[gi].clone(), vec![o.cell.clone()]),
                            None => ractor::pg::join(groups[gi].clone(), vec![o.cell.clone()]),
                        }
                        o.member.insert((si, gi), true);
                    }
                    5 if !live.is_empty() => {
                        let o = &mut lg.owned[live[q.below(live.len() as u64) as usize]];
                        match si {
                            Some(s) => ractor::pg::leave_scoped(scopes[s].clone(), groups[gi].clone(), vec![o.cell.clone()]),
                            None => ractor::pg::leave(groups[gi].clone(), vec![o.cell.clone()]),
                        }
                        o.member.insert((si, gi), false);
                    }
                    6 if !live.is_empty() => {
                        let o = &mut lg.owned[live[q.below(live.len() as u64) as usize]];
                        if q.chance(2, 3) {
                            ractor::pg::monitor(groups[gi].clone(), o.cell.clone());
                            o.monitors.insert(gi);
                        } else {
                            ractor::pg::demonitor(groups[gi].clone(), o.cell.get_id());
                            o.monitors.remove(&gi);
                        }
                    }
                    7 => {
                        let ni = q.below(names.len() as u64) as usize;
                        if let Some(c) = ractor::registry::where_is(names[ni].clone()) {
                            if c.get_name().as_deref() != Some(names[ni].as_str()) {
                                lg.wrong_name.push(format!("where_is({}) returned a cell named {:?}", names[ni], c.get_name()));
                            }
                        }
                        let _ = ractor::registry::registered().len();
                    }
                    9 => {
                        // operate on somebody else's cell (its owner may be exiting it right now): only the 'nothing sticks to an
                        // exited cell' clauses apply to these, so they use their own group
                        let c = { let g = pool.lock().unwrap(); if g.is_empty() { None } else { Some(g[q.below(g.len() as u64) as usize].clone()) } };
                        if let Some(c) = c {
                            match q.below(5) {
                                0 => ractor::pg::monitor(format!("{}-x", groups[gi]), c),
                                1 => ractor::pg::monitor_scope(scopes[0].clone(), c),
                                2 => ractor::pg::join(format!("{}-x", groups[gi]), vec![c]),
                                _ => {
                                    // a regular group: that (cell, group) pair now has two writers and is left out of the equality clause
                                    lg.tainted.push((format!("{:?}", c.get_id()), gi));
                                    ractor::pg::join(groups[gi].clone(), vec![c]);
                                }
                            }
                        }
                    }
                    8 => {
                        let _ = ractor::pg::get_members(&groups[gi]).len() + ractor::pg::get_scoped_members(&scopes[0], &groups[gi]).len() + ractor::pg::get_local_members(&groups[gi]).len();
                        let _ = ractor::pg::which_groups().len() + ractor::pg::which_scopes().len() + ractor::pg::which_scoped_groups(&scopes[0]).len() + ractor::pg::which_scopes_and_groups().len();
                    }
                    _ if !live.is_empty() => {
                        let o = &mut lg.owned[live[q.below(live.len() as u64) as usize]];
                        o.cell.verif_set_status(ActorStatus::Stopping);
                        o.cell.verif_set_status(ActorStatus::Stopped);
                        o.exited = true;
                    }
                    _ => {}
                }
            }
            lg
        }));
    }
    if yield_only {
        clients = th::stagger(clients, &mut p.fork());
    }
    let logs = th::run_clients(clients);
    if yield_only {
        crate::ctl::ctl().end();
    } else {
        th::end();
    }
    // ------------------------------------------------------------------ end-state oracle (single thread from here on)
    let mut v: Vec<(&'static str, String, String)> = vec![];
    let mut ops = 0;
    let mut refused = 0;
    let all: Vec<&Owned> = logs.iter().flat_map(|l| l.owned.iter()).collect();
    for l in &logs {
        ops += l.ops;
        refused += l.refused;
        for w in &l.wrong_name {
            v.push(("C10", "lookup-wrong-name".into(), w.clone()));
        }
    }
    for (ni, name) in names.iter().enumerate() {
        let holders: Vec<&&Owned> = all.iter().filter(|o| o.name == Some(ni) && !o.exited).collect();
        if holders.len() > 1 {
            v.push(("C10", "two-holders".into(), format!("{} cells that never exited were all created successfully under the name {name}", holders.len())));
        }
        let found = ractor::registry::where_is(name.clone()).map(|c| c.get_id());
        let want = holders.first().map(|o| o.cell.get_id());
        if holders.len() <= 1 && found != want {
            v.push(("C10", if want.is_some() { "lookup-miss" } else { "lookup-stale" }.into(), format!("at the end where_is({name}) = {found:?} but the surviving holder is {want:?}")));
        }
    }
    let tainted: BTreeSet<(String, usize)> = logs.iter().flat_map(|l| l.tainted.iter().cloned()).collect();
    let exited_ids: BTreeSet<String> = all.iter().filter(|o| o.exited).map(|o| format!("{:?}", o.cell.get_id())).collect();
    // expected membership
    let mut listed_groups: BTreeSet<(Option<usize>, usize)> = BTreeSet::new();
    for si in [None, Some(0usize)] {
        for (gi, g) in groups.iter().enumerate() {
            let want: BTreeSet<String> = all.iter().filter(|o| !o.exited && o.member.get(&(si, gi)) == Some(&true)).map(|o| format!("{:?}", o.cell.get_id())).collect();
            let got_cells = match si {
                Some(s) => ractor::pg::get_scoped_members(&scopes[s], g),
                None => ractor::pg::get_members(g),
            };
            let got: BTreeSet<String> = got_cells.iter().map(|c| format!("{:?}", c.get_id())).collect();
            let (got_c, want_c): (BTreeSet<String>, BTreeSet<String>) = if si.is_none() {
                (got.iter().filter(|x| !tainted.contains(&((*x).clone(), gi))).cloned().collect(), want.iter().filter(|x| !tainted.contains(&((*x).clone(), gi))).cloned().collect())
            } else {
                (got.clone(), want.clone())
            };
            let dead_any = got.iter().any(|x| exited_ids.contains(x));
            if got_c != want_c || dead_any {
                let dead: Vec<&String> = got.iter().filter(|x| exited_ids.contains(*x)).collect();
                v.push(("C11", if dead.is_empty() { "membership-mismatch" } else { "dead-member" }.into(), format!("scope {si:?} group {g}: members {got:?}, expected {want:?} (each cell's owner's last join/leave; exited cells: {dead:?})")));
            }
            if !got.is_empty() && !got.iter().any(|x| exited_ids.contains(x)) {
                // (listing is judged against the membership the queries themselves report, which the clauses above tie to the model)
                listed_groups.insert((si, gi));
            }
        }
    }
    let wg: BTreeSet<String> = ractor::pg::which_groups().into_iter().filter(|g| groups.contains(g)).collect();
    let want_wg: BTreeSet<String> = listed_groups.iter().map(|(_, g)| groups[*g].clone()).collect(); // which_groups() spans all scopes
    if wg != want_wg {
        v.push(("C11", "query-mismatch".into(), format!("which_groups() lists {wg:?}, groups with members in any scope: {want_wg:?}")));
    }
    let wsg: BTreeSet<String> = ractor::pg::which_scoped_groups(&scopes[0]).into_iter().collect();
    let want_wsg: BTreeSet<String> = listed_groups.iter().filter(|(s, _)| s.is_some()).map(|(_, g)| groups[*g].clone()).collect();
    if wsg != want_wsg {
        v.push(("C11", "query-mismatch".into(), format!("which_scoped_groups({}) lists {wsg:?}, expected {want_wsg:?}", scopes[0])));
    }
    let scope_listed = ractor::pg::which_scopes().contains(&scopes[0]);
    if scope_listed != !want_wsg.is_empty() {
        v.push(("C11", "query-mismatch".into(), format!("which_scopes() lists the scope: {scope_listed}, it has member groups: {}", !want_wsg.is_empty())));
    }
    // internal indexes: exited cells appear nowhere; relations agree with the members map
    let snap = ractor::pg::verif_snapshot();
    for (s, g, members, listeners) in &snap.map {
        for id in members.iter().chain(listeners.iter()) {
            if exited_ids.contains(&format!("{id:?}")) {
                v.push(("C11", "dead-member".into(), format!("internal map {s}/{g} still holds exited cell {id:?} (member or monitor)")));
            }
        }
        for id in members {
            let in_rel = snap.relations.iter().any(|(a, mem, _, _)| a == id && mem.iter().any(|(rs, rg)| rs == s && rg == g));
            if !in_rel {
                v.push(("C11", "index-mismatch".into(), format!("{id:?} is a member of {s}/{g} but its reverse index does not say so")));
            }
        }
    }
    for (a, mem, mons, world) in &snap.relations {
        if exited_ids.contains(&format!("{a:?}")) && (!mem.is_empty() || !mons.is_empty() || !world.is_empty()) {
            v.push(("C11", "dead-member".into(), format!("reverse index of exited cell {a:?} is not empty: {mem:?} {mons:?} {world:?}")));
        }
        for (s, g) in mem {
            let in_map = snap.map.iter().any(|(ms, mg, members, _)| ms == s && mg == g && members.contains(a));
            if !in_map {
                v.push(("C11", "index-mismatch".into(), format!("reverse index says {a:?} is in {s}/{g} but the group entry does not list it")));
            }
        }
    }
    // a surviving cell whose owner's last word on a group was `monitor` is still a listener of that group
    for o in all.iter().filter(|o| !o.exited) {
        for gi in &o.monitors {
            let listed = snap.map.iter().any(|(s, g, _, listeners)| s == "__default_scope__" && *g == groups[*gi] && listeners.contains(&o.cell.get_id()))
                || snap.map.iter().any(|(_, g, _, listeners)| *g == groups[*gi] && listeners.contains(&o.cell.get_id()));
            if !listed {
                v.push(("C11", "monitor-lost".into(), format!("{:?} monitors group {} (its owner's last operation on it) but is not among the group's listeners", o.cell.get_id(), groups[*gi])));
            }
        }
    }
    // ---- clean up: exit every surviving cell, nothing may remain
    for l in &logs {
        for o in &l.owned {
            if !o.exited {
                o.cell.verif_set_status(ActorStatus::Stopping);
                o.cell.verif_set_status(ActorStatus::Stopped);
            }
        }
    }
    for l in crate::vt::global_leaks() {
        v.push(("C11", "leak".into(), l.clone()));
        v.push(("C10", "leak".into(), l));
    }
    let created = all.len() as u64;
    let exited = all.iter().filter(|o| o.exited).count() as u64;
    Outcome {
        violations: v,
        nontrivial: created >= 2 && nthreads >= 2,
        sig: hash_words(&[nthreads, created, exited, refused, listed_groups.len() as u64]),
        ops,
        desc: format!("threads={nthreads} ops={ops} cells={created} exited={exited} refused-names={refused}"),
    }
}

pub fn run(args: &crate::Args, rep: &mut crate::report::Report) {
    let yield_only = args.engine == "miri";
    for i in args.indices() {
        let seed = args.replay.unwrap_or_else(|| args.scenario_seed(i));
        crate::watch_begin(seed);
        let o = run_one(seed, yield_only);
        crate::watch_end();
        rep.scenario(o.nontrivial, o.sig);
        rep.count("table_ops", o.ops);
        if rep.samples.len() < 2 {
            rep.sample(crate::json::J::obj().set("scenario_seed", format!("{seed}")).set("desc", o.desc.clone()));
        }
        let mut problems: Vec<(String, String)> = o.violations.iter().filter(|(p, _, _)| *p == args.prop).map(|(_, c, d)| (c.clone(), d.clone())).collect();
        for (loc, msg) in crate::take_foreign_panics() {
            problems.push(("foreign-panic".into(), format!("{loc}: {msg}")));
        }
        for (clause, detail) in problems {
            rep.violation(crate::report::Violation { clause: clause.clone(), detail, scenario_seed: seed, scenario: o.desc.clone(), signature: clause, trace: vec![] });
        }
        if args.replay.is_some() {
            break;
        }
    }
    let hits = crate::ctl::ctl().hit_snapshot();
    rep.count("h1_point_hits", hits.iter().sum());
}
