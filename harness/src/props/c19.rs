//! C19 — wire decoding is total, bounded and round-trips.
//!
//! frames : valid frame streams under every kind of fragmentation (chaos reader: 1-byte reads, Pending
//!          anywhere) decode to the same messages; oversized declared lengths are rejected after the 8 header
//!          bytes with no payload read and no large allocation; mutated / random byte streams end in Ok or
//!          Err, never a panic, never a hang at EOF.
//! node   : hostile bytes fed through a transport to a live NodeServer: that session stops, the node
//!          server and a second session keep working.
//! msgs   : hostile SerializedMessages (unknown variant, short / trailing args, a field whose from_bytes
//!          panics, bad job metadata, stray CallReply) sent to Send and thread-local actors with derived
//!          message enums; `deserialize` called directly.
//! rt     : encode -> decode identity for the built-in convertible types (exhaustive for 8/16-bit types),
//!          derived enums and job options/metadata.
#![cfg(feature = "cluster")]
use std::pin::Pin;
use std::sync::atomic::{AtomicU64, Ordering};
use std::sync::{Arc, Mutex};
use std::task::{Context, Poll};
use std::time::Duration;

use ractor::message::SerializedMessage;
use ractor::{Actor, ActorProcessingErr, ActorRef, ActorStatus, BytesConvertable, Message, RpcReplyPort};
use ractor_cluster::verif::{auth, control, meta, node, FrameReader, NetworkMessage};
use ractor_cluster::RactorClusterMessage;
use tokio::io::{AsyncRead, ReadBuf};

use crate::json::J;
use crate::prng::{hash_words, Prng};
use crate::probe::*;
use crate::report::{Report, Violation};
use crate::trace::{Ev, SupKind, Trace};
use crate::{vt, Args};

// ------------------------------------------------------------------ chaos reader

pub struct ChaosRead {
    data: Vec<u8>,
    pos: usize,
    prng: Prng,
    max_chunk: usize,
    pending_pct: u64,
    pub consumed: Arc<AtomicU64>,
    pub polls: u64,
}
impl ChaosRead {
    pub fn new(data: Vec<u8>, seed: u64, max_chunk: usize, pending_pct: u64) -> Self {
        ChaosRead { data, pos: 0, prng: Prng::new(seed), max_chunk, pending_pct, consumed: Arc::new(AtomicU64::new(0)), polls: 0 }
    }
}
impl AsyncRead for ChaosRead {
    fn poll_read(mut self: Pin<&mut Self>, cx: &mut Context<'_>, buf: &mut ReadBuf<'_>) -> Poll<std::io::Result<()>> {
        self.polls += 1;
        if self.prng.below(100) < self.pending_pct {
            cx.waker().wake_by_ref();
            return Poll::Pending;
        }
        let left = self.data.len() - self.pos;
        if left == 0 {
            return Poll::Ready(Ok(())); // EOF
        }
        let mc = self.max_chunk.max(1) as u64;
        let n = (1 + self.prng.below(mc) as usize).min(left).min(buf.remaining());
        let (a, b) = (self.pos, self.pos + n);
        buf.put_slice(&self.data[a..b]);
        self.pos += n;
        self.consumed.fetch_add(n as u64, Ordering::SeqCst);
        Poll::Ready(Ok(()))
    }
}

fn enc(m: &NetworkMessage) -> Vec<u8> {
    let mut b = vec![];
    ractor_cluster::verif::encode_network_message(m, &mut b);
    b
}

fn random_bytes(p: &mut Prng, max: u64) -> Vec<u8> {
    (0..p.below(max + 1)).map(|_| p.next() as u8).collect()
}

fn random_message(p: &mut Prng) -> NetworkMessage {
    let s = |p: &mut Prng| -> String { (0..p.below(12)).map(|_| (b'a' + p.below(26) as u8) as char).collect() };
    let m = match p.below(12) {
        0 => meta::network_message::Message::Auth(auth::AuthenticationMessage { msg: Some(auth::authentication_message::Msg::Name(auth::NameMessage { name: s(p), flags: Some(auth::NodeFlags { version: p.next() as u32 }), connection_string: s(p), connection_id: p.next() })) }),
        1 => meta::network_message::Message::Auth(auth::AuthenticationMessage { msg: Some(auth::authentication_message::Msg::ClientChallenge(auth::ChallengeReply { challenge: p.next() as u32, digest: random_bytes(p, 40) })) }),
        2 => meta::network_message::Message::Auth(auth::AuthenticationMessage { msg: None }),
        3 => meta::network_message::Message::Node(node::NodeMessage { msg: Some(node::node_message::Msg::Cast(node::Cast { to: p.next(), what: random_bytes(p, 300), variant: s(p), metadata: if p.chance(1, 2) { Some(random_bytes(p, 30)) } else { None } })) }),
        4 => meta::network_message::Message::Node(node::NodeMessage { msg: Some(node::node_message::Msg::Call(node::Call { to: p.next(), what: random_bytes(p, 300), tag: p.next(), timeout_ms: if p.chance(1, 2) { Some(p.next()) } else { None }, variant: s(p), metadata: None })) }),
        5 => meta::network_message::Message::Node(node::NodeMessage { msg: Some(node::node_message::Msg::Reply(node::CallReply { to: p.next(), tag: p.next(), what: random_bytes(p, 100) })) }),
        6 => meta::network_message::Message::Control(control::ControlMessage { msg: Some(control::control_message::Msg::Spawn(control::Spawn { actors: (0..p.below(4)).map(|_| control::Actor { name: if p.chance(1, 2) { Some(s(p)) } else { None }, pid: p.next() }).collect() })) }),
        7 => meta::network_message::Message::Control(control::ControlMessage { msg: Some(control::control_message::Msg::PgJoin(control::PgJoin { scope: s(p), group: s(p), actors: vec![control::Actor { name: None, pid: p.next() }] })) }),
        8 => meta::network_message::Message::Control(control::ControlMessage { msg: Some(control::control_message::Msg::Terminate(control::Terminate { ids: (0..p.below(5)).map(|_| p.next()).collect() })) }),
        9 => meta::network_message::Message::Control(control::ControlMessage { msg: Some(control::control_message::Msg::Ready(control::Ready {})) }),
        10 => meta::network_message::Message::Node(node::NodeMessage { msg: Some(node::node_message::Msg::Cast(node::Cast { to: 1, what: random_bytes(p, 20_000), variant: String::new(), metadata: None })) }),
        _ => return NetworkMessage { message: None },
    };
    NetworkMessage { message: Some(m) }
}

/// Read frames until error / EOF. Returns (messages, final error kind, consumed bytes, polls)
fn read_all(data: Vec<u8>, seed: u64, max_chunk: usize, pending_pct: u64, max_frame: u64) -> Result<(Vec<NetworkMessage>, String, u64), String> {
    let rd = ChaosRead::new(data, seed, max_chunk, pending_pct);
    let consumed = rd.consumed.clone();
    let rt = tokio::runtime::Builder::new_current_thread().enable_time().start_paused(true).build().unwrap();
    let out = rt.block_on(async {
        tokio::time::timeout(Duration::from_secs(3600), async {
            let mut fr = FrameReader::new(Box::new(rd));
            let mut msgs = vec![];
            loop {
                match fr.read(max_frame).await {
                    Ok(m) => msgs.push(m),
                    Err(e) => return (msgs, format!("{:?}", e.kind())),
                }
            }
        })
        .await
    });
    match out {
        Ok((m, e)) => Ok((m, e, consumed.load(Ordering::SeqCst))),
        Err(_) => Err("reader still pending at EOF (virtual hour elapsed)".into()),
    }
}

pub struct Out {
    pub violations: Vec<(String, String)>,
    pub nontrivial: bool,
    pub sig: u64,
    pub desc: String,
    pub inputs: u64,
}

pub fn run_frames(seed: u64) -> Out {
    let mut p = Prng::new(seed);
    let mut v = vec![];
    let mut inputs = 0;
    let n = p.range(1, 8);
    let msgs: Vec<NetworkMessage> = (0..n).map(|_| random_message(&mut p)).collect();
    let mut stream = vec![];
    for m in &msgs {
        stream.extend(enc(m));
    }
    let max_frame = 1 << 20;
    // (a) every fragmentation decodes identically
    let reference = read_all(stream.clone(), 1, 1 << 20, 0, max_frame);
    let kind = p.below(4);
    match &reference {
        Ok((m, e, c)) => {
            if m != &msgs || e != "UnexpectedEof" || *c != stream.len() as u64 {
                v.push(("decode-mismatch".to_string(), format!("un-fragmented stream of {n} frames decoded to {} messages, end={e}, consumed {c}/{}", m.len(), stream.len())));
            }
        }
        Err(e) => v.push(("hang".to_string(), e.clone())),
    }
    for (chunk, pend) in [(1usize, 0u64), (1, 40), (3, 20), (p.range(1, 64) as usize, p.below(60))] {
        inputs += 1;
        match read_all(stream.clone(), p.next(), chunk, pend, max_frame) {
            Ok((m, e, _)) => {
                if m != msgs || e != "UnexpectedEof" {
                    v.push(("fragmentation".to_string(), format!("chunk<={chunk} pending={pend}%: decoded {} of {n} messages identically={}, end={e}", m.len(), m == msgs)));
                }
            }
            Err(e) => v.push(("hang".to_string(), e)),
        }
    }
    // (b) a declared length above the limit is rejected before any payload byte is read or buffered
    {
        inputs += 1;
        let limit = *p.pick(&[0u64, 1, 16, 1024, 1 << 20]);
        let declared = match p.below(4) {
            0 => limit + 1,
            1 => u64::MAX,
            2 => (isize::MAX as u64) + 1,
            _ => limit + 1 + p.below(1 << 40),
        };
        let mut data = declared.to_be_bytes().to_vec();
        data.extend(std::iter::repeat(0xEE).take(4096));
        let before = crate::alloc_meter::peak_reset();
        let r = read_all(data, p.next(), 7, 10, limit);
        let peak = crate::alloc_meter::peak_since(before);
        match r {
            Ok((m, e, consumed)) => {
                if !m.is_empty() || e != "InvalidData" {
                    v.push(("oversize-accepted".to_string(), format!("frame declaring {declared} bytes with limit {limit}: {} messages, end={e}", m.len())));
                }
                if consumed != 8 {
                    v.push(("oversize-payload-read".to_string(), format!("frame declaring {declared} bytes with limit {limit}: {consumed} bytes were taken from the reader, expected the 8 header bytes only")));
                }
                if peak > 256 * 1024 {
                    v.push(("oversize-buffered".to_string(), format!("rejecting a frame declaring {declared} bytes allocated up to {peak} bytes")));
                }
            }
            Err(e) => v.push(("hang".to_string(), e)),
        }
        // at the limit it is accepted
        let m = NetworkMessage { message: Some(meta::network_message::Message::Node(node::NodeMessage { msg: Some(node::node_message::Msg::Reply(node::CallReply { to: 1, tag: 2, what: vec![7; p.below(200) as usize] })) })) };
        let bytes = enc(&m);
        let exact = bytes.len() as u64 - 8;
        if let Ok((got, _, _)) = read_all(bytes.clone(), p.next(), 5, 10, exact) {
            if got != vec![m.clone()] {
                v.push(("limit-off-by-one".to_string(), format!("a frame of exactly the configured limit ({exact}) was not accepted")));
            }
        }
        if exact > 0 {
            if let Ok((got, e, _)) = read_all(bytes, p.next(), 5, 10, exact - 1) {
                if !got.is_empty() || e != "InvalidData" {
                    v.push(("limit-off-by-one".to_string(), format!("a frame one byte above the limit ({}) was accepted", exact - 1)));
                }
            }
        }
    }
    // (c) mutated / truncated / random streams: Ok or Err, never a panic, never a hang
    for _ in 0..6 {
        inputs += 1;
        let mut data = stream.clone();
        match kind {
            0 => {
                for _ in 0..p.range(1, 4) {
                    if !data.is_empty() {
                        let i = p.below(data.len() as u64) as usize;
                        data[i] ^= 1 << p.below(8);
                    }
                }
            }
            1 => data.truncate(p.below(data.len() as u64 + 1) as usize),
            2 => {
                // tamper with a length prefix
                if data.len() >= 8 {
                    let l = p.below(5000);
                    data[0..8].copy_from_slice(&l.to_be_bytes());
                }
            }
            _ => data = random_bytes(&mut p, 400),
        }
        let res = std::panic::catch_unwind(|| read_all(data.clone(), seed ^ 0x55, 9, 15, max_frame));
        match res {
            Ok(Ok((_m, e, _))) => {
                if !["UnexpectedEof", "InvalidData"].contains(&e.as_str()) {
                    v.push(("unexpected-error-kind".to_string(), format!("mutated stream ended with error kind {e}")));
                }
            }
            Ok(Err(e)) => v.push(("hang".to_string(), e)),
            Err(_) => v.push(("panic".to_string(), format!("decoding a mutated stream (kind {kind}) panicked; bytes={:?}", &data[..data.len().min(64)]))),
        }
    }
    for (loc, msg) in crate::take_foreign_panics() {
        v.push(("panic".into(), format!("{loc}: {msg}")));
    }
    Out { violations: v, nontrivial: true, sig: hash_words(&[crate::prng::hash_str(&format!("{msgs:?}")) , kind]), desc: format!("{n} frames, {} bytes, mutation kind {kind}", stream.len()), inputs }
}

// ------------------------------------------------------------------ derived message enums

#[derive(Debug, Clone, PartialEq)]
pub struct Boom(pub u8);
impl BytesConvertable for Boom {
    fn into_bytes(self) -> Vec<u8> {
        vec![self.0]
    }
    fn from_bytes(b: Vec<u8>) -> Self {
        if b.len() != 1 || b[0] == 0xFF {
            panic!("{} Boom::from_bytes", PANIC_MARK);
        }
        Boom(b[0])
    }
}

#[derive(RactorClusterMessage)]
pub enum DMsg {
    Unit,
    Tup(u32, String),
    Struct { a: Vec<u16>, b: bool },
    Boomy(Boom),
    Wide(i128, f64, char, Vec<i64>),
    #[rpc]
    AskLast(u64, RpcReplyPort<String>),
    #[rpc]
    AskFirst(RpcReplyPort<u64>, Vec<u8>),
    #[rpc]
    AskMid { x: u8, reply: RpcReplyPort<Vec<u8>>, y: String },
    /// an rpc whose only field is the reply port: its wire form carries no argument bytes at all
    #[rpc]
    Ping(RpcReplyPort<u8>),
}

fn dmsg_desc(m: &DMsg) -> String {
    match m {
        DMsg::Unit => "Unit".into(),
        DMsg::Tup(a, b) => format!("Tup({a},{b:?})"),
        DMsg::Struct { a, b } => format!("Struct({a:?},{b})"),
        DMsg::Boomy(b) => format!("Boomy({})", b.0),
        DMsg::Wide(a, b, c, d) => format!("Wide({a},{:x},{c:?},{d:?})", b.to_bits()),
        DMsg::AskLast(x, _) => format!("AskLast({x})"),
        DMsg::AskFirst(_, v) => format!("AskFirst({v:?})"),
        DMsg::AskMid { x, y, .. } => format!("AskMid({x},{y:?})"),
        DMsg::Ping(_) => "Ping".to_string(),
    }
}

fn random_dmsg(p: &mut Prng) -> (DMsg, String) {
    let s = |p: &mut Prng| -> String { (0..p.below(9)).map(|_| char::from_u32(0x61 + p.below(0x500) as u32).unwrap_or('x')).collect() };
    let m = match p.below(5) {
        0 => DMsg::Unit,
        1 => DMsg::Tup(p.next() as u32, s(p)),
        2 => DMsg::Struct { a: (0..p.below(6)).map(|_| p.next() as u16).collect(), b: p.chance(1, 2) },
        3 => DMsg::Boomy(Boom(p.below(255) as u8)),
        _ => DMsg::Wide(((p.next() as i128) << 64) | p.next() as i128, f64::from_bits(p.next()), char::from_u32(p.below(0xD7FF) as u32).unwrap_or('a'), (0..p.below(4)).map(|_| p.next() as i64).collect()),
    };
    let d = dmsg_desc(&m);
    (m, d)
}

pub struct DActor {
    pub log: Arc<Mutex<Vec<String>>>,
}
impl Actor for DActor {
    type Msg = DMsg;
    type State = ();
    type Arguments = ();
    async fn pre_start(&self, _: ActorRef<DMsg>, _: ()) -> Result<(), ActorProcessingErr> {
        Ok(())
    }
    async fn handle(&self, _: ActorRef<DMsg>, m: DMsg, _: &mut ()) -> Result<(), ActorProcessingErr> {
        self.log.lock().unwrap().push(dmsg_desc(&m));
        Ok(())
    }
}

#[derive(Default)]
pub struct TlDActor;
impl ractor::thread_local::ThreadLocalActor for TlDActor {
    type Msg = DMsg;
    type State = Arc<Mutex<Vec<String>>>;
    type Arguments = Arc<Mutex<Vec<String>>>;
    async fn pre_start(&self, _: ActorRef<DMsg>, log: Self::Arguments) -> Result<Self::State, ActorProcessingErr> {
        Ok(log)
    }
    async fn handle(&self, _: ActorRef<DMsg>, m: DMsg, log: &mut Self::State) -> Result<(), ActorProcessingErr> {
        log.lock().unwrap().push(dmsg_desc(&m));
        Ok(())
    }
}

type FMsg = ractor::factory::FactoryMessage<u64, DMsg>;

pub struct JActor {
    pub log: Arc<Mutex<Vec<String>>>,
}
fn fmsg_desc(m: &FMsg) -> String {
    match m {
        ractor::factory::FactoryMessage::Dispatch(j) => format!("Job({},{})", j.key, dmsg_desc(&j.msg)),
        _ => "other".into(),
    }
}
impl Actor for JActor {
    type Msg = FMsg;
    type State = ();
    type Arguments = ();
    async fn pre_start(&self, _: ActorRef<FMsg>, _: ()) -> Result<(), ActorProcessingErr> {
        Ok(())
    }
    async fn handle(&self, _: ActorRef<FMsg>, m: FMsg, _: &mut ()) -> Result<(), ActorProcessingErr> {
        self.log.lock().unwrap().push(fmsg_desc(&m));
        Ok(())
    }
}
#[derive(Default)]
pub struct TlJActor;
impl ractor::thread_local::ThreadLocalActor for TlJActor {
    type Msg = FMsg;
    type State = Arc<Mutex<Vec<String>>>;
    type Arguments = Arc<Mutex<Vec<String>>>;
    async fn pre_start(&self, _: ActorRef<FMsg>, log: Self::Arguments) -> Result<Self::State, ActorProcessingErr> {
        Ok(log)
    }
    async fn handle(&self, _: ActorRef<FMsg>, m: FMsg, log: &mut Self::State) -> Result<(), ActorProcessingErr> {
        log.lock().unwrap().push(fmsg_desc(&m));
        Ok(())
    }
}

/// metadata for a job envelope: absent, too short, exact, key too short for u64, random
fn hostile_meta(p: &mut Prng) -> Option<Vec<u8>> {
    match p.below(6) {
        0 => None,
        1 => Some(random_bytes(p, 15)),
        2 => Some((0..16).map(|_| p.next() as u8).collect()),
        3 => Some((0..16 + p.below(8)).map(|_| p.next() as u8).collect()),
        4 => Some((0..24).map(|_| p.next() as u8).collect()),
        _ => Some(random_bytes(p, 40)),
    }
}

fn hostile(p: &mut Prng) -> (SerializedMessage, String) {
    let variants = ["Unit", "Tup", "Struct", "Boomy", "Wide", "AskLast", "AskFirst", "AskMid", "Ping", "Ping", "Nope", ""];
    let variant = p.pick(&variants).to_string();
    // args: random garbage, a valid encoding truncated / extended, huge length prefixes
    let args = match p.below(6) {
        0 => random_bytes(p, 40),
        1 => vec![],
        2 => {
            let mut a = u64::MAX.to_be_bytes().to_vec();
            a.extend(random_bytes(p, 8));
            a
        }
        3 => {
            // well-formed single field then trailing bytes
            let mut a = 1u64.to_be_bytes().to_vec();
            a.push(0xFF); // Boom panics on 0xFF
            a.extend(random_bytes(p, 5));
            a
        }
        4 => {
            let (m, _) = random_dmsg(p);
            match m.serialize() {
                Ok(SerializedMessage::Cast { mut args, .. }) => {
                    let cut = p.below(args.len() as u64 + 1) as usize;
                    args.truncate(cut);
                    args
                }
                _ => vec![],
            }
        }
        _ => {
            let mut a = 1u64.to_be_bytes().to_vec();
            a.push(0xFF);
            a
        }
    };
    let kind = p.below(4);
    // (a Call for the port-only variant with no argument bytes is, in fact, a well-formed Ping)
    let desc = format!("variant={variant:?} args={} bytes{}", args.len(), if variant == "Ping" && args.is_empty() && kind == 0 { " WELL-FORMED-PING" } else { "" });
    let m = match kind {
        0 => {
            let (tx, _rx) = tokio::sync::oneshot::channel();
            SerializedMessage::Call { variant, args, reply: tx.into(), metadata: hostile_meta(p) }
        }
        1 => SerializedMessage::CallReply(p.next(), args),
        _ => SerializedMessage::Cast { variant, args, metadata: hostile_meta(p) },
    };
    (m, desc)
}

fn meta_len(m: &SerializedMessage) -> Option<usize> {
    match m {
        SerializedMessage::Cast { metadata, .. } | SerializedMessage::Call { metadata, .. } => metadata.as_ref().map(|m| m.len()),
        SerializedMessage::CallReply(..) => None,
    }
}

/// target: 0 = actor with the derived enum as message type, 1 = actor taking job envelopes (the factory's message type)
pub fn run_msgs(seed: u64, tl: Option<(&tokio::runtime::Runtime, ractor::thread_local::ThreadLocalActorSpawner)>) -> Out {
    let mut p = Prng::new(seed);
    let mut v: Vec<(String, String)> = vec![];
    let is_tl = tl.is_some();
    let target = p.below(2);
    let mut inputs = 0;
    let mut contained = 0u64;
    // direct calls of the decoding entry points (inside a runtime: decoding an rpc variant spawns the reply forwarder)
    let direct_rt = tokio::runtime::Builder::new_current_thread().enable_time().build().unwrap();
    let direct_guard = direct_rt.enter();
    for _ in 0..20 {
        inputs += 3;
        let (m, d) = hostile(&mut p);
        if std::panic::catch_unwind(std::panic::AssertUnwindSafe(|| {
            let _ = DMsg::deserialize(m);
        }))
        .is_err()
        {
            v.push(("derived-decoder-panics".to_string(), format!("the derived DMsg::deserialize panicked on {d}")));
        }
        // job envelopes: a key type whose conversion is total => the envelope decoder is total; absent or short
        // (<16 bytes) metadata is an error
        let (m2, d2) = hostile(&mut p);
        let ml = meta_len(&m2);
        let is_reply = matches!(m2, SerializedMessage::CallReply(..));
        match std::panic::catch_unwind(std::panic::AssertUnwindSafe(|| ractor::factory::Job::<Vec<u8>, DMsg>::deserialize(m2).is_ok())) {
            Err(_) => v.push(("job-decoder-panics".to_string(), format!("Job::<Vec<u8>,_>::deserialize panicked on {d2} (metadata {ml:?} bytes)"))),
            Ok(true) if is_reply || ml.map_or(true, |l| l < 16) => v.push(("job-bad-metadata-accepted".to_string(), format!("Job::deserialize accepted {d2} with metadata of {ml:?} bytes"))),
            _ => {}
        }
        // u64 keys: the (user) key conversion may panic only when metadata carries 16 option bytes and a short key
        let (m3, d3) = hostile(&mut p);
        let ml = meta_len(&m3);
        if std::panic::catch_unwind(std::panic::AssertUnwindSafe(|| {
            let _ = FMsg::deserialize(m3);
        }))
        .is_err()
        {
            contained += 1;
            if !matches!(ml, Some(16..=23)) {
                v.push(("job-decoder-panics".to_string(), format!("FactoryMessage::<u64,_>::deserialize panicked on {d3} (metadata {ml:?} bytes)")));
            }
        }
    }
    drop(direct_guard);
    drop(direct_rt);
    let _ = crate::take_foreign_panics();
    // live actors
    let trace = Arc::new(Trace::new());
    let log = Arc::new(Mutex::new(Vec::<String>::new()));
    let spawner = tl.as_ref().map(|t| t.1.clone());
    let body = async {
        let sup = Arc::new(ProbeSpec::new(1, None, trace.clone()));
        let (sup_ref, sup_h) = spawn_probe(&sup, None).await.expect("sup");
        let (cell, handle) = match (&spawner, target) {
            (Some(sp), 0) => {
                use ractor::thread_local::ThreadLocalActor;
                let (a, h) = TlDActor::spawn_linked(None, log.clone(), sup_ref.get_cell(), sp.clone()).await.expect("tl actor");
                (a.get_cell(), h)
            }
            (Some(sp), _) => {
                use ractor::thread_local::ThreadLocalActor;
                let (a, h) = TlJActor::spawn_linked(None, log.clone(), sup_ref.get_cell(), sp.clone()).await.expect("tl actor");
                (a.get_cell(), h)
            }
            (None, 0) => {
                let (a, h) = Actor::spawn_linked(None, DActor { log: log.clone() }, (), sup_ref.get_cell()).await.expect("actor");
                (a.get_cell(), h)
            }
            (None, _) => {
                let (a, h) = Actor::spawn_linked(None, JActor { log: log.clone() }, (), sup_ref.get_cell()).await.expect("actor");
                (a.get_cell(), h)
            }
        };
        let valid = |p: &mut Prng| -> (SerializedMessage, String) {
            let (m, d) = random_dmsg(p);
            if target == 0 {
                (m.serialize().unwrap(), d)
            } else {
                let key = p.next();
                (ractor::factory::FactoryMessage::Dispatch(ractor::factory::Job::with_options(key, m, Default::default())).serialize().unwrap(), format!("Job({key},{d})"))
            }
        };
        let mut local_v = vec![];
        let mut sent = vec![];
        let n = p.range(1, 10);
        let mut expected = vec![];
        for _ in 0..n {
            if p.chance(1, 3) {
                let (ser, d) = valid(&mut p);
                let _ = cell.send_serialized(ser);
                expected.push(d.clone());
                sent.push(format!("valid {d}"));
            } else {
                let (m, d) = hostile(&mut p);
                let ml = meta_len(&m);
                let _ = cell.send_serialized(m);
                sent.push(format!("hostile {d} meta={ml:?}"));
            }
        }
        // the final valid message must be handled by a still-running actor
        let (end, end_d) = if target == 0 {
            (DMsg::Tup(4242, "end".into()).serialize().unwrap(), dmsg_desc(&DMsg::Tup(4242, "end".into())))
        } else {
            (ractor::factory::FactoryMessage::Dispatch(ractor::factory::Job::with_options(4242u64, DMsg::Unit, Default::default())).serialize().unwrap(), "Job(4242,Unit)".to_string())
        };
        let _ = cell.send_serialized(end);
        expected.push(end_d.clone());
        if is_tl {
            for _ in 0..2000 {
                if log.lock().unwrap().iter().any(|l| *l == end_d) || cell.get_status() > ActorStatus::Running {
                    break;
                }
                tokio::time::sleep(Duration::from_millis(2)).await;
            }
        } else {
            vt::settle().await;
        }
        let got = log.lock().unwrap().clone();
        let kind = if is_tl { "thread-local" } else { "Send" };
        if cell.get_status() != ActorStatus::Running {
            local_v.push(("actor-died".to_string(), format!("the {kind} actor (target {target}) is {:?} after undecodable payloads; sent: {sent:?}", cell.get_status())));
        } else {
            // a Ping reaches the handler only when its wire form had no argument bytes (trailing bytes are a malformed payload)
            if target == 0 {
                let pings_ok = sent.iter().filter(|x| x.contains("WELL-FORMED-PING")).count();
                let pings_got = got.iter().filter(|g| g.as_str() == "Ping").count();
                if pings_got > pings_ok {
                    local_v.push(("trailing-args-accepted".to_string(), format!("the {kind} actor handled {pings_got} Ping calls but only {pings_ok} well-formed ones (no argument bytes) were sent: a payload with trailing bytes was decoded and dispatched; sent={sent:?}")));
                }
            }
            // every valid message we sent is handled, in order (a hostile one may decode by luck and appear in between)
            let mut it = got.iter();
            for e in &expected {
                if !it.any(|g| g == e) {
                    local_v.push(("valid-message-lost".to_string(), format!("valid message {e} sent to the {kind} actor (target {target}) was not handled (in order); handled={got:?} sent={sent:?}")));
                    break;
                }
            }
        }
        cell.stop(None);
        let _ = handle.await;
        let _ = sup_ref.call(|r| PMsg::Flush(r), None).await;
        let failures = trace.snapshot().iter().filter(|r| matches!(&r.ev, Ev::Sup { uid: 1, kind: SupKind::Failed, .. })).count();
        if failures > 0 {
            local_v.push(("supervisor-saw-failure".to_string(), format!("the supervisor of the {kind} actor logged {failures} ActorFailed events; sent: {sent:?}")));
        }
        sup_ref.stop(None);
        let _ = sup_h.await;
        (local_v, sent.len() as u64)
    };
    let res = match &tl {
        Some((rt, _)) => rt.block_on(async { tokio::time::timeout(Duration::from_secs(60), body).await.ok() }),
        None => vt::run(seed, 0, body),
    };
    match res {
        Some((lv, n)) => {
            v.extend(lv);
            inputs += n;
        }
        None => v.push(("stuck".into(), if is_tl { "scenario did not finish in 60 s".into() } else { "scenario pending at the virtual-time horizon".into() })),
    }
    if is_tl {
        let _ = crate::th::settle_leaks();
    }
    for l in vt::global_leaks() {
        v.push(("leak".into(), l));
    }
    // panics raised by conversions are expected here; what matters is that they were contained (verdicts above)
    contained += crate::take_foreign_panics().len() as u64;
    Out { violations: v, nontrivial: true, sig: hash_words(&[seed, is_tl as u64, target]), desc: format!("hostile serialized messages to a {} actor (target {target}); {contained} conversion panics contained", if is_tl { "thread-local" } else { "Send" }), inputs }
}

// ------------------------------------------------------------------ round trips

fn rt_check<T: BytesConvertable + Clone + PartialEq + std::fmt::Debug>(x: T, v: &mut Vec<(String, String)>, n: &mut u64) {
    *n += 1;
    let y = T::from_bytes(x.clone().into_bytes());
    if y != x {
        v.push(("round-trip".to_string(), format!("{} value {x:?} decoded as {y:?}", std::any::type_name::<T>())));
    }
}
fn rt_bits_f32(x: f32, v: &mut Vec<(String, String)>, n: &mut u64) {
    *n += 1;
    let y = f32::from_bytes(x.into_bytes());
    if y.to_bits() != x.to_bits() {
        v.push(("round-trip".to_string(), format!("f32 bits {:x} decoded as {:x}", x.to_bits(), y.to_bits())));
    }
}
fn rt_bits_f64(x: f64, v: &mut Vec<(String, String)>, n: &mut u64) {
    *n += 1;
    let y = f64::from_bytes(x.into_bytes());
    if y.to_bits() != x.to_bits() {
        v.push(("round-trip".to_string(), format!("f64 bits {:x} decoded as {:x}", x.to_bits(), y.to_bits())));
    }
}

pub fn run_rt(seed: u64, shard: u64, nshards: u64, rounds: u64) -> Out {
    let exhaustive_small = true;
    let mut p = Prng::new(seed);
    let mut v = vec![];
    let mut n = 0u64;
    if exhaustive_small && shard == 0 {
        for x in 0..=u8::MAX {
            rt_check(x, &mut v, &mut n);
            rt_check(x as i8, &mut v, &mut n);
        }
        rt_check(true, &mut v, &mut n);
        rt_check(false, &mut v, &mut n);
        rt_check((), &mut v, &mut n);
    }
    if exhaustive_small {
        for x in 0..=u16::MAX {
            if x as u64 % nshards == shard {
                rt_check(x, &mut v, &mut n);
                rt_check(x as i16, &mut v, &mut n);
            }
        }
        // every char (all Unicode scalar values), sharded
        let mut c = shard as u32;
        while c <= 0x10FFFF {
            if let Some(ch) = char::from_u32(c) {
                rt_check(ch, &mut v, &mut n);
            }
            c += nshards as u32;
        }
    }
    let edges64 = [0u64, 1, u64::MAX, u64::MAX - 1, 1 << 63, (1 << 63) - 1, 0x00FF00FF00FF00FF];
    for e in edges64 {
        rt_check(e, &mut v, &mut n);
        rt_check(e as i64, &mut v, &mut n);
        rt_check(e as u32, &mut v, &mut n);
        rt_check(e as i32, &mut v, &mut n);
        rt_check(((e as u128) << 64) | e as u128, &mut v, &mut n);
        rt_check((((e as u128) << 64) | e as u128) as i128, &mut v, &mut n);
        rt_bits_f64(f64::from_bits(e), &mut v, &mut n);
        rt_bits_f32(f32::from_bits(e as u32), &mut v, &mut n);
    }
    for f in [f64::NAN, f64::INFINITY, f64::NEG_INFINITY, -0.0, f64::MIN_POSITIVE, f64::MAX] {
        rt_bits_f64(f, &mut v, &mut n);
        rt_bits_f32(f as f32, &mut v, &mut n);
    }
    for _ in 0..rounds {
        let a = p.next();
        let b = p.next();
        rt_check(a, &mut v, &mut n);
        rt_check(a as i64, &mut v, &mut n);
        rt_check(a as u32, &mut v, &mut n);
        rt_check(b as i32, &mut v, &mut n);
        rt_check(((a as u128) << 64) | b as u128, &mut v, &mut n);
        rt_check((((b as u128) << 64) | a as u128) as i128, &mut v, &mut n);
        rt_bits_f64(f64::from_bits(a), &mut v, &mut n);
        rt_bits_f32(f32::from_bits(b as u32), &mut v, &mut n);
        let len = p.below(9) as usize;
        rt_check((0..len).map(|_| p.next() as u8).collect::<Vec<u8>>(), &mut v, &mut n);
        rt_check((0..len).map(|_| p.next() as i8).collect::<Vec<i8>>(), &mut v, &mut n);
        rt_check((0..len).map(|_| p.next() as u16).collect::<Vec<u16>>(), &mut v, &mut n);
        rt_check((0..len).map(|_| p.next() as i16).collect::<Vec<i16>>(), &mut v, &mut n);
        rt_check((0..len).map(|_| p.next() as u32).collect::<Vec<u32>>(), &mut v, &mut n);
        rt_check((0..len).map(|_| p.next() as i32).collect::<Vec<i32>>(), &mut v, &mut n);
        rt_check((0..len).map(|_| p.next()).collect::<Vec<u64>>(), &mut v, &mut n);
        rt_check((0..len).map(|_| p.next() as i64).collect::<Vec<i64>>(), &mut v, &mut n);
        rt_check((0..len).map(|_| ((p.next() as u128) << 64) | p.next() as u128).collect::<Vec<u128>>(), &mut v, &mut n);
        rt_check((0..len).map(|_| (((p.next() as u128) << 64) | p.next() as u128) as i128).collect::<Vec<i128>>(), &mut v, &mut n);
        rt_check((0..len).map(|_| p.chance(1, 2)).collect::<Vec<bool>>(), &mut v, &mut n);
        rt_check((0..len).map(|_| char::from_u32(p.below(0x11_0000) as u32).unwrap_or('z')).collect::<Vec<char>>(), &mut v, &mut n);
        {
            // Vec<f32>/Vec<f64> compared by bits
            let xs: Vec<f64> = (0..len).map(|_| f64::from_bits(p.next())).collect();
            let ys = <Vec<f64>>::from_bytes(xs.clone().into_bytes());
            n += 1;
            if xs.iter().map(|x| x.to_bits()).collect::<Vec<_>>() != ys.iter().map(|x| x.to_bits()).collect::<Vec<_>>() {
                v.push(("round-trip".to_string(), "Vec<f64> did not round-trip bit-exactly".to_string()));
            }
            let xs: Vec<f32> = (0..len).map(|_| f32::from_bits(p.next() as u32)).collect();
            let ys = <Vec<f32>>::from_bytes(xs.clone().into_bytes());
            n += 1;
            if xs.iter().map(|x| x.to_bits()).collect::<Vec<_>>() != ys.iter().map(|x| x.to_bits()).collect::<Vec<_>>() {
                v.push(("round-trip".to_string(), "Vec<f32> did not round-trip bit-exactly".to_string()));
            }
        }
        let s: String = (0..len).map(|_| char::from_u32(p.below(0x11_0000) as u32).unwrap_or('q')).collect();
        rt_check(s, &mut v, &mut n);
        // derived enums
        let (m, d) = random_dmsg(&mut p);
        n += 1;
        match m.serialize().and_then(DMsg::deserialize) {
            Ok(back) => {
                if dmsg_desc(&back) != d {
                    v.push(("round-trip".to_string(), format!("derived enum {d} decoded as {}", dmsg_desc(&back))));
                }
            }
            Err(_) => v.push(("round-trip".to_string(), format!("derived enum {d} failed to round-trip"))),
        }
        // rpc variants: arguments survive, reply port works end to end
        n += 1;
        let (tx, rx) = tokio::sync::oneshot::channel::<String>();
        let x = p.next();
        match DMsg::AskLast(x, tx.into()).serialize().and_then(DMsg::deserialize) {
            Ok(DMsg::AskLast(y, port)) => {
                let _ = port.send(format!("r{y}"));
                let _ = rx;
                if y != x {
                    v.push(("round-trip".to_string(), format!("AskLast({x}) decoded as AskLast({y})")));
                }
            }
            _ => v.push(("round-trip".to_string(), "AskLast failed to round-trip".to_string())),
        }
        // job options + key metadata
        n += 1;
        let ttl = if p.chance(1, 2) { Some(Duration::from_nanos(p.range(1, 1 << 40))) } else { None };
        let key = p.next();
        let job = ractor::factory::Job::with_options(key, DMsg::Tup(7, "j".into()), ractor::factory::JobOptions::new(ttl));
        let submit = job.options.submit_time();
        match job.serialize().and_then(ractor::factory::Job::<u64, DMsg>::deserialize) {
            Ok(back) => {
                let same_submit = back
                    .options
                    .submit_time()
                    .duration_since(std::time::UNIX_EPOCH)
                    .map(|d| d.as_nanos() as u64)
                    .ok()
                    == submit.duration_since(std::time::UNIX_EPOCH).map(|d| d.as_nanos() as u64).ok();
                if back.key != key || back.options.ttl() != ttl || !same_submit || dmsg_desc(&back.msg) != "Tup(7,\"j\")" {
                    v.push(("round-trip".to_string(), format!("job (key {key}, ttl {ttl:?}) decoded as key {} ttl {:?} same_submit={same_submit}", back.key, back.options.ttl())));
                }
            }
            Err(_) => v.push(("round-trip".to_string(), "job failed to round-trip".to_string())),
        }
    }
    // job envelopes with keys of every small encoded length (0 bytes included: (), empty string, empty vector)
    {
        let env = |v: &mut Vec<(String, String)>, what: &str, r: Result<bool, ractor::message::BoxedDowncastErr>| match r {
            Ok(true) => {}
            Ok(false) => v.push(("round-trip".to_string(), format!("job with {what} key decoded to a different job"))),
            Err(_) => v.push(("round-trip".to_string(), format!("job with {what} key failed to round-trip"))),
        };
        n += 1;
        let j = ractor::factory::Job::with_options((), DMsg::Unit, Default::default());
        env(&mut v, "a unit", j.serialize().and_then(ractor::factory::Job::<(), DMsg>::deserialize).map(|b| dmsg_desc(&b.msg) == "Unit"));
        for len in 0..4usize {
            n += 2;
            let key: String = "kéy".chars().cycle().take(len).collect();
            let j = ractor::factory::Job::with_options(key.clone(), DMsg::Tup(1, "s".into()), Default::default());
            env(&mut v, &format!("a {len}-char string"), j.serialize().and_then(ractor::factory::Job::<String, DMsg>::deserialize).map(|b| b.key == key));
            let key: Vec<u8> = (0..len as u8).collect();
            let j = ractor::factory::Job::with_options(key.clone(), DMsg::Unit, Default::default());
            env(&mut v, &format!("a {len}-byte vector"), j.serialize().and_then(ractor::factory::Job::<Vec<u8>, DMsg>::deserialize).map(|b| b.key == key));
        }
    }
    for (loc, msg) in crate::take_foreign_panics() {
        v.push(("panic".into(), format!("{loc}: {msg}")));
    }
    Out { violations: v, nontrivial: true, sig: hash_words(&[seed, shard, n]), desc: format!("{n} values round-tripped (exhaustive 8/16-bit and char: {exhaustive_small})"), inputs: n }
}

// ------------------------------------------------------------------ hostile bytes into a live node

async fn node_body(seed: u64) -> Out {
    use super::c17::{Duplex, Events, Sub, COOKIE};
    use ractor_cluster::NodeServerMessage;
    use tokio::io::AsyncWriteExt;
    let mut p = Prng::new(seed);
    let mut v = vec![];
    let server = ractor_cluster::NodeServer::new(0, COOKIE.to_string(), format!("n{seed:x}"), "h".to_string(), None, Some(ractor_cluster::node::NodeConnectionMode::Isolated)).with_max_inbound_frame_size(4096);
    let (nodeactor, node_h) = Actor::spawn(None, server, ()).await.expect("node");
    let events = Arc::new(Events::default());
    let _ = nodeactor.cast(NodeServerMessage::SubscribeToEvents { id: "c19".into(), subscription: Box::new(Sub(events.clone())) });
    // victim session + bystander session
    let (bad_mine, bad_theirs) = tokio::io::duplex(1 << 16);
    let (ok_mine, ok_theirs) = tokio::io::duplex(1 << 16);
    let _ = nodeactor.cast(NodeServerMessage::ConnectionOpenedExternal { stream: Box::new(Duplex(bad_theirs, "bad".into())), is_server: true });
    let _ = nodeactor.cast(NodeServerMessage::ConnectionOpenedExternal { stream: Box::new(Duplex(ok_theirs, "ok".into())), is_server: true });
    vt::settle().await;
    let sessions = events.opened.lock().unwrap().clone();
    let (_br, mut bw) = tokio::io::split(bad_mine);
    let (okr, mut okw) = tokio::io::split(ok_mine);
    let kind = p.below(6);
    let payload: Vec<u8> = match kind {
        5 => {
            // a declared length above this server's configured cap (4096) but below the library default (16 MiB)
            let mut d = (4097 + p.below(1 << 20)).to_be_bytes().to_vec();
            d.extend(random_bytes(&mut p, 64));
            d
        }
        0 => random_bytes(&mut p, 200),
        1 => {
            let mut d = (1u64 << 40).to_be_bytes().to_vec();
            d.extend(random_bytes(&mut p, 50));
            d
        }
        2 => {
            let mut d = 20u64.to_be_bytes().to_vec();
            d.extend(vec![0xFF; 20]); // undecodable protobuf
            d
        }
        3 => {
            // valid frame then truncated frame then EOF
            let mut d = enc(&random_message(&mut p));
            d.extend(8u64.to_be_bytes());
            d.extend([1, 2, 3]);
            d
        }
        _ => {
            let mut d = enc(&random_message(&mut p));
            let i = p.below(d.len() as u64) as usize;
            d[i] ^= 0x80;
            d.extend(random_bytes(&mut p, 30));
            d
        }
    };
    let _ = bw.write_all(&payload).await;
    let eof = kind == 3 || p.chance(1, 2);
    if eof {
        let _ = bw.shutdown().await; // EOF on the node's read side
    } else {
        let _ = bw.flush().await;
    }
    vt::quiesce(30).await;
    // the bystander session still performs a handshake step: send Name, expect ServerStatus + ServerChallenge back
    let name = auth::NameMessage { name: "peer@x".into(), flags: Some(auth::NodeFlags { version: 1 }), connection_string: "x:1".into(), connection_id: 9 };
    let _ = okw.write_all(&enc(&NetworkMessage { message: Some(meta::network_message::Message::Auth(auth::AuthenticationMessage { msg: Some(auth::authentication_message::Msg::Name(name)) })) })).await;
    let mut fr = FrameReader::new(Box::new(okr));
    let got = tokio::time::timeout(Duration::from_secs(5), fr.read(1 << 20)).await;
    if !matches!(got, Ok(Ok(_))) {
        v.push(("bystander-session-dead".to_string(), format!("after hostile bytes (kind {kind}) on another connection, a second session no longer answers its handshake")));
    }
    if nodeactor.get_status() != ActorStatus::Running {
        v.push(("node-server-dead".to_string(), format!("the node server is {:?} after hostile bytes (kind {kind})", nodeactor.get_status())));
    }
    // the victim session: garbage that fails framing / decoding (kinds 1,2,3) or hits EOF must stop it
    if let Some(bad) = sessions.first() {
        let must_stop = matches!(kind, 1 | 2 | 3 | 5);
        if must_stop && bad.get_status() != ActorStatus::Stopped {
            v.push(("bad-session-alive".to_string(), format!("the session that received an oversized/undecodable/truncated frame (kind {kind}) is still {:?}", bad.get_status())));
        }
    }
    drop(okw);
    nodeactor.stop(None);
    let _ = node_h.await;
    vt::quiesce(1).await;
    Out { violations: v, nontrivial: true, sig: hash_words(&[kind, crate::prng::hash_str(&format!("{:?}", &payload[..payload.len().min(16)]))]), desc: format!("hostile bytes kind {kind}, {} bytes", payload.len()), inputs: 1 }
}

pub fn run(args: &Args, rep: &mut Report) {
    let seeds: Vec<u64> = match args.replay {
        Some(s) => vec![s],
        None => args.indices().map(|i| args.scenario_seed(i)).collect(),
    };
    if args.engine == "rt" {
        // one pass per shard
        crate::watch_begin(args.shard);
        let rt = tokio::runtime::Builder::new_current_thread().build().unwrap();
        let o = rt.block_on(async { run_rt(args.seed ^ args.shard, args.shard, args.nshards, args.indices().count() as u64) });
        crate::watch_end();
        rep.scenario(true, o.sig);
        rep.scenario(true, o.sig ^ 1);
        rep.count("values_round_tripped", o.inputs);
        rep.sample(J::obj().set("desc", o.desc.clone()));
        for (clause, detail) in o.violations {
            rep.violation(Violation { signature: clause.clone(), clause, detail, scenario_seed: args.shard, scenario: o.desc.clone(), trace: vec![] });
        }
        return;
    }
    if args.engine.starts_with("msgs") {
        crate::QUIET_PANICS.store(true, Ordering::Relaxed);
    }
    let tl_env = if args.engine == "msgs-tl" { Some((crate::th::runtime(2), ractor::thread_local::ThreadLocalActorSpawner::new())) } else { None };
    for seed in seeds {
        crate::watch_begin(seed);
        let o = match args.engine.as_str() {
            "frames" => run_frames(seed),
            "msgs" => run_msgs(seed, None),
            "msgs-tl" => run_msgs(seed, tl_env.as_ref().map(|(rt, sp)| (rt, sp.clone()))),
            "node" => {
                let cell: Mutex<Option<Out>> = Mutex::new(None);
                let r = vt::run(seed, 0, async {
                    let o = node_body(seed).await;
                    *cell.lock().unwrap() = Some(o);
                });
                let got = cell.lock().unwrap().take();
                let mut o = got.unwrap_or(Out { violations: vec![], nontrivial: false, sig: 0, desc: String::new(), inputs: 0 });
                if r.is_none() {
                    o.violations.push(("stuck".into(), "scenario pending at the virtual-time horizon".into()));
                }
                for l in vt::global_leaks() {
                    o.violations.push(("leak".into(), l));
                }
                for (loc, msg) in crate::take_foreign_panics() {
                    o.violations.push(("panic".into(), format!("{loc}: {msg}")));
                }
                o
            }
            e => panic!("engine {e} not supported by C19"),
        };
        crate::watch_end();
        rep.scenario(o.nontrivial, o.sig);
        rep.count("inputs_tried", o.inputs);
        if rep.samples.len() < 2 {
            rep.sample(J::obj().set("scenario_seed", format!("{seed}")).set("desc", o.desc.clone()));
        }
        for (clause, detail) in o.violations {
            let sig = if clause == "actor-died" && detail.contains("thread-local") { "actor-died thread-local".to_string() } else { clause.clone() };
            rep.violation(Violation { signature: sig, clause, detail, scenario_seed: seed, scenario: o.desc.clone(), trace: vec![] });
        }
    }
}
