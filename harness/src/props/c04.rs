//! C04 — failures are contained and reported to the supervisor exactly once. (fault enumeration)
//!
//! Every exit kind x callback x failure flavour x timing is injected into a supervised child, including
//! abort-at-poll-k of the actor task for every k (interposer); a living supervisor, a monitor and an
//! unrelated bystander log every supervision event they receive.
use std::sync::atomic::Ordering;
use std::sync::Arc;

use crate::json::J;
use crate::prng::hash_words;
use crate::probe::*;
use crate::report::{Report, Violation};
use crate::trace::{Cb, Ev, How, Rec, SupKind, Trace};
use crate::{vt, Args};

#[derive(Clone, Copy, Debug, PartialEq, Eq)]
pub enum FailKind {
    PanicString,
    PanicStr,
    Err,
}
const FAILS: [FailKind; 3] = [FailKind::PanicString, FailKind::PanicStr, FailKind::Err];

#[derive(Clone, Copy, Debug, PartialEq, Eq)]
pub enum Exit {
    PreStartFail(FailKind),
    FailIn(Cb, FailKind),
    Stop { reason: bool, timing: u8 },
    Drain { timing: u8 },
    Kill { timing: u8 },
    AbortAt(u64),
}

#[derive(Clone, Debug)]
pub struct Case {
    pub exit: Exit,
    pub sup_busy: bool,
    /// the supervisor is Draining (a backlog of slow messages queued, then drain()) when the child exits: still a living supervisor
    pub sup_draining: bool,
    pub defer: u64,
    pub monitor: bool,
}

pub const ABORT_K_MAX: u64 = 40;

pub fn all_cases() -> Vec<Case> {
    let mut exits = vec![];
    for f in FAILS {
        exits.push(Exit::PreStartFail(f));
        for cb in [Cb::PostStart, Cb::Handle, Cb::SupEvt, Cb::PostStop] {
            exits.push(Exit::FailIn(cb, f));
        }
    }
    // timing: 0 = idle, 1 = parked in a message handler, 2 = parked in post_start, 3 = parked in the supervision handler
    for timing in 0..4 {
        exits.push(Exit::Stop { reason: true, timing });
        exits.push(Exit::Stop { reason: false, timing });
        exits.push(Exit::Drain { timing });
        exits.push(Exit::Kill { timing });
    }
    for k in 1..=ABORT_K_MAX {
        exits.push(Exit::AbortAt(k));
    }
    let mut cases = vec![];
    for exit in exits {
        for sup_busy in [false, true] {
            for defer in [0u64, 30] {
                for monitor in [false, true] {
                    cases.push(Case { exit, sup_busy, sup_draining: false, defer, monitor });
                }
            }
        }
    }
    // a supervisor that is working through a backlog after drain() is alive: it must hear about the child all the same
    let mut dr = vec![];
    for f in FAILS {
        dr.push(Exit::FailIn(Cb::Handle, f));
        dr.push(Exit::FailIn(Cb::PostStop, f));
    }
    for timing in [0u8, 1, 3] {
        dr.push(Exit::Stop { reason: true, timing });
        dr.push(Exit::Drain { timing });
        dr.push(Exit::Kill { timing });
    }
    for k in [2u64, 5, 9] {
        dr.push(Exit::AbortAt(k));
    }
    for exit in dr {
        for defer in [0u64, 30] {
            cases.push(Case { exit, sup_busy: false, sup_draining: true, defer, monitor: false });
        }
    }
    cases
}

fn fail_step(f: FailKind) -> Step {
    match f {
        FailKind::PanicString => Step::PanicString,
        FailKind::PanicStr => Step::PanicStr,
        FailKind::Err => Step::Err,
    }
}

pub struct CaseResult {
    pub violations: Vec<(String, String)>,
    pub recs: Vec<Rec>,
    pub sig: u64,
    pub nontrivial: bool,
    pub summary: String,
}

const SUP: u64 = 1;
const CHILD: u64 = 2;
const GRAND: u64 = 3;
const MON: u64 = 4;
const BY: u64 = 5;

struct Ran {
    trace: Arc<Trace>,
    spawn_ok: bool,
    join: Option<Result<(), String>>, // Ok / Err(kind)
    child_pid: u64,
    abort_fired: bool,
    by_flush_ok: bool,
    sup_flush_ok: bool,
    sup_alive: bool,
}

/// `tl` = the child is a thread-local actor and the scenario runs on the real-clock thread engine.
pub fn run_case(idx: u64, case: &Case, tl: Option<(&tokio::runtime::Runtime, ractor::thread_local::ThreadLocalActorSpawner)>) -> CaseResult {
    let seed = hash_words(&[idx, 0xC04]);
    let is_tl = tl.is_some();
    let spawner = tl.as_ref().map(|t| t.1.clone());
    let cell: std::sync::Mutex<Option<Ran>> = std::sync::Mutex::new(None);
    let case2 = case.clone();
    let body = async {
        let case = case2;
        let settle = || async move {
            if is_tl {
                tokio::time::sleep(std::time::Duration::from_millis(8)).await
            } else {
                vt::settle().await
            }
        };
        let quiesce = || async move {
            if is_tl {
                tokio::time::sleep(std::time::Duration::from_millis(25)).await
            } else {
                vt::quiesce(1).await
            }
        };
        let trace = Arc::new(Trace::new());
        let gate = Gate::new();
        let mut sup = ProbeSpec::new(SUP, Some(format!("c04-sup-{idx}")), trace.clone());
        if case.sup_busy {
            sup.sup_evt = vec![Step::Yield, Step::Sleep(3), Step::Yield];
        }
        let sup = Arc::new(sup);
        let mon = Arc::new(ProbeSpec::new(MON, Some(format!("c04-mon-{idx}")), trace.clone()));
        let by = Arc::new(ProbeSpec::new(BY, Some(format!("c04-by-{idx}")), trace.clone()));
        let (sup_ref, sup_h) = spawn_probe(&sup, None).await.expect("sup");
        let (mon_ref, mon_h) = spawn_probe(&mon, None).await.expect("mon");
        let (by_ref, by_h) = spawn_probe(&by, None).await.expect("by");

        let mut grand = ProbeSpec::new(GRAND, Some(format!("c04-grand-{idx}")), trace.clone());
        grand.post_start = vec![Step::Yield, Step::StopSelf];
        let grand = Arc::new(grand);
        let mut child = ProbeSpec::new(CHILD, Some(format!("c04-child-{idx}")), trace.clone());
        child.child_spawner = Some(std_child_spawner());
        child.pre_start = vec![Step::Yield];
        child.post_start = vec![Step::Yield, Step::SpawnChild(grand.clone())];
        child.sup_evt = vec![Step::Yield];
        child.post_stop = vec![Step::Yield];
        let mut first_msg_script = vec![Step::Yield, Step::Yield];
        let timing = match case.exit {
            Exit::Stop { timing, .. } | Exit::Drain { timing } | Exit::Kill { timing } => timing,
            _ => 0,
        };
        match case.exit {
            Exit::PreStartFail(f) => child.pre_start.push(fail_step(f)),
            Exit::FailIn(Cb::PostStart, f) => child.post_start.push(fail_step(f)),
            Exit::FailIn(Cb::Handle, f) => first_msg_script.push(fail_step(f)),
            Exit::FailIn(Cb::SupEvt, f) => child.sup_evt.push(fail_step(f)),
            Exit::FailIn(Cb::PostStop, f) => child.post_stop.push(fail_step(f)),
            _ => {}
        }
        let park_first = timing == 1 || (case.sup_draining && matches!(case.exit, Exit::FailIn(Cb::Handle, _)));
        if park_first {
            first_msg_script.insert(0, Step::Park(gate.clone()));
        }
        if timing == 2 {
            child.post_start.insert(0, Step::Park(gate.clone()));
        }
        if timing == 3 {
            // the grandchild stops itself right after starting: its exit event parks the child in handle_supervisor_evt
            child.sup_evt.insert(0, Step::Park(gate.clone()));
        }
        // thread engine: the child runs concurrently on its own thread; hold it at the top of post_start until the
        // monitor has been registered (otherwise "monitor missed the exit" would be a harness race)
        let mon_gate = Gate::new();
        if is_tl {
            child.post_start.insert(0, Step::Park(mon_gate.clone()));
        }
        let child = Arc::new(child);
        let name = child.name.clone().unwrap();
        // timing 2 parks inside post_start: the spawn call itself returns after pre_start
        let spawned = match &spawner {
            Some(sp) => spawn_tl_probe(&child, Some(sup_ref.get_cell()), sp.clone()).await,
            None => spawn_probe(&child, Some(sup_ref.get_cell())).await,
        };
        let mut ran = Ran {
            trace: trace.clone(),
            spawn_ok: spawned.is_ok(),
            join: None,
            child_pid: child.pid.load(Ordering::SeqCst),
            abort_fired: false,
            by_flush_ok: false,
            sup_flush_ok: false,
            sup_alive: true,
        };
        if let Ok((child_ref, child_h)) = spawned {
            let c = crate::ctl::ctl();
            if let Exit::AbortAt(k) = case.exit {
                c.register_abort(&name, child_h.abort_handle());
                c.set_abort_at(&name, k);
            }
            #[cfg(feature = "cluster")]
            if case.monitor {
                mon_ref.get_cell().monitor(child_ref.get_cell());
            }
            mon_gate.release();
            let _ = child_ref.send_message(PMsg::Work(Work::new(&trace, 1, 1, first_msg_script)));
            let _ = child_ref.send_message(PMsg::Work(Work::new(&trace, 1, 2, vec![Step::Yield])));
            match timing {
                0 if !park_first => settle().await,
                _ => gate.wait_reached().await,
            }
            if case.sup_draining {
                for k in 0..8u64 {
                    let _ = sup_ref.send_message(PMsg::Work(Work::new(&trace, 9, 1 + k, vec![Step::Sleep(5)])));
                }
                let _ = sup_ref.drain();
                settle().await;
            }
            trace.log(Ev::Call { client: 1, op: "exit", arg: CHILD });
            match case.exit {
                Exit::Stop { reason, .. } => child_ref.stop(if reason { Some("requested".into()) } else { None }),
                Exit::Drain { .. } => {
                    let _ = child_ref.drain();
                }
                Exit::Kill { .. } => child_ref.kill(),
                Exit::FailIn(Cb::PostStop, _) => child_ref.stop(Some("requested".into())),
                Exit::AbortAt(_) => {
                    // let the workload finish by itself with a graceful stop if the abort never fires
                    settle().await;
                    child_ref.stop(Some("requested".into()));
                }
                _ => {}
            }
            trace.log(Ev::Ret { client: 1, op: "exit", arg: CHILD, res: 0 });
            gate.release();
            let jr = child_h.await;
            ran.join = Some(match jr {
                Ok(()) => Ok(()),
                Err(e) if e.is_cancelled() => Err("cancelled".into()),
                Err(e) if e.is_panic() => Err("panic".into()),
                Err(_) => Err("other".into()),
            });
            ran.abort_fired = c.abort_fired();
        }
        if case.sup_draining {
            // the draining supervisor stops by itself once its backlog is done (no deadline: the scenario's own bound applies)
            let _ = sup_ref.wait(None).await;
        }
        quiesce().await;
        // bystander and supervisor must still answer
        ran.by_flush_ok = matches!(by_ref.call(PMsg::Flush, None).await, Ok(ractor::rpc::CallResult::Success(_)));
        ran.sup_flush_ok = matches!(sup_ref.call(PMsg::Flush, None).await, Ok(ractor::rpc::CallResult::Success(_)));
        ran.sup_alive = sup_ref.get_status() == ractor::ActorStatus::Running;
        for (r, h) in [(sup_ref, sup_h), (mon_ref, mon_h), (by_ref, by_h)] {
            r.stop(None);
            let _ = h.await;
        }
        quiesce().await;
        *cell.lock().unwrap() = Some(ran);
    };
    let res = match &tl {
        Some((rt, _)) => {
            crate::th::begin(seed, 30);
            let r = rt.block_on(async { tokio::time::timeout(std::time::Duration::from_secs(60), body).await.ok() });
            crate::th::end();
            r
        }
        None => vt::run(seed, case.defer, body),
    };
    let mut v: Vec<(String, String)> = vec![];
    if res.is_none() && is_tl {
        // wall-clock timeout on the thread engine: inconclusive, not a violation
        return CaseResult { violations: vec![], recs: vec![], sig: 0, nontrivial: false, summary: "INCONCLUSIVE".into() };
    }
    if res.is_none() {
        v.push(("stuck".into(), "scenario pending at the virtual-time horizon".into()));
    }
    let got = cell.lock().unwrap().take();
    let Some(ran) = got else {
        return CaseResult { violations: v, recs: vec![], sig: 0, nontrivial: false, summary: String::new() };
    };
    let recs = ran.trace.snapshot();
    // ---- facts from the trace
    let mut post_start_ok = false;
    let mut child_exit_hows: Vec<(Cb, How)> = vec![];
    for r in &recs {
        if let Ev::Exit { uid, cb, how } = &r.ev {
            if *uid == CHILD {
                child_exit_hows.push((*cb, *how));
                if *cb == Cb::PostStart && *how == How::Ok {
                    post_start_ok = true;
                }
            }
        }
    }
    let events_at = |uid: u64| -> Vec<(u64, SupKind, String, bool, u64)> {
        recs.iter()
            .filter_map(|r| match &r.ev {
                Ev::Sup { uid: u, kind, who, detail, has_state, state_val, .. } if *u == uid && *who == ran.child_pid => {
                    Some((r.ts, *kind, detail.clone(), *has_state, *state_val))
                }
                _ => None,
            })
            .collect()
    };
    let sup_evs = events_at(SUP);
    let mon_evs = events_at(MON);
    let by_evs = events_at(BY);
    let terminal: Vec<_> = sup_evs.iter().filter(|e| matches!(e.1, SupKind::Terminated | SupKind::Failed)).collect();
    let started: Vec<_> = sup_evs.iter().filter(|e| e.1 == SupKind::Started).collect();
    let summary = format!(
        "spawn_ok={} join={:?} abort_fired={} post_start_ok={} sup_events={:?}",
        ran.spawn_ok,
        ran.join,
        ran.abort_fired,
        post_start_ok,
        sup_evs.iter().map(|e| format!("{:?}:{}", e.1, e.2)).collect::<Vec<_>>()
    );
    let mut bad = |c: &str, d: String| v.push((c.to_string(), format!("{d} [{summary}]")));

    if case.sup_draining {
        let handled = recs.iter().filter(|r| matches!(&r.ev, Ev::Handled { uid, sender: 9, .. } if *uid == SUP)).count();
        if handled != 8 {
            bad("containment", format!("the draining supervisor handled {handled} of its 8 queued messages"));
        }
    } else if !ran.sup_alive || !ran.sup_flush_ok {
        bad("containment", "the supervisor (Ignore policy) did not survive / answer after the child's exit".into());
    }
    if !ran.by_flush_ok {
        bad("containment", "the unrelated bystander actor no longer answers".into());
    }
    if !by_evs.is_empty() {
        bad("misdelivery", format!("bystander received lifecycle events for an actor it neither supervises nor monitors: {by_evs:?}"));
    }
    // supervisor must only hear about its own child (never the grandchild)
    let foreign: Vec<_> = recs
        .iter()
        .filter(|r| matches!(&r.ev, Ev::Sup { uid, who, kind, .. } if *uid == SUP && *who != ran.child_pid && matches!(kind, SupKind::Started | SupKind::Terminated | SupKind::Failed)))
        .collect();
    if !foreign.is_empty() {
        bad("misdelivery", format!("supervisor received events about actors it does not supervise: {:?}", foreign.iter().map(|r| format!("{:?}", r.ev)).collect::<Vec<_>>()));
    }
    match case.exit {
        Exit::PreStartFail(_) => {
            if ran.spawn_ok {
                bad("pre_start", "pre_start failed but spawn returned Ok".into());
            }
            if !sup_evs.is_empty() {
                bad("pre_start", "a pre_start failure produced supervision events".into());
            }
        }
        _ => {
            if !ran.spawn_ok {
                bad("spawn", "spawn failed unexpectedly".into());
            } else {
                // join handle
                let aborted = matches!(case.exit, Exit::AbortAt(_)) && ran.abort_fired;
                match &ran.join {
                    Some(Ok(())) if !aborted => {}
                    Some(Err(k)) if aborted && k == "cancelled" => {}
                    other => bad("join", format!("join handle result {other:?} (aborted={aborted})")),
                }
                if terminal.len() != 1 {
                    bad("terminal-count", format!("supervisor got {} terminal events for the child, expected exactly 1", terminal.len()));
                }
                let want_started = if post_start_ok { 1 } else { 0 };
                if started.len() != want_started {
                    bad("started", format!("ActorStarted delivered {} times, post_start_ok={post_start_ok}", started.len()));
                }
                if let (Some(s), Some(t)) = (started.first(), terminal.first()) {
                    if s.0 > t.0 {
                        bad("started", "ActorStarted delivered after the terminal event".into());
                    }
                }
                if let Some(t) = terminal.first() {
                    let (_, kind, detail, has_state, state_val) = (*t).clone();
                    let expect: (SupKind, Option<&str>, Option<bool>) = match case.exit {
                        Exit::FailIn(..) => (SupKind::Failed, Some(PANIC_MARK), None),
                        Exit::Stop { reason: true, .. } => (SupKind::Terminated, Some("requested"), Some(true)),
                        Exit::Stop { reason: false, .. } => (SupKind::Terminated, Some("<none>"), Some(true)),
                        Exit::Drain { .. } => (SupKind::Terminated, Some("Drained"), Some(true)),
                        Exit::Kill { .. } => (SupKind::Terminated, Some("killed"), Some(false)),
                        Exit::AbortAt(_) if aborted => (SupKind::Terminated, Some("actor_task_cancelled"), Some(false)),
                        Exit::AbortAt(_) => (SupKind::Terminated, Some("requested"), Some(true)),
                        Exit::PreStartFail(_) => unreachable!(),
                    };
                    if kind != expect.0 {
                        bad("classification", format!("terminal event kind {kind:?}, expected {:?}", expect.0));
                    }
                    if let Some(sub) = expect.1 {
                        let ok = if expect.0 == SupKind::Failed { detail.contains(sub) } else { detail == sub };
                        if !ok {
                            bad("classification", format!("terminal event text '{detail}', expected '{sub}'"));
                        }
                    }
                    if let Some(hs) = expect.2 {
                        // thread-local actors never hand their (non-Send) state to the supervisor
                        let hs = hs && !is_tl;
                        if has_state != hs {
                            bad("state", format!("terminal event has_state={has_state}, expected {hs}"));
                        }
                        if hs {
                            let handled = recs.iter().filter(|r| matches!(&r.ev, Ev::Handled { uid, .. } if *uid == CHILD)).count() as u64;
                            if state_val != handled {
                                bad("state", format!("final state carried handled={state_val} but {handled} messages were handled"));
                            }
                        }
                    }
                }
                if case.monitor && cfg!(feature = "cluster") {
                    let mt: Vec<_> = mon_evs.iter().filter(|e| matches!(e.1, SupKind::Terminated | SupKind::Failed)).collect();
                    if mt.len() != 1 {
                        bad("monitor", format!("monitor got {} terminal events, expected exactly 1", mt.len()));
                    } else if mt[0].3 {
                        bad("monitor", "monitor copy carries the actor state".into());
                    } else if let Some(t) = terminal.first() {
                        if t.1 != mt[0].1 {
                            bad("monitor", format!("monitor saw {:?} but supervisor saw {:?}", mt[0].1, t.1));
                        }
                    }
                } else if !mon_evs.is_empty() {
                    bad("misdelivery", "non-monitoring actor received lifecycle events".into());
                }
            }
        }
    }
    for (c, d) in ran.trace.online_violations.lock().unwrap().iter() {
        v.push((c.clone(), d.clone()));
    }
    if is_tl {
        let _ = crate::th::settle_leaks();
    }
    for l in vt::global_leaks() {
        v.push(("leak".into(), l));
    }
    for (loc, msg) in crate::take_foreign_panics() {
        v.push(("foreign-panic".into(), format!("{loc}: {msg}")));
    }
    // distinct = (exit kind, callbacks exit-kinds reached, abort fired, sup busy)
    let mut words = vec![case.sup_busy as u64 + 2 * case.sup_draining as u64, case.monitor as u64, ran.abort_fired as u64, case.defer];
    words.push(crate::prng::hash_str(&format!("{:?}", case.exit)));
    words.extend(child_exit_hows.iter().map(|(c, h)| (*c as u64) * 10 + *h as u64));
    let nontrivial = !matches!(case.exit, Exit::AbortAt(_)) || ran.abort_fired;
    CaseResult { violations: v, recs, sig: hash_words(&words), nontrivial, summary }
}

pub fn run(args: &Args, rep: &mut Report) {
    let tl_env = if args.engine == "th" {
        Some((crate::th::runtime(3), ractor::thread_local::ThreadLocalActorSpawner::new()))
    } else {
        None
    };
    let cases: Vec<Case> = all_cases()
        .into_iter()
        .filter(|c| tl_env.is_none() || (!matches!(c.exit, Exit::AbortAt(_)) && c.defer == 0))
        .collect();
    let n = cases.len() as u64;
    let idxs: Vec<u64> = match args.replay {
        Some(s) => vec![s],
        None => (0..n).filter(|i| i % args.nshards == args.shard).collect(),
    };
    for idx in idxs {
        let case = &cases[idx as usize];
        crate::watch_begin(idx);
        let r = run_case(idx, case, tl_env.as_ref().map(|(rt, sp)| (rt, sp.clone())));
        if r.summary == "INCONCLUSIVE" {
            rep.inconclusive.push(format!("case {idx} {case:?}: wall-clock timeout on the thread engine"));
            continue;
        }
        crate::watch_end();
        rep.scenario(r.nontrivial, r.sig);
        rep.count("events_observed", r.recs.len() as u64);
        let kind = match case.exit {
            Exit::PreStartFail(_) => "exit_pre_start_fail",
            Exit::FailIn(..) => "exit_callback_failure",
            Exit::Stop { .. } => "exit_stop",
            Exit::Drain { .. } => "exit_drain",
            Exit::Kill { .. } => "exit_kill",
            Exit::AbortAt(_) => "exit_abort_at_poll_k",
        };
        rep.count(kind, 1);
        if matches!(case.exit, Exit::AbortAt(_)) && r.nontrivial {
            rep.count("aborts_fired", 1);
            if let Exit::AbortAt(k) = case.exit {
                rep.max("max_abort_poll_reached", k);
            }
        }
        if idx % 311 == 7 {
            rep.sample(J::obj().set("case_index", idx).set("case", format!("{case:?}")).set("observed", r.summary.clone()).set("trace_excerpt", Trace::render(&r.recs, 16)));
        }
        for (clause, detail) in r.violations {
            rep.violation(Violation {
                signature: format!("{clause} exit={:?}", case.exit),
                clause,
                detail,
                scenario_seed: idx,
                scenario: format!("{case:?}"),
                trace: Trace::render(&r.recs, 70),
            });
        }
    }
    rep.count("family_size", if args.shard == 0 { n } else { 0 });
    rep.exhaustive = Some(args.replay.is_none());
}
