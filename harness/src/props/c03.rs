//! C03 — kill > stop > supervision > messages; stop is graceful, kill immediate.
//!
//! E-A "arrival sweep": the subject is parked at each of six execution points; every combination of
//! {kill?, stop?, 0-2 supervision events, 0-2 messages} is enqueued in every (distinct) order while it
//! is parked; it is released and the subsequent callback sequence is compared with the priority order.
//! The whole finite family is executed on every run (under several interposer settings).
use std::sync::atomic::Ordering;
use std::sync::Arc;



use crate::json::J;
use crate::prng::hash_words;
use crate::probe::*;
use crate::report::{Report, Violation};
use crate::trace::{Cb, Ev, How, Rec, Trace};
use crate::{vt, Args};

#[derive(Clone, Copy, Debug, PartialEq, Eq)]
pub enum Park {
    Idle,
    PreStart,
    PostStart,
    Handle,
    SupEvt,
    PostStop,
}
const PARKS: [Park; 6] = [Park::Idle, Park::PreStart, Park::PostStart, Park::Handle, Park::SupEvt, Park::PostStop];

#[derive(Clone, Copy, Debug, PartialEq, Eq, PartialOrd, Ord)]
pub enum Item {
    Kill,
    Stop,
    Sup,
    Msg,
}

#[derive(Clone, Debug)]
pub struct Case {
    pub park: Park,
    pub items: Vec<Item>,
    pub defer: u64,
}

fn distinct_perms(items: &mut Vec<Item>, k: usize, out: &mut Vec<Vec<Item>>) {
    if k == items.len() {
        out.push(items.clone());
        return;
    }
    let mut seen = vec![];
    for i in k..items.len() {
        if seen.contains(&items[i]) {
            continue;
        }
        seen.push(items[i]);
        items.swap(k, i);
        distinct_perms(items, k + 1, out);
        items.swap(k, i);
    }
}

pub fn all_cases() -> Vec<Case> {
    let mut cases = vec![];
    for park in PARKS {
        for kill in [false, true] {
            for stop in [false, true] {
                for nsup in 0..=2 {
                    for nmsg in 0..=2 {
                        let mut items = vec![];
                        if kill {
                            items.push(Item::Kill);
                        }
                        if stop {
                            items.push(Item::Stop);
                        }
                        items.extend(std::iter::repeat(Item::Sup).take(nsup));
                        items.extend(std::iter::repeat(Item::Msg).take(nmsg));
                        let mut perms = vec![];
                        distinct_perms(&mut items, 0, &mut perms);
                        for perm in perms {
                            for defer in [0u64, 30] {
                                cases.push(Case { park, items: perm.clone(), defer });
                            }
                        }
                    }
                }
            }
        }
    }
    cases
}

pub struct CaseResult {
    pub violations: Vec<(String, String)>,
    pub recs: Vec<Rec>,
    pub sig: u64,
    pub enters_after: Vec<Cb>,
}

const SUBJ: u64 = 2;

pub fn run_case(idx: u64, case: &Case) -> CaseResult {
    let seed = hash_words(&[idx, 0xC03]);
    let cell: std::sync::Mutex<Option<(Arc<Trace>, u64, bool, Arc<ProbeSpec>)>> = std::sync::Mutex::new(None);
    let case2 = case.clone();
    let res = vt::run(seed, case.defer, async {
        let case = case2;
        let trace = Arc::new(Trace::new());
        let gate = Gate::new();
        let group = format!("c03-g-{idx}");
        let parked = vec![Step::Park(gate.clone()), Step::Yield, Step::Yield];
        // the group member used to generate supervision (pg) events for the subject
        let member_spec = Arc::new(ProbeSpec::new(3, Some(format!("c03-member-{idx}")), trace.clone()));
        let (member, member_h) = spawn_probe(&member_spec, None).await.expect("member spawn");

        let mut subj = ProbeSpec::new(SUBJ, Some(format!("c03-subj-{idx}")), trace.clone());
        subj.pre_start.push(Step::PgMonitor(group.clone()));
        match case.park {
            Park::PreStart => subj.pre_start.extend(parked.clone()),
            Park::PostStart => subj.post_start.extend(parked.clone()),
            Park::SupEvt => subj.sup_evt.extend(parked.clone()),
            Park::PostStop => subj.post_stop.extend(parked.clone()),
            _ => {}
        }
        let subj = Arc::new(subj);
        // spawn (instant for the pre_start case so that a reference exists while it is parked)
        let (actor, outer) = ractor::ActorRuntime::<Probe>::spawn_instant(subj.name.clone(), Probe { spec: subj.clone() }, ()).expect("spawn_instant");
        match case.park {
            Park::Idle => vt::settle().await,
            Park::PreStart | Park::PostStart => gate.wait_reached().await,
            Park::Handle => {
                vt::settle().await;
                let _ = actor.send_message(PMsg::Work(Work::new(&trace, 77, 0, parked.clone())));
                gate.wait_reached().await;
            }
            Park::SupEvt => {
                vt::settle().await;
                ractor::pg::join(group.clone(), vec![member.get_cell()]);
                gate.wait_reached().await;
            }
            Park::PostStop => {
                vt::settle().await;
                actor.stop(Some("first".into()));
                gate.wait_reached().await;
            }
        }
        // enqueue the items synchronously: all are pending when the actor is next polled
        let mut joined = matches!(case.park, Park::SupEvt);
        let mut mseq = 0;
        for it in &case.items {
            match it {
                Item::Kill => {
                    trace.log(Ev::Call { client: 1, op: "kill", arg: SUBJ });
                    actor.kill();
                    trace.log(Ev::Ret { client: 1, op: "kill", arg: SUBJ, res: 0 });
                }
                Item::Stop => {
                    trace.log(Ev::Call { client: 1, op: "stop", arg: SUBJ });
                    actor.stop(Some("requested".into()));
                    trace.log(Ev::Ret { client: 1, op: "stop", arg: SUBJ, res: 0 });
                }
                Item::Sup => {
                    if joined {
                        ractor::pg::leave(group.clone(), vec![member.get_cell()]);
                    } else {
                        ractor::pg::join(group.clone(), vec![member.get_cell()]);
                    }
                    joined = !joined;
                }
                Item::Msg => {
                    mseq += 1;
                    let _ = actor.send_message(PMsg::Work(Work::new(&trace, 1, mseq, vec![Step::Yield])));
                }
            }
        }
        let t_enq = crate::trace::stamp();
        trace.note("released");
        gate.release();
        vt::quiesce(1).await;
        let alive_before_final = actor.get_status() < ractor::ActorStatus::Stopping;
        trace.log(Ev::Call { client: 2, op: "finalstop", arg: SUBJ });
        actor.stop(Some("final".into()));
        trace.log(Ev::Ret { client: 2, op: "finalstop", arg: SUBJ, res: 0 });
        if let Ok(Ok(inner)) = outer.await {
            let _ = inner.await;
        }
        member.stop(None);
        let _ = member_h.await;
        vt::quiesce(1).await;
        *cell.lock().unwrap() = Some((trace, t_enq, alive_before_final, subj));
    });
    let mut v = vec![];
    if res.is_none() {
        v.push(("stuck".to_string(), "scenario pending at the virtual-time horizon".to_string()));
    }
    let got = cell.lock().unwrap().take();
    let Some((trace, t_enq, alive_before_final, subj)) = got else {
        return CaseResult { violations: v, recs: vec![], sig: 0, enters_after: vec![] };
    };
    let recs = trace.snapshot();
    let kill = case.items.contains(&Item::Kill);
    let stop = case.items.contains(&Item::Stop) || case.park == Park::PostStop;
    let nsup = case.items.iter().filter(|i| **i == Item::Sup).count();
    let nmsg = case.items.iter().filter(|i| **i == Item::Msg).count();
    // what the subject did after the items were enqueued
    let mut enters_after = vec![];
    let mut ticks_after = 0;
    let mut exits_after: Vec<(Cb, How)> = vec![];
    let mut handled_total = 0u64;
    for r in &recs {
        match &r.ev {
            Ev::Enter { uid, cb, .. } if *uid == SUBJ && r.ts > t_enq => enters_after.push(*cb),
            Ev::Tick { uid, .. } if *uid == SUBJ && r.ts > t_enq => ticks_after += 1,
            Ev::Exit { uid, cb, how } if *uid == SUBJ && r.ts > t_enq => exits_after.push((*cb, *how)),
            Ev::Handled { uid, .. } if *uid == SUBJ => handled_total += 1,
            _ => {}
        }
    }
    let parked_cb = match case.park {
        Park::Idle => None,
        Park::PreStart => Some(Cb::PreStart),
        Park::PostStart => Some(Cb::PostStart),
        Park::Handle => Some(Cb::Handle),
        Park::SupEvt => Some(Cb::SupEvt),
        Park::PostStop => Some(Cb::PostStop),
    };
    if kill {
        if !enters_after.is_empty() {
            v.push(("after-kill".into(), format!("callbacks {enters_after:?} started after kill() had returned")));
        }
        if ticks_after != 0 {
            v.push(("after-kill-progress".into(), format!("the parked callback made {ticks_after} progress ticks after kill() had returned")));
        }
        if let Some(cb) = parked_cb {
            if !exits_after.contains(&(cb, How::Cancelled)) {
                v.push(("after-kill".into(), format!("parked {cb:?} was not cancelled by the kill: exits {exits_after:?}")));
            }
        }
    } else {
        // the parked callback runs to completion: 3 ticks (park + 2 yields) and Exit Ok
        if let Some(cb) = parked_cb {
            if !exits_after.contains(&(cb, How::Ok)) {
                v.push(("graceful".into(), format!("parked {cb:?} did not finish normally: exits {exits_after:?}")));
            }
        }
        let mut expected: Vec<Cb> = vec![];
        if case.park == Park::PreStart {
            expected.push(Cb::PostStart);
        }
        if stop {
            if case.park != Park::PostStop {
                expected.push(Cb::PostStop);
            }
        } else {
            expected.extend(std::iter::repeat(Cb::SupEvt).take(nsup));
            expected.extend(std::iter::repeat(Cb::Handle).take(nmsg));
            expected.push(Cb::PostStop);
            if !alive_before_final {
                v.push(("premature-exit".into(), "subject exited although neither stop nor kill was requested".into()));
            }
        }
        if enters_after != expected {
            let clause = if stop { "after-stop" } else { "priority" };
            v.push((clause.into(), format!("callbacks after the items were enqueued: {enters_after:?}, expected {expected:?}")));
        }
        let want_ticks = if parked_cb.is_some() { 3 } else { 0 } + if stop { 0 } else { nmsg + if case.park == Park::SupEvt { 3 * nsup } else { 0 } };
        if ticks_after != want_ticks {
            v.push(("progress".into(), format!("{ticks_after} progress ticks after enqueue, expected {want_ticks}")));
        }
        let saw = subj.post_stop_saw.load(Ordering::SeqCst);
        if saw != handled_total {
            v.push(("post_stop-state".into(), format!("post_stop saw handled={saw} but {handled_total} messages were handled")));
        }
    }
    for (c, d) in trace.online_violations.lock().unwrap().iter() {
        v.push((c.clone(), d.clone()));
    }
    for l in vt::global_leaks() {
        v.push(("leak".into(), l));
    }
    for (loc, msg) in crate::take_foreign_panics() {
        v.push(("foreign-panic".into(), format!("{loc}: {msg}")));
    }
    let mut words = vec![case.park as u64, case.defer];
    words.extend(case.items.iter().map(|i| *i as u64 + 10));
    words.extend(enters_after.iter().map(|c| *c as u64 + 100));
    CaseResult { violations: v, recs, sig: hash_words(&words), enters_after }
}

pub fn run(args: &Args, rep: &mut Report) {
    match args.engine.as_str() {
        "vt" => {
            let cases = all_cases();
            let n = cases.len() as u64;
            let idxs: Vec<u64> = match args.replay {
                Some(s) => vec![s],
                None => (0..n).filter(|i| i % args.nshards == args.shard).collect(),
            };
            for idx in idxs {
                let case = &cases[idx as usize];
                crate::watch_begin(idx);
                let r = run_case(idx, case);
                crate::watch_end();
                rep.scenario(true, r.sig);
                rep.count("events_observed", r.recs.len() as u64);
                rep.count(&format!("parked_{:?}", case.park), 1);
                if idx % 997 == 5 || (rep.samples.is_empty() && case.items.len() == 4) {
                    rep.sample(
                        J::obj()
                            .set("case_index", idx)
                            .set("case", format!("{case:?}"))
                            .set("callbacks_after_enqueue", format!("{:?}", r.enters_after))
                            .set("trace_excerpt", Trace::render(&r.recs, 24)),
                    );
                }
                for (clause, detail) in r.violations {
                    rep.violation(Violation {
                        signature: format!("{clause} park={:?}", case.park),
                        clause,
                        detail,
                        scenario_seed: idx,
                        scenario: format!("{case:?}"),
                        trace: Trace::render(&r.recs, 60),
                    });
                }
            }
            rep.count("family_size", if args.shard == 0 { n } else { 0 });
            rep.exhaustive = Some(args.replay.is_none());
        }
        "th" => {
            // real parallel requesters: C01's scenarios on the thread engine; the after-kill / after-stop clauses
            // allow exactly one pick in flight
            let rt = crate::th::runtime(3);
            let tl = ractor::thread_local::ThreadLocalActorSpawner::new();
            let seeds: Vec<u64> = match args.replay {
                Some(s) => vec![s],
                None => args.indices().map(|i| args.scenario_seed(i)).collect(),
            };
            for seed in seeds {
                crate::watch_begin(seed);
                let o = super::c01::run_one_th(seed, &rt, &tl);
                crate::watch_end();
                let has_req = o.recs.iter().any(|r| matches!(&r.ev, Ev::Ret { op, .. } if *op == "kill" || *op == "stop"));
                rep.scenario(o.nontrivial && has_req, o.sig);
                rep.count("events_observed", o.recs.len() as u64);
                if has_req && rep.samples.len() < 2 {
                    rep.sample(J::obj().set("scenario_seed", format!("{seed}")).set("desc", o.desc.clone()).set("trace_excerpt", Trace::render(&o.recs, 20)));
                }
                for (clause, detail, sig) in o.violations {
                    rep.violation(Violation { clause, detail, scenario_seed: seed, scenario: o.desc.join("; "), signature: sig, trace: Trace::render(&o.recs, 60) });
                }
            }
        }
        e => panic!("engine {e} not supported by C03"),
    }
}
