//! E-TCP "tcp": the cluster properties (C17-C20) over **real loopback TCP** on a multi-thread runtime and the real clock.
//!
//! The other cluster engines hand in-memory duplex streams to the node servers; this one drives the code that only
//! runs with sockets: `net::listener` (bind/accept, dual-stack or a fixed address), `client_connect`, `NetworkStream`
//! split halves, TCP back-pressure and kernel-chosen segmentation. Two real `NodeServer`s listen on free ports;
//! links are opened with `client_connect` (once, twice, or from both sides at the same time), optionally through a
//! small TCP relay that can be cut; a node with the wrong cookie and raw-socket adversaries (unauthenticated protocol
//! frames, oversize length prefixes, garbage) talk to the listeners while lanes (tasks and OS threads) cast and call
//! through the proxies.
//!
//! Only deadline-free clauses are verdicts here (rule 3.6): order / duplicates / misdelivery / cross-wired replies,
//! *fence*-based completeness (a call handled by the target after a lane's casts went through the same proxy proves
//! that link order would have delivered them first), effects of unauthenticated peers, more than one listed session per
//! peer. Anything that merely did not happen within a wall-clock bound (not ready, not disconnected) is inconclusive.
#![cfg(feature = "cluster")]
use std::collections::{BTreeMap, HashMap};
use std::sync::atomic::{AtomicBool, AtomicU64, Ordering};
use std::sync::{Arc, Mutex, OnceLock};
use std::time::Duration;

use ractor::rpc::CallResult;
use ractor::{Actor, ActorCell, ActorRef, ActorStatus};
use ractor_cluster::{NodeServerMessage, NodeSessionMessage};
use tokio::io::{AsyncReadExt, AsyncWriteExt};

use super::c17::{adversary_frame, Events, Frame, Rem, Sub, COOKIE, WRONG_COOKIE};
use super::c20::{digest, payload, proxies_of, reply_value, text, RActor, RMsg, Rec};
use crate::json::J;
use crate::prng::{hash_words, Prng};
use crate::report::{Report, Violation};
use crate::{th, Args};

fn rt() -> &'static tokio::runtime::Runtime {
    static RT: OnceLock<tokio::runtime::Runtime> = OnceLock::new();
    RT.get_or_init(|| tokio::runtime::Builder::new_multi_thread().worker_threads(4).enable_all().build().expect("runtime"))
}

fn dbg(s: &str) {
    if std::env::var("VERIF_TCP_DEBUG").is_ok() {
        eprintln!("[tcp {:?}] {s}", std::time::Instant::now());
    }
}

fn free_port() -> u16 {
    // ask the kernel for a free port, release it, hand it to the node server (SO_REUSEADDR is set by the listener)
    let l = std::net::TcpListener::bind("127.0.0.1:0").expect("bind");
    l.local_addr().expect("addr").port()
}

/// sessions this node opened as the dialling side (is_server == false), with their peer address
#[derive(Default)]
struct Dialled(Mutex<Vec<(ActorRef<NodeSessionMessage>, String)>>);
struct DialSub(Arc<Dialled>);
impl ractor_cluster::NodeEventSubscription for DialSub {
    fn node_session_opened(&self, ses: ractor_cluster::node::NodeServerSessionInformation) {
        if !ses.is_server {
            self.0 .0.lock().unwrap().push((ses.actor, ses.peer_addr));
        }
    }
    fn node_session_disconnected(&self, _: ractor_cluster::node::NodeServerSessionInformation) {}
    fn node_session_authenticated(&self, _: ractor_cluster::node::NodeServerSessionInformation) {}
}

struct Node {
    server: ActorRef<NodeServerMessage>,
    handle: tokio::task::JoinHandle<()>,
    events: Arc<Events>,
    dialled: Arc<Dialled>,
    port: u16,
}

async fn spawn_node(name: &str, cookie: &str, fixed_v4: bool, cap: Option<u64>) -> Option<Node> {
    for _ in 0..5 {
        let port = free_port();
        let mut server = ractor_cluster::NodeServer::new(port, cookie.to_string(), name.to_string(), "localhost".to_string(), None, Some(ractor_cluster::node::NodeConnectionMode::Isolated));
        if fixed_v4 {
            server = server.with_listen_addr(std::net::IpAddr::V4(std::net::Ipv4Addr::LOCALHOST));
        }
        if let Some(c) = cap {
            server = server.with_max_inbound_frame_size(c);
        }
        dbg(&format!("spawning node {name} port {port} v4={fixed_v4}"));
        let r = Actor::spawn(None, server, ()).await;
        dbg(&format!("spawned node {name}: {:?}", r.as_ref().map(|_| ()).map_err(|e| e.to_string())));
        if let Ok((node, h)) = r {
            let ev = Arc::new(Events::default());
            let _ = node.cast(NodeServerMessage::SubscribeToEvents { id: "tcp".into(), subscription: Box::new(Sub(ev.clone())) });
            let dialled = Arc::new(Dialled::default());
            let _ = node.cast(NodeServerMessage::SubscribeToEvents { id: "tcp-dial".into(), subscription: Box::new(DialSub(dialled.clone())) });
            return Some(Node { server: node, handle: h, events: ev, dialled, port });
        }
        // the port was taken between the probe and the bind: try another one
    }
    None
}

/// A cuttable TCP relay in front of `to_port`; returns its own port. `frag` > 0: every chunk read is forwarded in
/// pieces of 1..=frag bytes, each written (TCP_NODELAY) and followed now and then by a yield or a short sleep, so that the
/// receiving node sees length prefixes and payloads split across reads.
async fn relay(to_port: u16, cut: Arc<AtomicBool>, bytes: Arc<AtomicU64>, frag: u64, seed: u64) -> Option<u16> {
    let l = tokio::net::TcpListener::bind("127.0.0.1:0").await.ok()?;
    let port = l.local_addr().ok()?.port();
    tokio::spawn(async move {
        let mut conn = 0u64;
        loop {
            let Ok((mut inb, _)) = l.accept().await else { return };
            let Ok(mut out) = tokio::net::TcpStream::connect(("127.0.0.1", to_port)).await else { continue };
            let _ = inb.set_nodelay(true);
            let _ = out.set_nodelay(true);
            let (cut, bytes) = (cut.clone(), bytes.clone());
            conn += 1;
            let mut q = Prng::new(seed ^ conn.wrapping_mul(0x9e3779b97f4a7c15));
            tokio::spawn(async move {
                let (mut ir, mut iw) = inb.split();
                let (mut or, mut ow) = out.split();
                let mut b1 = vec![0u8; 4096];
                let mut b2 = vec![0u8; 4096];
                loop {
                    if cut.load(Ordering::SeqCst) {
                        return; // both sockets are dropped: the peers see EOF / reset
                    }
                    let (n, to_out) = tokio::select! {
                        r = ir.read(&mut b1) => match r { Ok(n) if n > 0 => (n, true), _ => return },
                        r = or.read(&mut b2) => match r { Ok(n) if n > 0 => (n, false), _ => return },
                        _ = tokio::time::sleep(Duration::from_millis(5)) => continue,
                    };
                    bytes.fetch_add(n as u64, Ordering::Relaxed);
                    let buf = if to_out { &b1[..n] } else { &b2[..n] };
                    let mut off = 0;
                    while off < n {
                        let k = if frag == 0 { n - off } else { (1 + q.below(frag) as usize).min(n - off) };
                        let r = if to_out { ow.write_all(&buf[off..off + k]).await } else { iw.write_all(&buf[off..off + k]).await };
                        if r.is_err() {
                            return;
                        }
                        off += k;
                        if frag > 0 {
                            match q.below(8) {
                                0 => tokio::time::sleep(Duration::from_micros(50 + q.below(300))).await,
                                1..=4 => tokio::task::yield_now().await,
                                _ => {}
                            }
                        }
                    }
                }
            });
        }
    });
    Some(port)
}

async fn sessions_of(node: &ActorRef<NodeServerMessage>) -> Option<HashMap<ractor_cluster::NodeId, ractor_cluster::node::NodeServerSessionInformation>> {
    match node.call(NodeServerMessage::GetSessions, Some(Duration::from_secs(20))).await {
        Ok(CallResult::Success(m)) => Some(m),
        _ => None,
    }
}

async fn authed_sessions(node: &Node) -> Vec<ActorRef<NodeSessionMessage>> {
    let mut out = vec![];
    for s in node.events.opened.lock().unwrap().clone() {
        if s.get_status() == ActorStatus::Running {
            if let Ok(CallResult::Success(true)) = s.call(NodeSessionMessage::GetAuthenticationState, Some(Duration::from_secs(5))).await {
                out.push(s);
            }
        }
    }
    out
}

async fn wait_until(ms: u64, mut f: impl FnMut() -> bool) -> bool {
    let t0 = std::time::Instant::now();
    loop {
        if f() {
            return true;
        }
        if t0.elapsed().as_millis() as u64 > ms {
            return f();
        }
        tokio::time::sleep(Duration::from_millis(3)).await;
    }
}

struct Out {
    v: Vec<(&'static str, String, String)>, // (property, clause, detail)
    inconclusive: Option<String>,
    nontrivial: bool,
    sig: u64,
    c: BTreeMap<&'static str, u64>,
}

struct Tgt {
    uid: u64,
    actor: ActorRef<RMsg>,
    handle: tokio::task::JoinHandle<()>,
    log: Arc<Mutex<Vec<Rec>>>,
    pid: u64,
}

#[derive(Clone)]
struct LaneRes {
    lane: u64,
    target: usize,
    sent: Vec<(u64, u8, u64)>, // (seq, variant, digest) of casts whose send returned Ok
    fence_handled: bool,
    calls: Vec<(u64, u8, Result<u64, String>)>, // (seq, mode, outcome)
    send_failed: Option<String>,
}

async fn body(seed: u64) -> Out {
    let mut p = Prng::new(seed);
    let mut v: Vec<(&'static str, String, String)> = vec![];
    let mut c: BTreeMap<&'static str, u64> = BTreeMap::new();
    let tag = format!("{:x}", seed & 0xffff_ffff);
    let cap = if p.chance(1, 2) { Some(64 * 1024) } else { None };
    let (Some(a), Some(b)) = (spawn_node(&format!("ta-{tag}"), COOKIE, p.chance(1, 2), cap).await, spawn_node(&format!("tb-{tag}"), COOKIE, p.chance(1, 2), None).await) else {
        return Out { v, inconclusive: Some("node server did not start (port race)".into()), nontrivial: false, sig: 0, c };
    };
    dbg("nodes up");
    // ---- local actors: remotable targets, and a remotable victim nobody legit ever writes to
    let mut targets: Vec<Tgt> = vec![];
    for i in 0..(2 + p.below(2)) {
        let log = Arc::new(Mutex::new(vec![]));
        let uid = 100 + i;
        let (actor, handle) = Actor::spawn(Some(format!("tcp-t{i}-{tag}")), RActor { uid, log: log.clone(), start_ms: 0 }, ()).await.expect("target");
        let pid = actor.get_id().pid();
        if p.chance(1, 2) {
            ractor::pg::join_scoped(format!("tcps-{tag}"), "g".to_string(), vec![actor.get_cell()]);
        }
        targets.push(Tgt { uid, actor, handle, log, pid });
    }
    // an extra remotable actor that will exit under load (casts keep arriving for it while it stops)
    let xlog = Arc::new(Mutex::new(vec![]));
    let (xact, xh) = Actor::spawn(Some(format!("tcp-x-{tag}")), RActor { uid: 999, log: xlog.clone(), start_ms: 0 }, ()).await.expect("x");
    let xpid = xact.get_id().pid();
    let mut xh = Some(xh);
    let victim_log = Arc::new(Mutex::new(vec![]));
    let (victim, victim_h) = Actor::spawn(Some(format!("tcp-victim-{tag}")), Rem { handled: victim_log.clone() }, ()).await.expect("victim");
    let victim_pid = victim.get_id().pid();

    // ---- membership churn across the session set-up (C20: proxies join and leave the same groups). B's session counter is advanced
    // first (8 raw connections that say nothing) so that the two sessions' proxy ids differ although both nodes share this
    // process's pg tables. Then many pre-existing groups make the new session's initial group scan take a while, and an OS thread
    // keeps joining a remotable actor to fresh groups from before the dial until after both sides are ready: each of those joins
    // is either in the initial sync or announced as a change - never in neither.
    let mut junk = vec![];
    for _ in 0..8 {
        if let Ok(sck) = tokio::net::TcpStream::connect(("127.0.0.1", b.port)).await {
            junk.push(sck);
        }
    }
    tokio::time::sleep(Duration::from_millis(5)).await;
    let churn = p.chance(1, 2);
    // (the relay's fragmentation regime is drawn here already: a large initial sync through a relay that forwards 1-9 bytes at a time
    // would only produce 'not ready within the bound' = inconclusive scenarios)
    let frag = *p.pick(&[0u64, 3, 9, 64]);
    let mode = p.below(5); // 0 single, 1 both sides dial at once, 2 A dials twice, 3/4 through a cuttable relay
    // (a relayed link is slow: the membership traffic of a big churn would saturate it for seconds and every call would time out)
    let relayed_link = mode >= 3;
    let npre = if !churn { 0 } else if relayed_link { if frag == 3 || frag == 9 { 20 } else { 100 } } else { *p.pick(&[50u64, 400, 1500]) };
    let fresh_cap = if relayed_link { 150u64 } else { 3000 };
    for g in 0..npre {
        ractor::pg::join_scoped(format!("tcpm-{tag}"), format!("pre-{g}"), vec![targets[0].actor.get_cell()]);
    }
    let churn_stop = Arc::new(AtomicBool::new(false));
    let churn_thread = if churn {
        let (cell, stop, tagc) = (targets[1 % targets.len()].actor.get_cell(), churn_stop.clone(), tag.clone());
        Some(std::thread::spawn(move || {
            let mut k = 0u64;
            while !stop.load(Ordering::SeqCst) && k < fresh_cap {
                ractor::pg::join_scoped(format!("tcpm-{tagc}"), format!("fresh-{k}"), vec![cell.clone()]);
                k += 1;
                std::thread::sleep(Duration::from_micros(30));
            }
            k
        }))
    } else {
        None
    };
    // ---- adversaries on raw sockets (C17 / C19), started before and running across the link set-up
    let nadv = p.below(4);
    let mut adv_tasks = vec![];
    for k in 0..nadv {
        let mut q = p.fork();
        let port = if q.chance(1, 2) { a.port } else { b.port };
        let capped = port == a.port && cap.is_some();
        adv_tasks.push(tokio::spawn(async move {
            tokio::time::sleep(Duration::from_millis(q.below(30))).await;
            let Ok(mut s) = tokio::net::TcpStream::connect(("127.0.0.1", port)).await else { return (k, "connect failed".to_string(), false, false) };
            let kind = q.below(4);
            let mut what = String::new();
            let mut must_close = false;
            match kind {
                0 => {
                    // oversize length prefix (above every limit, or between this server's cap and the library default)
                    let len: u64 = if capped && q.chance(1, 2) { 64 * 1024 + 1 + q.below(1 << 20) } else { (1u64 << 40) + q.below(1 << 20) };
                    let _ = s.write_all(&len.to_be_bytes()).await;
                    let _ = s.write_all(&vec![0xaa; 64]).await;
                    what = format!("oversize length {len}");
                    must_close = true;
                }
                1 => {
                    let g: Vec<u8> = (0..(9 + q.below(200))).map(|_| q.next() as u8).collect();
                    let _ = s.write_all(&g).await;
                    what = format!("garbage {} bytes", g.len());
                }
                _ => {
                    for _ in 0..(1 + q.below(8)) {
                        let (f, is_auth, name) = adversary_frame(&mut q, victim_pid, victim_pid, false);
                        let bytes = match &f {
                            Frame::Msg(_, b) => b.clone(),
                            Frame::Raw(b) => b.clone(),
                        };
                        if s.write_all(&bytes).await.is_err() {
                            break;
                        }
                        what.push_str(name);
                        what.push(' ');
                        // every auth frame in the repertoire deviates from the handshake a server expects from a fresh client,
                        // except a first Name (which then never proves the cookie)
                        if is_auth && name != "Name" {
                            must_close = true;
                        }
                        if q.chance(1, 3) {
                            tokio::time::sleep(Duration::from_millis(q.below(5))).await;
                        }
                    }
                }
            }
            // did the server hang up on us? (observed, never a verdict by itself)
            let mut buf = [0u8; 4096];
            let mut closed = false;
            for _ in 0..200 {
                match tokio::time::timeout(Duration::from_millis(50), s.read(&mut buf)).await {
                    Ok(Ok(0)) | Ok(Err(_)) => {
                        closed = true;
                        break;
                    }
                    Ok(Ok(_)) => {}
                    Err(_) => {
                        if !must_close {
                            break;
                        }
                    }
                }
            }
            (k, what, must_close, closed)
        }));
    }
    dbg("adversaries started");
    // a whole node with the wrong cookie dials A
    let spoof = if p.chance(1, 3) { spawn_node(&format!("tx-{tag}"), WRONG_COOKIE, true, None).await } else { None };
    if let Some(x) = &spoof {
        let _ = ractor_cluster::client_connect(&x.server, ("127.0.0.1", a.port)).await;
    }

    dbg("spoofer dialled");
    // ---- the legitimate link(s)
    let cut = Arc::new(AtomicBool::new(false));
    let relayed = Arc::new(AtomicU64::new(0));
    let mut dial_ok = true;
    match mode {
        0 => dial_ok &= ractor_cluster::client_connect(&a.server, ("127.0.0.1", b.port)).await.is_ok(),
        1 => {
            let (r1, r2) = tokio::join!(ractor_cluster::client_connect(&a.server, ("127.0.0.1", b.port)), ractor_cluster::client_connect(&b.server, ("127.0.0.1", a.port)));
            dial_ok &= r1.is_ok() || r2.is_ok();
        }
        2 => {
            let (r1, r2) = tokio::join!(ractor_cluster::client_connect(&a.server, ("127.0.0.1", b.port)), ractor_cluster::client_connect(&a.server, ("127.0.0.1", b.port)));
            dial_ok &= r1.is_ok() || r2.is_ok();
        }
        _ => match relay(b.port, cut.clone(), relayed.clone(), frag, seed).await {
            Some(rp) => dial_ok &= ractor_cluster::client_connect(&a.server, ("127.0.0.1", rp)).await.is_ok(),
            None => dial_ok = false,
        },
    }
    let ready = dial_ok && wait_until(20_000, || !a.events.ready.lock().unwrap().is_empty() && !b.events.ready.lock().unwrap().is_empty()).await;
    dbg(&format!("dialled mode={mode} ready={ready}"));
    let mut fresh_groups = 0u64;
    if let Some(t) = churn_thread {
        if ready {
            tokio::time::sleep(Duration::from_millis(3)).await;
        }
        churn_stop.store(true, Ordering::SeqCst);
        fresh_groups = t.join().unwrap_or(0);
    }
    if ready && churn && (mode == 0 || mode >= 3) {
        let cpid = targets[1 % targets.len()].pid;
        for s in authed_sessions(&a).await.into_iter().chain(authed_sessions(&b).await.into_iter()) {
            let mut fpx = None;
            for _ in 0..400 {
                fpx = proxies_of(&s).into_iter().find(|c| c.get_id().pid() == targets[0].pid && c.get_status() == ActorStatus::Running);
                if fpx.is_some() {
                    break;
                }
                tokio::time::sleep(Duration::from_millis(5)).await;
            }
            let Some(fpx) = fpx else { continue };
            let node_id = match fpx.get_id() {
                ractor::ActorId::Remote { node_id, .. } => node_id,
                _ => continue,
            };
            let fr: ActorRef<RMsg> = fpx.into();
            // fence: the peer answers this call only after it has announced every earlier join, and this session reads the reply after them
            if !matches!(fr.call(|reply| RMsg::Ask(9997, 1, 0, reply), Some(Duration::from_secs(8))).await, Ok(CallResult::Success(_))) {
                continue;
            }
            *c.entry("membership_fences").or_default() += 1;
            let mut missing = vec![];
            for k in 0..fresh_groups {
                let members = ractor::pg::get_scoped_members(&format!("tcpm-{tag}"), &format!("fresh-{k}"));
                if !members.iter().any(|m| m.get_id() == (ractor::ActorId::Remote { node_id, pid: cpid })) {
                    missing.push(k);
                }
            }
            *c.entry("fresh_groups_checked").or_default() += fresh_groups;
            if !missing.is_empty() {
                v.push(("C20", "membership-not-mirrored".into(), format!("{} of {fresh_groups} groups that a remotable actor joined while session {node_id} was being set up ({npre} groups existed before) never got that session's proxy as a member although a later call through the session was answered (first missing: fresh-{}): the join was neither in the initial sync nor announced", missing.len(), missing[0])));
            }
        }
    }
    dbg("membership fences done");
    let mut lanes_res: Vec<LaneRes> = vec![];
    let mut did_cut = false;
    let mut samples = 0u64;
    if ready {
        // C18: duplicates converge: sample the session lists a few times while things settle
        for _ in 0..4 {
            for (who, n) in [("A", &a), ("B", &b)] {
                if let Some(m) = sessions_of(&n.server).await {
                    samples += 1;
                    let peers: Vec<String> = m.values().filter_map(|s| s.peer_name.as_ref().map(|n| n.name.clone())).collect();
                    let legit = peers.iter().filter(|n| n.starts_with("ta-") || n.starts_with("tb-")).count();
                    if legit > 1 {
                        v.push(("C18", "two-links-listed".into(), format!("node {who} lists {legit} sessions with the same peer over TCP (dial mode {mode}): {peers:?}")));
                    }
                    if peers.iter().any(|n| n.starts_with("tx-")) && who == "A" {
                        // listed with a name is allowed only if GetSessions lists unauthenticated sessions; C17's vt check says it must not
                        v.push(("C17", "listed-before-auth".into(), format!("node A lists the wrong-cookie node: {peers:?}")));
                    }
                }
            }
            tokio::time::sleep(Duration::from_millis(5)).await;
        }
        // ---- traffic through the proxies of whichever session is authenticated on each side
        let sa = authed_sessions(&a).await;
        let sb = authed_sessions(&b).await;
        if sa.len() > 1 || sb.len() > 1 {
            // may be transient while a duplicate is being closed: re-sample once after the lists settled
            tokio::time::sleep(Duration::from_millis(200)).await;
            let (sa2, sb2) = (authed_sessions(&a).await, authed_sessions(&b).await);
            if sa2.len() > 1 || sb2.len() > 1 {
                v.push(("C18", "not-converged".into(), format!("200 ms after both sides reported ready, {} / {} authenticated running sessions remain on A / B (dial mode {mode})", sa2.len(), sb2.len())));
            }
        }
        let sessions: Vec<ActorRef<NodeSessionMessage>> = sa.into_iter().chain(sb.into_iter()).collect();
        let nl = 2 + p.below(3);
        let mut tasks = vec![];
        for lane in 1..=nl {
            let ti = p.below(targets.len() as u64) as usize;
            let (pid, uid) = (targets[ti].pid, targets[ti].uid);
            if sessions.is_empty() {
                break;
            }
            let ses = sessions[p.below(sessions.len() as u64) as usize].clone();
            let mut q = p.fork();
            let on_thread = q.chance(1, 3);
            // through a relay that forwards 1-9 bytes per write, keep the volume small (a few short frames still cross every boundary)
            let heavy = mode >= 3 && (frag == 3 || frag == 9);
            let fut = async move {
                let mut res = LaneRes { lane, target: ti, sent: vec![], fence_handled: false, calls: vec![], send_failed: None };
                let mut cell: Option<ActorCell> = None;
                for _ in 0..400 {
                    cell = proxies_of(&ses).into_iter().find(|c| c.get_id().pid() == pid && c.get_status() == ActorStatus::Running);
                    if cell.is_some() {
                        break;
                    }
                    tokio::time::sleep(Duration::from_millis(5)).await;
                }
                let Some(cell) = cell else {
                    res.send_failed = Some("no running proxy for the target".into());
                    return res;
                };
                let typed: ActorRef<RMsg> = cell.clone().into();
                let n = if heavy { 3 + q.below(8) } else { 5 + q.below(60) };
                let mut seq = 0u64;
                for _ in 0..n {
                    seq += 1;
                    match q.below(10) {
                        0..=6 => {
                            let (msg, variant, dg) = if heavy || q.chance(1, 3) {
                                let t = text(lane, seq);
                                let d = digest(t.as_bytes());
                                (RMsg::Named { lane, seq, text: t }, 1u8, d)
                            } else {
                                let pl = payload(lane, seq);
                                let d = digest(&pl);
                                (RMsg::Note(lane, seq, pl), 0u8, d)
                            };
                            match typed.cast(msg) {
                                Ok(()) => res.sent.push((seq, variant, dg)),
                                Err(e) => {
                                    res.send_failed = Some(format!("cast seq {seq}: {e}"));
                                    return res;
                                }
                            }
                        }
                        _ => {
                            let mode = *q.pick(&[0u8, 0, 1, 3]);
                            // a dropped reply port is not reported over the wire: the remote caller learns of it at its own timeout
                            let to = if mode == 3 { Duration::from_millis(20 + q.below(30)) } else { Duration::from_secs(6) };
                            let r = typed.call(|reply| RMsg::Ask(lane, seq, mode, reply), Some(to)).await;
                            let o = match r {
                                Ok(CallResult::Success(x)) => Ok(x),
                                Ok(CallResult::Timeout) => Err("timeout".to_string()),
                                Ok(CallResult::SenderError) => Err("sender-error".to_string()),
                                Err(e) => Err(format!("send-failed {e}")),
                            };
                            dbg(&format!("lane {lane} call seq {seq} mode {mode}: {o:?} proxy status {:?}", cell.get_status()));
                            res.calls.push((seq, mode, o));
                        }
                    }
                    if q.chance(1, 8) {
                        tokio::time::sleep(Duration::from_micros(q.below(800))).await;
                    }
                }
                // fence: a prompt call after everything else on this lane, through the same proxy
                seq += 1;
                if let Ok(CallResult::Success(x)) = typed.call(|reply| RMsg::Ask(lane, seq, 0, reply), Some(Duration::from_secs(8))).await {
                    res.fence_handled = true;
                    res.calls.push((seq, 0, Ok(x)));
                }
                let _ = uid;
                dbg(&format!("lane {lane} done: sent {} calls {} fence {}", res.sent.len(), res.calls.len(), res.fence_handled));
                res
            };
            if on_thread {
                let (tx, rx) = tokio::sync::oneshot::channel();
                std::thread::spawn(move || {
                    let _ = tx.send(rt().block_on(fut));
                });
                tasks.push(tokio::spawn(async move { rx.await.ok() }));
            } else {
                tasks.push(tokio::spawn(async move { Some(fut.await) }));
            }
        }
        // ---- exit under load (C20: a proxy stops when the original stops): casts keep flowing to X through one session's proxy while X
        // stops; afterwards a *fence* call through another proxy of the same session is answered by the hosting node only after that
        // node's session has handled X's exit event (supervision outranks messages) and written its Terminate frame, and the reply is
        // read by this side's session only after that frame: so once the fence is answered, X's proxy must at least have been asked to stop
        if !sessions.is_empty() {
            let ses = sessions[p.below(sessions.len() as u64) as usize].clone();
            let mut px = None;
            for _ in 0..400 {
                px = proxies_of(&ses).into_iter().find(|c| c.get_id().pid() == xpid && c.get_status() == ActorStatus::Running);
                if px.is_some() {
                    break;
                }
                tokio::time::sleep(Duration::from_millis(5)).await;
            }
            let fence_px = proxies_of(&ses).into_iter().find(|c| c.get_id().pid() == targets[0].pid && c.get_status() == ActorStatus::Running);
            if let (Some(px), Some(fpx)) = (px, fence_px) {
                let stop_flag = Arc::new(AtomicBool::new(false));
                let (sf, pxc) = (stop_flag.clone(), px.clone());
                // (through a fragmenting relay every frame costs many small writes: keep the burst short there, the fence queues behind it)
                let burst_cap = if mode >= 3 && frag > 0 { 600u64 } else { 200_000 };
                let burst = tokio::spawn(async move {
                    let typed: ActorRef<RMsg> = pxc.into();
                    let mut k = 0u64;
                    while !sf.load(Ordering::SeqCst) && k < burst_cap {
                        k += 1;
                        if typed.cast(RMsg::Note(9999, k, vec![1, 2, 3])).is_err() {
                            break;
                        }
                        if k % 64 == 0 {
                            tokio::task::yield_now().await;
                        }
                    }
                    k
                });
                tokio::time::sleep(Duration::from_micros(p.below(8000))).await;
                xact.stop(None);
                if let Some(h) = xh.take() {
                    let _ = tokio::time::timeout(Duration::from_secs(40), h).await;
                }
                let fr: ActorRef<RMsg> = fpx.into();
                let fenced = matches!(fr.call(|reply| RMsg::Ask(9998, 1, 0, reply), Some(Duration::from_secs(8))).await, Ok(CallResult::Success(_)));
                stop_flag.store(true, Ordering::SeqCst);
                let sent = burst.await.unwrap_or(0);
                *c.entry("exit_under_load_casts").or_default() += sent;
                if fenced {
                    *c.entry("exit_under_load_fenced").or_default() += 1;
                    if px.get_status() < ActorStatus::Stopping && !px.verif_stop_sent() && !px.verif_signal_sent() {
                        v.push(("C20", "proxy-outlives-original".into(), format!("the original (pid {xpid}) stopped while {sent} casts were flowing to it through its proxy {:?}; a later call through another proxy of the same session was answered, yet nobody has asked the proxy to stop: the peer never announced the exit", px.get_id())));
                    }
                }
            }
        }
        dbg("exit-under-load done");
        // optional cut while the lanes are running
        if mode >= 3 && p.chance(1, 2) {
            tokio::time::sleep(Duration::from_millis(p.below(40))).await;
            cut.store(true, Ordering::SeqCst);
            did_cut = true;
        }
        for t in tasks {
            match tokio::time::timeout(Duration::from_secs(100), t).await {
                Ok(Ok(Some(r))) => lanes_res.push(r),
                _ => {
                    xact.stop(None);
                    if let Some(h) = xh.take() {
                        let _ = tokio::time::timeout(Duration::from_secs(40), h).await;
                    }
                    return finish(a, b, spoof, targets, (victim, victim_h), Out { v, inconclusive: Some("a lane did not finish within 100 s wall".into()), nontrivial: false, sig: 0, c }).await;
                }
            }
        }
    }
    dbg("lanes done");
    // ---- adversary outcomes
    let mut adv_desc = vec![];
    for t in adv_tasks {
        if let Ok(Ok((k, what, must_close, closed))) = tokio::time::timeout(Duration::from_secs(30), t).await {
            *c.entry("adversary_connections").or_default() += 1;
            if must_close && closed {
                *c.entry("adversary_hung_up_on").or_default() += 1;
            }
            if must_close && !closed {
                *c.entry("adversary_not_closed_within_10s(inconclusive)").or_default() += 1;
            }
            adv_desc.push(format!("adv{k}: {what}"));
        }
    }
    // let in-flight deliveries land: the victim must never see anything, so wait a little and look
    tokio::time::sleep(Duration::from_millis(20)).await;
    if !victim_log.lock().unwrap().is_empty() {
        v.push(("C17", "effect-before-auth".into(), format!("the victim actor handled {:?}; only unauthenticated raw-socket peers ever addressed it ({adv_desc:?})", victim_log.lock().unwrap())));
    }
    for m in ractor::pg::get_scoped_members(&"c17s".to_string(), &"c17g".to_string()) {
        v.push(("C17", "effect-before-auth".into(), format!("group c17s/c17g has member {:?} after unauthenticated PgJoin frames", m.get_id())));
    }
    for n in [&a, &b] {
        for s in n.events.opened.lock().unwrap().iter() {
            for ch in proxies_of(s) {
                if ch.get_id().pid() == 777 {
                    v.push(("C17", "effect-before-auth".into(), "a proxy for the ghost pid 777 was spawned from an unauthenticated Spawn frame".to_string()));
                }
            }
        }
    }
    if let Some(x) = &spoof {
        if !x.events.authenticated.lock().unwrap().is_empty() || !x.events.ready.lock().unwrap().is_empty() {
            v.push(("C17", "auth-bypass".into(), "a node with the wrong cookie reported an authenticated session with node A over TCP".to_string()));
        }
    }
    dbg("adversaries done");
    // ---- C20 oracles over the lanes
    let mut delivered = 0u64;
    for lr in &lanes_res {
        let t = &targets[lr.target];
        let log: Vec<Rec> = t.log.lock().unwrap().iter().filter(|r| r.lane == lr.lane).cloned().collect();
        delivered += log.len() as u64;
        let mut last = 0u64;
        for r in &log {
            if r.seq <= last {
                v.push(("C20", "order".into(), format!("lane {} over TCP: target {} handled seq {} after seq {last} (duplicate or reordered)", lr.lane, t.uid, r.seq)));
                break;
            }
            last = r.seq;
            if r.variant <= 1 {
                match lr.sent.iter().find(|s| s.0 == r.seq) {
                    Some(s) if s.1 == r.variant && s.2 == r.digest => {}
                    Some(s) => v.push(("C20", "corrupted".into(), format!("lane {} seq {}: sent variant {} digest {:x}, delivered variant {} digest {:x}", lr.lane, r.seq, s.1, s.2, r.variant, r.digest))),
                    None => {
                        // a cast whose send reported failure may still have been delivered (the error raced the close): not a violation
                    }
                }
            }
        }
        // deliveries of this lane at any *other* target
        for (oi, other) in targets.iter().enumerate() {
            if oi != lr.target && other.log.lock().unwrap().iter().any(|r| r.lane == lr.lane) {
                v.push(("C20", "misdelivered".into(), format!("lane {} addressed target {} but target {} handled one of its messages", lr.lane, t.uid, other.uid)));
            }
        }
        if lr.fence_handled {
            // link order: every cast accepted before the fence was sent through the same proxy must have been handled
            for s in &lr.sent {
                if !log.iter().any(|r| r.seq == s.0) {
                    v.push(("C20", "lost".into(), format!("lane {} over TCP: cast seq {} was accepted and a later call through the same proxy was answered by the target, but the cast was never handled", lr.lane, s.0)));
                    break;
                }
            }
        }
        for (seq, mode, o) in &lr.calls {
            match o {
                Ok(x) if *x != reply_value(t.uid, lr.lane, *seq) => v.push(("C20", "reply-misrouted".into(), format!("lane {} call seq {seq}: Success({x:x}) is not the value target {} computes for this request", lr.lane, t.uid))),
                Ok(_) if *mode == 3 => v.push(("C20", "reply-from-nowhere".into(), format!("lane {} call seq {seq}: the target dropped the reply port but the caller got Success", lr.lane))),
                _ => {}
            }
            if let Err(e) = o {
                if !did_cut && e == "timeout" && *mode != 3 {
                    *c.entry("answered_calls_timed_out(inconclusive)").or_default() += 1;
                }
            }
        }
    }
    // ---- after a cut: both sessions end and their proxies with them (observed; the absence within the bound is inconclusive)
    if did_cut {
        let gone = wait_until(20_000, || !a.events.disconnected.lock().unwrap().is_empty() && !b.events.disconnected.lock().unwrap().is_empty()).await;
        if gone {
            *c.entry("cuts_seen_by_both_sides").or_default() += 1;
            for n in [&a, &b] {
                for s in n.events.opened.lock().unwrap().iter() {
                    if s.get_status() == ActorStatus::Stopped {
                        for ch in proxies_of(s) {
                            if ch.get_status() != ActorStatus::Stopped {
                                v.push(("C20", "proxy-outlives-session".into(), format!("session stopped after the TCP link was cut but its proxy {:?} is {:?}", ch.get_id(), ch.get_status())));
                            }
                        }
                    }
                }
            }
        } else {
            *c.entry("cut_not_noticed_within_20s(inconclusive)").or_default() += 1;
        }
    }
    // ---- C19: a link that carried only valid frames (honest peers, however the relay fragments them) is never torn down
    if dial_ok && !did_cut && (mode == 0 || mode >= 3) {
        for (ses, peer) in a.dialled.0.lock().unwrap().iter() {
            if ses.get_status() >= ActorStatus::Stopping {
                v.push(("C19", "valid-link-torn-down".into(), format!("node A's outgoing session to {peer} (dial mode {mode}, honest peer, link never cut) is {:?}: a stream of valid frames ended the session", ses.get_status())));
            }
        }
    }
    // ---- C19: hostile bytes stop that session only: the legit link still works when it was not cut
    if ready && !did_cut && nadv > 0 {
        let ss = authed_sessions(&a).await;
        if ss.is_empty() {
            v.push(("C19", "bystander-session-lost".into(), format!("after hostile connections ({adv_desc:?}) node A has no authenticated session left although the legitimate link was never cut")));
        }
    }
    *c.entry("lanes").or_default() += lanes_res.len() as u64;
    *c.entry("deliveries_checked").or_default() += delivered;
    *c.entry("fenced_lanes").or_default() += lanes_res.iter().filter(|l| l.fence_handled).count() as u64;
    *c.entry("calls_checked").or_default() += lanes_res.iter().map(|l| l.calls.len() as u64).sum::<u64>();
    *c.entry("session_list_samples").or_default() += samples;
    *c.entry("relayed_bytes").or_default() += relayed.load(Ordering::Relaxed);
    *c.entry("links_ready").or_default() += ready as u64;
    let inconclusive = if !ready { Some(format!("link not ready within 20 s wall (dial mode {mode}, dial_ok={dial_ok})")) } else { None };
    let sig = hash_words(&[mode, nadv, spoof.is_some() as u64, did_cut as u64, lanes_res.len() as u64, lanes_res.iter().filter(|l| l.fence_handled).count() as u64]);
    xact.stop(None);
    if let Some(h) = xh.take() {
        let _ = tokio::time::timeout(Duration::from_secs(40), h).await;
    }
    finish(a, b, spoof, targets, (victim, victim_h), Out { v, inconclusive, nontrivial: ready && !lanes_res.is_empty(), sig, c }).await
}

async fn finish(a: Node, b: Node, spoof: Option<Node>, targets: Vec<Tgt>, victim: (ActorRef<u64>, tokio::task::JoinHandle<()>), mut out: Out) -> Out {
    dbg("finish");
    let mut ok = true;
    for n in [Some(a), Some(b), spoof].into_iter().flatten() {
        n.server.stop(None);
        ok &= tokio::time::timeout(Duration::from_secs(40), n.handle).await.is_ok();
    }
    for t in targets {
        t.actor.stop(None);
        ok &= tokio::time::timeout(Duration::from_secs(40), t.handle).await.is_ok();
    }
    victim.0.stop(None);
    ok &= tokio::time::timeout(Duration::from_secs(40), victim.1).await.is_ok();
    if !ok && out.inconclusive.is_none() {
        out.inconclusive = Some("teardown did not finish within 40 s wall".into());
    }
    out
}

pub fn run(args: &Args, rep: &mut Report) {
    for i in args.indices() {
        let seed = args.replay.unwrap_or_else(|| args.scenario_seed(i));
        crate::watch_begin(seed);
        th::begin(seed, 10 + (seed % 40) as u32);
        let out = rt().block_on(body(seed));
        th::end();
        crate::watch_end();
        for (k, n) in &out.c {
            rep.count(k, *n);
        }
        let mut problems: Vec<(String, String)> = out.v.iter().filter(|(p, _, _)| *p == args.prop).map(|(_, c, d)| (c.clone(), d.clone())).collect();
        rep.count("clauses_of_other_cluster_properties_seen", out.v.iter().filter(|(p, _, _)| *p != args.prop).count() as u64);
        for (loc, msg) in crate::take_foreign_panics() {
            problems.push(("foreign-panic".to_string(), format!("panic at {loc}: {msg}")));
        }
        if let Some(w) = &out.inconclusive {
            rep.inconclusive.push(format!("seed {seed}: {w}"));
        } else {
            let leaks = th::settle_leaks();
            if !leaks.is_empty() && args.prop == "C20" {
                problems.push(("leak".to_string(), format!("global tables not empty after both nodes stopped: {}", leaks.join("; "))));
            }
            rep.scenario(out.nontrivial, out.sig);
        }
        for (clause, detail) in problems {
            rep.violation(Violation { clause: clause.clone(), detail, scenario_seed: seed, scenario: "tcp".into(), signature: clause, trace: vec![] });
        }
        if args.replay.is_some() {
            break;
        }
    }
    rep.sample(J::obj().set("transport", "loopback TCP, real listeners, client_connect"));
}
