//! C20 — remote actors behave like the actors they stand for.
//!
//! Two real NodeServers (A, B) in one process joined through a chaotic in-memory relay (random fragmentation,
//! virtual-time delays, cut after a chosen byte offset or at a chosen time, optional reconnect). Remotable target
//! actors log what they receive; lanes (one logical sender each) cast and call through the proxies hosted by A's or
//! B's session; events spawn/stop targets and change group membership while traffic flows.
//!
//! Both nodes share the process-wide registries, so every remotable local actor is advertised in both directions
//! and owns one proxy per session; B's session counter is advanced first so that the two sessions' proxy ids differ.
#![cfg(feature = "cluster")]
use std::collections::{BTreeMap, BTreeSet, HashMap};
use std::sync::atomic::{AtomicBool, AtomicU64, Ordering};
use std::sync::{Arc, Mutex};
use std::time::Duration;

use ractor::rpc::CallResult;
use ractor::{Actor, ActorCell, ActorProcessingErr, ActorRef, ActorStatus, RpcReplyPort};
use ractor_cluster::{NodeServerMessage, NodeSessionMessage, RactorClusterMessage};
use tokio::io::{AsyncReadExt, AsyncWriteExt};

use super::c17::{Duplex, Events, Sub, COOKIE};
use crate::json::J;
use crate::prng::{hash_str, hash_words, mix, Prng};
use crate::report::{Report, Violation};
use crate::{vt, Args};

// ------------------------------------------------------------------ remotable target actor

#[derive(RactorClusterMessage)]
pub enum RMsg {
    Note(u64, u64, Vec<u8>),
    Named {
        lane: u64,
        seq: u64,
        text: String,
    },
    #[rpc]
    Ask(u64, u64, u8, RpcReplyPort<u64>),
    #[rpc]
    AskV {
        lane: u64,
        reply: RpcReplyPort<Vec<u8>>,
        seq: u64,
        mode: u8,
    },
}

#[derive(Clone, Debug, PartialEq)]
pub struct Rec {
    pub variant: u8,
    pub lane: u64,
    pub seq: u64,
    pub digest: u64,
}

pub struct RActor {
    pub uid: u64,
    pub log: Arc<Mutex<Vec<Rec>>>,
    /// virtual milliseconds spent in pre_start (an actor may still be starting when a session authenticates)
    pub start_ms: u64,
}
pub struct RState {
    held_u: Vec<RpcReplyPort<u64>>,
    held_v: Vec<RpcReplyPort<Vec<u8>>>,
}

pub fn payload(lane: u64, seq: u64) -> Vec<u8> {
    let h = mix(lane.wrapping_mul(0x9E37).wrapping_add(seq));
    let len = if h % 11 == 0 { 2000 + (h >> 8) % 6000 } else { (h >> 8) % 200 };
    (0..len).map(|i| (h.wrapping_add(i * 131) >> 3) as u8).collect()
}
pub fn text(lane: u64, seq: u64) -> String {
    let h = mix(lane ^ seq.rotate_left(17));
    (0..(h % 40)).map(|i| char::from_u32(0x61 + ((h >> (i % 32)) % 0x300) as u32).unwrap_or('x')).collect()
}
pub fn digest(b: &[u8]) -> u64 {
    let mut h = 0xcbf29ce484222325u64;
    for x in b {
        h = (h ^ *x as u64).wrapping_mul(0x100000001b3);
    }
    h
}
pub fn reply_value(uid: u64, lane: u64, seq: u64) -> u64 {
    mix(uid.wrapping_mul(31) ^ lane.rotate_left(20) ^ seq)
}
pub const DELAYED_REPLY_MS: u64 = 40;

impl Actor for RActor {
    type Msg = RMsg;
    type State = RState;
    type Arguments = ();
    async fn pre_start(&self, _: ActorRef<RMsg>, _: ()) -> Result<RState, ActorProcessingErr> {
        if self.start_ms > 0 {
            tokio::time::sleep(Duration::from_millis(self.start_ms)).await;
        }
        Ok(RState { held_u: vec![], held_v: vec![] })
    }
    async fn handle(&self, _: ActorRef<RMsg>, m: RMsg, st: &mut RState) -> Result<(), ActorProcessingErr> {
        match m {
            RMsg::Note(lane, seq, p) => self.log.lock().unwrap().push(Rec { variant: 0, lane, seq, digest: digest(&p) }),
            RMsg::Named { lane, seq, text } => self.log.lock().unwrap().push(Rec { variant: 1, lane, seq, digest: digest(text.as_bytes()) }),
            RMsg::Ask(lane, seq, mode, port) => {
                self.log.lock().unwrap().push(Rec { variant: 2, lane, seq, digest: mode as u64 });
                let val = reply_value(self.uid, lane, seq);
                match mode {
                    0 => {
                        let _ = port.send(val);
                    }
                    1 => {
                        tokio::spawn(async move {
                            tokio::time::sleep(Duration::from_millis(DELAYED_REPLY_MS)).await;
                            let _ = port.send(val);
                        });
                    }
                    2 => st.held_u.push(port),
                    _ => drop(port),
                }
            }
            RMsg::AskV { lane, reply, seq, mode } => {
                self.log.lock().unwrap().push(Rec { variant: 3, lane, seq, digest: mode as u64 });
                let val = reply_value(self.uid, lane, seq).to_be_bytes().to_vec();
                match mode {
                    0 => {
                        let _ = reply.send(val);
                    }
                    1 => {
                        tokio::spawn(async move {
                            tokio::time::sleep(Duration::from_millis(DELAYED_REPLY_MS)).await;
                            let _ = reply.send(val);
                        });
                    }
                    2 => st.held_v.push(reply),
                    _ => drop(reply),
                }
            }
        }
        Ok(())
    }
}

// ------------------------------------------------------------------ chaotic relay

pub struct Link {
    cut_tx: tokio::sync::watch::Sender<bool>,
    pub cut: AtomicBool,
    pub bytes: [AtomicU64; 2],
    pub cut_after: [AtomicU64; 2],
}
impl Link {
    pub fn cut_now(&self) {
        self.cut.store(true, Ordering::SeqCst);
        let _ = self.cut_tx.send(true);
    }
}

async fn pump(mut r: tokio::io::ReadHalf<tokio::io::DuplexStream>, mut w: tokio::io::WriteHalf<tokio::io::DuplexStream>, link: Arc<Link>, dir: usize, mut p: Prng, max_chunk: u64, delay_pct: u64, max_delay_ms: u64) {
    let mut cut_rx = link.cut_tx.subscribe();
    let mut delay_budget_ms = 5000u64;
    loop {
        if link.cut.load(Ordering::SeqCst) {
            break;
        }
        let mut buf = vec![0u8; 1 + p.below(max_chunk) as usize];
        let n = tokio::select! {
            r = r.read(&mut buf) => match r { Ok(0) | Err(_) => break, Ok(n) => n },
            _ = cut_rx.changed() => break,
        };
        let so_far = link.bytes[dir].load(Ordering::SeqCst);
        let limit = link.cut_after[dir].load(Ordering::SeqCst);
        let allowed = if so_far + n as u64 > limit { (limit - so_far.min(limit)) as usize } else { n };
        if p.below(100) < delay_pct && delay_budget_ms > 0 {
            // the total injected delay per direction is bounded, so a patient caller (>= 60 s) always outlasts the relay
            let ms = (1 + p.below(max_delay_ms)).min(delay_budget_ms);
            delay_budget_ms -= ms;
            let d = Duration::from_millis(ms);
            tokio::select! {
                _ = tokio::time::sleep(d) => {},
                _ = cut_rx.changed() => break,
            }
        }
        if allowed > 0 && w.write_all(&buf[..allowed]).await.is_err() {
            break;
        }
        link.bytes[dir].fetch_add(allowed as u64, Ordering::SeqCst);
        if allowed < n {
            link.cut_now();
            break;
        }
    }
    link.cut_now(); // either side ending takes the whole link down (like a closed socket)
}

/// Creates the two endpoint streams and starts the relay between them
pub fn make_link(p: &mut Prng, max_chunk: u64, delay_pct: u64, max_delay_ms: u64, cut_after: [u64; 2]) -> (tokio::io::DuplexStream, tokio::io::DuplexStream, Arc<Link>) {
    let (a_end, ra) = tokio::io::duplex(1 << 16);
    let (rb, b_end) = tokio::io::duplex(1 << 16);
    let (tx, _rx) = tokio::sync::watch::channel(false);
    let link = Arc::new(Link { cut_tx: tx, cut: AtomicBool::new(false), bytes: [AtomicU64::new(0), AtomicU64::new(0)], cut_after: [AtomicU64::new(cut_after[0]), AtomicU64::new(cut_after[1])] });
    let (ra_r, ra_w) = tokio::io::split(ra);
    let (rb_r, rb_w) = tokio::io::split(rb);
    tokio::spawn(pump(ra_r, rb_w, link.clone(), 0, p.fork(), max_chunk, delay_pct, max_delay_ms));
    tokio::spawn(pump(rb_r, ra_w, link.clone(), 1, p.fork(), max_chunk, delay_pct, max_delay_ms));
    (a_end, b_end, link)
}

// ------------------------------------------------------------------ scenario plumbing

struct Target {
    uid: u64,
    actor: ActorRef<RMsg>,
    handle: Option<tokio::task::JoinHandle<()>>,
    log: Arc<Mutex<Vec<Rec>>>,
    pid: u64,
    stopped: bool,
}

#[derive(Clone, Debug)]
enum Outcome1 {
    Success(u64),
    Timeout,
    SenderError,
    SendFailed,
    Abandoned,
    Pending,
}

#[derive(Clone, Debug)]
struct CallRec {
    lane: u64,
    seq: u64,
    target: usize,
    mode: u8,
    long_wait: bool, // the caller waits long enough for any reply to arrive
    outcome: Outcome1,
}

#[derive(Clone, Debug)]
struct SentRec {
    lane: u64,
    seq: u64,
    variant: u8,
    digest: u64,
}

struct Node {
    server: ActorRef<NodeServerMessage>,
    handle: tokio::task::JoinHandle<()>,
    events: Arc<Events>,
}

async fn spawn_node(name: &str, tag: &str) -> Node {
    let server = ractor_cluster::NodeServer::new(0, COOKIE.to_string(), name.to_string(), format!("host-{tag}"), None, Some(ractor_cluster::node::NodeConnectionMode::Isolated));
    let (node, h) = Actor::spawn(None, server, ()).await.expect("node server");
    let ev = Arc::new(Events::default());
    let _ = node.cast(NodeServerMessage::SubscribeToEvents { id: "c20".into(), subscription: Box::new(Sub(ev.clone())) });
    Node { server: node, handle: h, events: ev }
}

pub fn proxies_of(session: &ActorRef<NodeSessionMessage>) -> Vec<ActorCell> {
    session.get_cell().get_children().into_iter().filter(|c| !c.get_id().is_local()).collect()
}
pub fn find_proxy(session: &ActorRef<NodeSessionMessage>, pid: u64) -> Option<ActorCell> {
    proxies_of(session).into_iter().find(|c| c.get_id().pid() == pid && c.get_status() == ActorStatus::Running)
}

async fn connect(a: &Node, b: &Node, p: &mut Prng, chaos: (u64, u64, u64), cut_after: [u64; 2], label: &str) -> Arc<Link> {
    let (a_end, b_end, link) = make_link(p, chaos.0, chaos.1, chaos.2, cut_after);
    let _ = ractor_cluster::client_connect_external(&a.server, Box::new(Duplex(a_end, label.to_string()))).await;
    let _ = b.server.cast(NodeServerMessage::ConnectionOpenedExternal { stream: Box::new(Duplex(b_end, label.to_string())), is_server: true });
    link
}

async fn wait_ready(a: &Node, b: &Node, want: usize) -> bool {
    for _ in 0..400 {
        if a.events.ready.lock().unwrap().len() >= want && b.events.ready.lock().unwrap().len() >= want {
            return true;
        }
        tokio::time::sleep(Duration::from_millis(25)).await;
    }
    false
}

fn group_pids(scope: &str, group: &str) -> (BTreeSet<u64>, BTreeMap<u64, BTreeSet<u64>>) {
    // (local remotable member pids, node_id -> proxy member pids)
    let mut local = BTreeSet::new();
    let mut remote: BTreeMap<u64, BTreeSet<u64>> = BTreeMap::new();
    for m in ractor::pg::get_scoped_members(&scope.to_string(), &group.to_string()) {
        match m.get_id() {
            ractor::ActorId::Local(pid) => {
                if m.supports_remoting() {
                    local.insert(pid);
                }
            }
            ractor::ActorId::Remote { node_id, pid } => {
                remote.entry(node_id).or_default().insert(pid);
            }
        }
    }
    (local, remote)
}

pub struct Out {
    pub violations: Vec<(String, String)>,
    pub nontrivial: bool,
    pub sig: u64,
    pub desc: Vec<String>,
    pub counters: HashMap<&'static str, u64>,
}

#[derive(Clone, Debug)]
enum Event {
    SpawnTarget { groups: Vec<usize> },
    Join { target: usize, group: usize },
    Leave { target: usize, group: usize },
    StopTarget { target: usize, kill: bool },
    Cut,
    /// one of A's proxies is stopped by hand through its cell: the hosting session cannot go on (it ends abnormally) and the link
    /// goes down with it; everything said about a lost connection applies, and a redial must give one working link again
    StopProxy,
}

#[derive(Clone, Debug)]
enum Op {
    Cast { named: bool },
    Call { v: bool, mode: u8, timeout_ms: Option<u64>, abandon_ms: Option<u64> },
    Burst { n: u64 },
    Sleep(u64),
}

async fn body(seed: u64) -> Out {
    let mut p = Prng::new(seed);
    let mut v: Vec<(String, String)> = vec![];
    let mut counters: HashMap<&'static str, u64> = HashMap::new();
    let tag = format!("{seed:x}");
    let a = spawn_node(&format!("a{tag}"), "a").await;
    let b = spawn_node(&format!("b{tag}"), "b").await;
    // advance B's session counter so that the proxy ids of the two sessions never coincide
    for i in 0..8 {
        let (x, y) = tokio::io::duplex(64);
        drop(x);
        let _ = b.server.cast(NodeServerMessage::ConnectionOpenedExternal { stream: Box::new(Duplex(y, format!("junk-{i}"))), is_server: true });
    }
    vt::quiesce(1).await;
    let junk_sessions = b.events.opened.lock().unwrap().len();

    // ---- plan
    let groups: Vec<(String, String)> = vec![
        ("c20s".to_string(), format!("g0-{tag}")),
        ("c20s".to_string(), format!("g1-{tag}")),
        (ractor::pg::DEFAULT_SCOPE.to_string(), format!("g2-{tag}")),
    ];
    let chaos = match p.below(4) {
        0 => (1 << 14, 0, 1),             // clean
        1 => (1 + p.below(8), 2, 3),     // tiny fragments
        2 => (1 + p.below(200), 40, 20),  // delays
        _ => (1 + p.below(2000), 20, 60), // long delays
    };
    let faulty = p.chance(1, 2);
    let with_cut = faulty && p.chance(1, 2);
    let cut_by_bytes = with_cut && p.chance(1, 2);
    let reconnect = with_cut && p.chance(1, 2);
    let cut_after = if cut_by_bytes {
        let mut c = [u64::MAX, u64::MAX];
        c[p.below(2) as usize] = 300 + p.below(6000);
        c
    } else {
        [u64::MAX, u64::MAX]
    };
    let n_initial = p.range(1, 3) as usize;
    let mut targets: Vec<Target> = vec![];
    let mut next_uid = 1u64;
    let mut desc = vec![format!("chaos(max_chunk,delay%,max_delay_ms)={chaos:?} faulty={faulty} cut={with_cut} cut_after={:?} reconnect={reconnect}", if cut_by_bytes { Some(cut_after) } else { None })];

    // start_ms > 0: the reference exists at once (spawn_instant) while pre_start takes that long
    let spawn_target = |uid: u64, named: bool, start_ms: u64| {
        let tag = tag.clone();
        async move {
            let log = Arc::new(Mutex::new(vec![]));
            let name = if named { Some(format!("c20-{tag}-{uid}")) } else { None };
            if start_ms > 0 {
                let (actor, outer) = ractor::ActorRuntime::<RActor>::spawn_instant(name, RActor { uid, log: log.clone(), start_ms }, ()).expect("target");
                let handle = tokio::spawn(async move {
                    if let Ok(Ok(inner)) = outer.await {
                        let _ = inner.await;
                    }
                });
                let pid = actor.get_id().pid();
                return Target { uid, actor, handle: Some(handle), log, pid, stopped: false };
            }
            let (actor, handle) = Actor::spawn(name, RActor { uid, log: log.clone(), start_ms: 0 }, ()).await.expect("target");
            let pid = actor.get_id().pid();
            Target { uid, actor, handle: Some(handle), log, pid, stopped: false }
        }
    };
    // some targets exist (and are grouped) before the link comes up, some only after
    for i in 0..n_initial {
        // now and then the first target is still in pre_start while the link authenticates and synchronises
        let start_ms = if i == 0 && p.chance(1, 3) { p.range(50, 2500) } else { 0 };
        let t = spawn_target(next_uid, p.chance(1, 2), start_ms).await;
        next_uid += 1;
        for (gi, (s, g)) in groups.iter().enumerate() {
            if p.chance(1, 2) || gi == 0 {
                ractor::pg::join_scoped(s.clone(), g.clone(), vec![t.actor.get_cell()]);
            }
        }
        targets.push(t);
    }
    let mut link = connect(&a, &b, &mut p, chaos, cut_after, "link-1").await;
    // group changes racing the handshake
    if p.chance(1, 2) {
        let t = &targets[0];
        ractor::pg::join_scoped(groups[1].0.clone(), groups[1].1.clone(), vec![t.actor.get_cell()]);
    }
    let ready = wait_ready(&a, &b, 1).await;
    if !ready {
        if link.cut.load(Ordering::SeqCst) {
            // the byte budget ran out during the handshake: nothing to observe about remote actors
            desc.push("link was cut before it became ready".into());
        } else {
            v.push(("not-ready".into(), "a single link between two nodes did not become ready within 10 virtual seconds".into()));
        }
    }
    let session_of = |n: &Node, idx_from_end: usize| -> Option<ActorRef<NodeSessionMessage>> {
        let o = n.events.opened.lock().unwrap();
        if o.len() > idx_from_end {
            Some(o[o.len() - 1 - idx_from_end].clone())
        } else {
            None
        }
    };
    let mut ses_a = session_of(&a, 0).expect("session a");
    let mut ses_b = session_of(&b, 0).expect("session b");
    if b.events.opened.lock().unwrap().len() != junk_sessions + 1 {
        v.push(("harness".into(), "unexpected session count on B".into()));
    }

    // mirror oracle, evaluated at quiescent points while the link is up
    let mirror = |when: &str, targets: &Vec<Target>, ses_a: &ActorRef<NodeSessionMessage>, ses_b: &ActorRef<NodeSessionMessage>, v: &mut Vec<(String, String)>| {
        let live: BTreeSet<u64> = targets.iter().filter(|t| !t.stopped && t.actor.get_status() == ActorStatus::Running).map(|t| t.pid).collect();
        for (who, ses) in [("A", ses_a), ("B", ses_b)] {
            let prox: BTreeSet<u64> = proxies_of(ses).iter().filter(|c| c.get_status() == ActorStatus::Running).map(|c| c.get_id().pid()).collect();
            if prox != live {
                v.push(("proxy-set".into(), format!("{when}: session on {who} hosts running proxies for pids {prox:?} but the live remotable actors are {live:?}")));
            }
            let node_id = match ses.get_cell().get_children().iter().find(|c| !c.get_id().is_local()).map(|c| c.get_id()) {
                Some(ractor::ActorId::Remote { node_id, .. }) => Some(node_id),
                _ => None,
            };
            for (s, g) in &groups {
                let (local, remote) = group_pids(s, g);
                let mine = node_id.and_then(|n| remote.get(&n).cloned()).unwrap_or_default();
                if mine != local {
                    v.push(("group-mirror".into(), format!("{when}: group {s}/{g} has local remotable members {local:?} but the proxies of the session on {who} in it are {mine:?}")));
                }
            }
        }
    };
    if ready {
        vt::quiesce(3).await;
        if !link.cut.load(Ordering::SeqCst) {
            mirror("after ready", &targets, &ses_a, &ses_b, &mut v);
        }
    }

    // ---- traffic + events
    let sent: Arc<Mutex<Vec<SentRec>>> = Arc::new(Mutex::new(vec![]));
    let calls: Arc<Mutex<Vec<CallRec>>> = Arc::new(Mutex::new(vec![]));
    let call_tasks: Arc<Mutex<Vec<tokio::task::JoinHandle<()>>>> = Arc::new(Mutex::new(vec![]));
    let lane_send_failed: Arc<Mutex<BTreeMap<u64, String>>> = Arc::new(Mutex::new(BTreeMap::new()));
    let mut lane_tasks = vec![];
    let mut lane_target: BTreeMap<u64, usize> = BTreeMap::new();
    let n_lanes = p.range(1, 5);
    let mut events: Vec<(u64, Event)> = vec![];
    if faulty {
        for _ in 0..p.range(1, 4) {
            let at = p.below(400);
            let e = match p.below(6) {
                0 => Event::SpawnTarget { groups: (0..3).filter(|_| p.chance(1, 2)).collect() },
                1 | 2 => Event::Join { target: p.below(4) as usize, group: p.below(3) as usize },
                3 => Event::Leave { target: p.below(4) as usize, group: p.below(3) as usize },
                _ => Event::StopTarget { target: p.below(4) as usize, kill: p.chance(1, 3) },
            };
            events.push((at, e));
        }
        if with_cut && !cut_by_bytes {
            events.push((p.below(400), if p.chance(1, 3) { Event::StopProxy } else { Event::Cut }));
        }
    } else if p.chance(1, 2) {
        // benign membership churn only
        for _ in 0..p.range(1, 3) {
            let e = if p.chance(1, 2) { Event::Join { target: p.below(4) as usize, group: p.below(3) as usize } } else { Event::Leave { target: p.below(4) as usize, group: p.below(3) as usize } };
            events.push((p.below(400), e));
        }
    }
    events.sort_by_key(|e| e.0);
    desc.push(format!("targets={} lanes={n_lanes} events={events:?}", targets.len()));

    let spawn_call = |cell: ActorCell, lane: u64, seq: u64, target: usize, v_variant: bool, mode: u8, timeout_ms: Option<u64>, abandon_ms: Option<u64>, calls: Arc<Mutex<Vec<CallRec>>>| {
        let long_wait = timeout_ms.map_or(true, |t| t >= 60_000) && abandon_ms.map_or(true, |t| t >= 60_000);
        let idx = {
            let mut c = calls.lock().unwrap();
            c.push(CallRec { lane, seq, target, mode, long_wait, outcome: Outcome1::Pending });
            c.len() - 1
        };
        tokio::spawn(async move {
            let r: ActorRef<RMsg> = cell.into();
            let timeout = timeout_ms.map(Duration::from_millis);
            let fut = async {
                if v_variant {
                    match r.call(|reply| RMsg::AskV { lane, reply, seq, mode }, timeout).await {
                        Ok(CallResult::Success(bytes)) => {
                            if bytes.len() == 8 {
                                let mut x = [0u8; 8];
                                x.copy_from_slice(&bytes);
                                Outcome1::Success(u64::from_be_bytes(x))
                            } else {
                                Outcome1::Success(0xDEAD)
                            }
                        }
                        Ok(CallResult::Timeout) => Outcome1::Timeout,
                        Ok(CallResult::SenderError) => Outcome1::SenderError,
                        Err(_) => Outcome1::SendFailed,
                    }
                } else {
                    match r.call(|reply| RMsg::Ask(lane, seq, mode, reply), timeout).await {
                        Ok(CallResult::Success(x)) => Outcome1::Success(x),
                        Ok(CallResult::Timeout) => Outcome1::Timeout,
                        Ok(CallResult::SenderError) => Outcome1::SenderError,
                        Err(_) => Outcome1::SendFailed,
                    }
                }
            };
            let out = match abandon_ms {
                Some(ms) => tokio::time::timeout(Duration::from_millis(ms), fut).await.unwrap_or(Outcome1::Abandoned),
                None => fut.await,
            };
            calls.lock().unwrap()[idx].outcome = out;
        })
    };

    if ready {
        for lane_i in 0..n_lanes {
            let lane = 1000 * (1 + lane_i) + p.below(900);
            let t_idx = p.below(targets.len() as u64) as usize;
            let via_a = p.chance(1, 2);
            lane_target.insert(lane, t_idx);
            let ses = if via_a { ses_a.clone() } else { ses_b.clone() };
            let pid = targets[t_idx].pid;
            let n_ops = p.range(1, 14);
            let mut ops = vec![];
            for _ in 0..n_ops {
                ops.push(match p.below(10) {
                    0..=3 => Op::Cast { named: p.chance(1, 3) },
                    4..=6 => {
                        let mode = *p.pick(&[0u8, 0, 0, 1, 1, 2, 3]);
                        let timeout_ms = *p.pick(&[None, Some(120_000), Some(60_000), Some(2), Some(30)]);
                        let abandon_ms = if timeout_ms.is_none() && mode >= 2 { Some(p.range(1, 300)) } else { *p.pick(&[None, None, Some(1), Some(20), Some(80_000)]) };
                        Op::Call { v: p.chance(1, 2), mode, timeout_ms, abandon_ms }
                    }
                    7 => Op::Burst { n: p.range(8, 48) },
                    _ => Op::Sleep(p.below(60)),
                });
            }
            let (sent, calls, call_tasks, failed) = (sent.clone(), calls.clone(), call_tasks.clone(), lane_send_failed.clone());
            let mut lp = p.fork();
            let start_delay = p.below(100);
            let spawn_call = spawn_call.clone();
            lane_tasks.push(tokio::spawn(async move {
                tokio::time::sleep(Duration::from_millis(start_delay)).await;
                let Some(cell) = find_proxy(&ses, pid) else {
                    failed.lock().unwrap().insert(lane, "no running proxy at lane start".into());
                    return;
                };
                let typed: ActorRef<RMsg> = cell.clone().into();
                let mut seq = 0u64;
                for op in ops {
                    match op {
                        Op::Sleep(ms) => tokio::time::sleep(Duration::from_millis(ms)).await,
                        Op::Cast { named } => {
                            seq += 1;
                            let (msg, variant, dg) = if named {
                                let t = text(lane, seq);
                                let d = digest(t.as_bytes());
                                (RMsg::Named { lane, seq, text: t }, 1, d)
                            } else {
                                let pl = payload(lane, seq);
                                let d = digest(&pl);
                                (RMsg::Note(lane, seq, pl), 0, d)
                            };
                            match typed.cast(msg) {
                                Ok(()) => sent.lock().unwrap().push(SentRec { lane, seq, variant, digest: dg }),
                                Err(e) => {
                                    failed.lock().unwrap().insert(lane, format!("cast seq {seq}: {e}"));
                                    return;
                                }
                            }
                        }
                        Op::Call { v, mode, timeout_ms, abandon_ms } => {
                            seq += 1;
                            if cell.get_status() != ActorStatus::Running {
                                failed.lock().unwrap().insert(lane, format!("proxy not running before call seq {seq}"));
                                return;
                            }
                            sent.lock().unwrap().push(SentRec { lane, seq, variant: if v { 3 } else { 2 }, digest: mode as u64 });
                            let h = spawn_call(cell.clone(), lane, seq, 0, v, mode, timeout_ms, abandon_ms, calls.clone());
                            call_tasks.lock().unwrap().push(h);
                            // the call's message is enqueued by the spawned task; keep lane order by letting it run first
                            tokio::task::yield_now().await;
                            tokio::task::yield_now().await;
                        }
                        Op::Burst { n } => {
                            // many outstanding calls: delayed replies, never-answered ones that are abandoned, then prompt ones
                            for k in 0..n {
                                seq += 1;
                                if cell.get_status() != ActorStatus::Running {
                                    failed.lock().unwrap().insert(lane, format!("proxy not running before call seq {seq}"));
                                    return;
                                }
                                let (mode, timeout_ms, abandon_ms) = match lp.below(5) {
                                    0 => (1u8, None, None),
                                    1 => (2u8, None, Some(1 + lp.below(10))),
                                    2 => (2u8, Some(1 + lp.below(10)), None),
                                    3 => (0u8, Some(120_000), None),
                                    _ => (1u8, Some(120_000), Some(80_000)),
                                };
                                let vv = k % 2 == 0;
                                sent.lock().unwrap().push(SentRec { lane, seq, variant: if vv { 3 } else { 2 }, digest: mode as u64 });
                                let h = spawn_call(cell.clone(), lane, seq, 0, vv, mode, timeout_ms, abandon_ms, calls.clone());
                                call_tasks.lock().unwrap().push(h);
                                tokio::task::yield_now().await;
                                tokio::task::yield_now().await;
                                if lp.chance(1, 6) {
                                    tokio::time::sleep(Duration::from_millis(lp.below(15))).await;
                                }
                            }
                        }
                    }
                }
            }));
        }
    }
    // events on the main task
    let mut now = 0u64;
    let mut cut_done = false;
    let mut stopped_pids: Vec<(u64, Vec<ActorCell>)> = vec![];
    for (at, e) in events.clone() {
        if at > now {
            tokio::time::sleep(Duration::from_millis(at - now)).await;
            now = at;
        }
        match e {
            Event::SpawnTarget { groups: gs } => {
                let t = spawn_target(next_uid, p.chance(1, 2), 0).await;
                next_uid += 1;
                for gi in gs {
                    ractor::pg::join_scoped(groups[gi].0.clone(), groups[gi].1.clone(), vec![t.actor.get_cell()]);
                }
                targets.push(t);
            }
            Event::Join { target, group } => {
                if let Some(t) = targets.get(target) {
                    if !t.stopped {
                        ractor::pg::join_scoped(groups[group].0.clone(), groups[group].1.clone(), vec![t.actor.get_cell()]);
                    }
                }
            }
            Event::Leave { target, group } => {
                if let Some(t) = targets.get(target) {
                    ractor::pg::leave_scoped(groups[group].0.clone(), groups[group].1.clone(), vec![t.actor.get_cell()]);
                }
            }
            Event::StopTarget { target, kill } => {
                if let Some(t) = targets.get_mut(target) {
                    if !t.stopped {
                        // remember this target's proxies to check what becomes of them
                        let mut prox = vec![];
                        for ses in [&ses_a, &ses_b] {
                            prox.extend(proxies_of(ses).into_iter().filter(|c| c.get_id().pid() == t.pid));
                        }
                        stopped_pids.push((t.pid, prox));
                        t.stopped = true;
                        if kill {
                            t.actor.kill();
                        } else {
                            t.actor.stop(None);
                        }
                    }
                }
            }
            Event::Cut => {
                link.cut_now();
                cut_done = true;
            }
            Event::StopProxy => {
                if let Some(px) = proxies_of(&ses_a).into_iter().find(|c| c.get_status() == ActorStatus::Running) {
                    px.stop(Some("stopped by hand".into()));
                    *counters.entry("proxies_stopped_by_hand").or_default() += 1;
                    // give the session the chance to notice on its own, then make sure the link is down either way
                    tokio::time::sleep(Duration::from_millis(p.below(20))).await;
                }
                link.cut_now();
                cut_done = true;
            }
        }
    }
    for t in lane_tasks {
        let _ = t.await;
    }
    vt::quiesce(150).await;
    let was_cut = link.cut.load(Ordering::SeqCst);
    let _ = cut_done;
    {
        let hs: Vec<_> = call_tasks.lock().unwrap().drain(..).collect();
        for h in hs {
            if !h.is_finished() {
                h.abort();
            }
            let _ = h.await;
        }
    }

    // ---- oracle: deliveries per lane
    let sent_all = sent.lock().unwrap().clone();
    let calls_all = calls.lock().unwrap().clone();
    let failed = lane_send_failed.lock().unwrap().clone();
    let mut delivered_total = 0u64;
    for (lane, t_idx) in &lane_target {
        let t = &targets[*t_idx];
        let got: Vec<Rec> = t.log.lock().unwrap().iter().filter(|r| r.lane == *lane).cloned().collect();
        let want: Vec<&SentRec> = sent_all.iter().filter(|s| s.lane == *lane).collect();
        delivered_total += got.len() as u64;
        // nobody else may have received this lane's messages
        for (oi, other) in targets.iter().enumerate() {
            if oi != *t_idx && other.log.lock().unwrap().iter().any(|r| r.lane == *lane) {
                v.push(("misdelivered".into(), format!("messages of lane {lane} addressed to target #{t_idx} (pid {}) were handled by target #{oi} (pid {})", t.pid, other.pid)));
            }
        }
        // prefix, in order, same variant and arguments
        for (i, g) in got.iter().enumerate() {
            match want.get(i) {
                Some(w) if w.seq == g.seq && w.variant == g.variant && w.digest == g.digest => {}
                Some(w) => {
                    let clause = if w.seq != g.seq { "order" } else { "corrupted" };
                    v.push((clause.into(), format!("lane {lane} -> target #{t_idx}: delivery #{i} is (variant {}, seq {}, digest {:x}) but the lane sent (variant {}, seq {}, digest {:x}); delivered seqs {:?}", g.variant, g.seq, g.digest, w.variant, w.seq, w.digest, got.iter().map(|r| r.seq).collect::<Vec<_>>())));
                    break;
                }
                None => {
                    v.push(("duplicate".into(), format!("lane {lane} -> target #{t_idx}: {} deliveries for {} sends; delivered seqs {:?}", got.len(), want.len(), got.iter().map(|r| r.seq).collect::<Vec<_>>())));
                    break;
                }
            }
        }
        let undisturbed = !was_cut && !t.stopped;
        if undisturbed && got.len() < want.len() {
            v.push(("lost".into(), format!("lane {lane} -> target #{t_idx}: {} of {} messages delivered although the link stayed up and the target is alive; delivered seqs {:?}", got.len(), want.len(), got.iter().map(|r| r.seq).collect::<Vec<_>>())));
        }
        if undisturbed {
            if let Some(why) = failed.get(lane) {
                v.push(("send-failed".into(), format!("lane {lane} -> target #{t_idx}: {why} although the link stayed up and the target is alive")));
            }
        }
    }
    *counters.entry("messages_sent").or_default() += sent_all.len() as u64;
    *counters.entry("messages_delivered").or_default() += delivered_total;
    // ---- oracle: calls
    let mut max_outstanding = 0u64;
    {
        let mut per_lane: BTreeMap<u64, u64> = BTreeMap::new();
        for c in &calls_all {
            *per_lane.entry(c.lane).or_default() += 1;
        }
        for n in per_lane.values() {
            max_outstanding = max_outstanding.max(*n);
        }
    }
    for c in &calls_all {
        let t_idx = lane_target[&c.lane];
        let t = &targets[t_idx];
        let key = match &c.outcome {
            Outcome1::Success(_) => "calls_success",
            Outcome1::Timeout => "calls_timeout",
            Outcome1::SenderError => "calls_sender_error",
            Outcome1::SendFailed => "calls_send_failed",
            Outcome1::Abandoned => "calls_abandoned",
            Outcome1::Pending => "calls_pending",
        };
        *counters.entry(key).or_default() += 1;
        if let Outcome1::Success(val) = &c.outcome {
            if c.mode >= 2 {
                v.push(("reply-from-nowhere".into(), format!("call lane {} seq {} (mode {} = never answered) returned Success({val:x})", c.lane, c.seq, c.mode)));
            } else if *val != reply_value(t.uid, c.lane, c.seq) {
                v.push(("reply-misrouted".into(), format!("call lane {} seq {} to target uid {} returned {val:x}, expected {:x} (the reply of another request?)", c.lane, c.seq, t.uid, reply_value(t.uid, c.lane, c.seq))));
            }
        } else if c.mode <= 1 && c.long_wait && !was_cut && !t.stopped && !failed.contains_key(&c.lane) {
            v.push(("reply-lost".into(), format!("call lane {} seq {} (mode {}) ended {:?} although the callee answers, the caller waits >= 60 s, the link stayed up and the target is alive", c.lane, c.seq, c.mode, c.outcome)));
        }
    }
    *counters.entry("calls_total").or_default() += calls_all.len() as u64;
    let e = counters.entry("max_calls_per_lane").or_default();
    *e = (*e).max(max_outstanding);

    // ---- oracle: lifecycle mirroring
    for (pid, prox) in &stopped_pids {
        for c in prox {
            if c.get_status() != ActorStatus::Stopped {
                v.push(("proxy-outlives-original".into(), format!("the original pid {pid} stopped, 150 s later its proxy {} is still {:?}", c.get_id(), c.get_status())));
            } else if ActorRef::<RMsg>::from(c.clone()).cast(RMsg::Note(0, 0, vec![])).is_ok() {
                v.push(("send-to-dead-proxy-ok".into(), format!("a cast to the stopped proxy {} succeeded", c.get_id())));
            }
        }
        for (s, g) in &groups {
            let (_l, remote) = group_pids(s, g);
            if remote.values().any(|set| set.contains(pid)) {
                v.push(("dead-proxy-in-group".into(), format!("the original pid {pid} stopped, but a proxy for it is still a member of {s}/{g}")));
            }
        }
    }
    if !was_cut && ready {
        mirror("after traffic", &targets, &ses_a, &ses_b, &mut v);
    }
    if was_cut {
        *counters.entry("cuts").or_default() += 1;
        // every proxy of the closed sessions is gone, in no group, and unusable
        for (who, ses) in [("A", &ses_a), ("B", &ses_b)] {
            if ses.get_status() != ActorStatus::Stopped {
                v.push(("session-survives-cut".into(), format!("the session on {who} is {:?} 150 s after the connection was lost", ses.get_status())));
            }
        }
        for (s, g) in &groups {
            let (_l, remote) = group_pids(s, g);
            if !remote.is_empty() {
                v.push(("proxy-in-group-after-close".into(), format!("after the connection was lost, group {s}/{g} still has remote members {remote:?}")));
            }
        }
        if reconnect {
            *counters.entry("reconnects").or_default() += 1;
            let ready_a0 = a.events.ready.lock().unwrap().len();
            let ready_b0 = b.events.ready.lock().unwrap().len();
            link = connect(&a, &b, &mut p, chaos, [u64::MAX, u64::MAX], "link-2").await;
            let ok = {
                let mut ok = false;
                for _ in 0..400 {
                    if a.events.ready.lock().unwrap().len() > ready_a0 && b.events.ready.lock().unwrap().len() > ready_b0 {
                        ok = true;
                        break;
                    }
                    tokio::time::sleep(Duration::from_millis(25)).await;
                }
                ok
            };
            if !ok {
                v.push(("not-ready".into(), "the replacement link did not become ready within 10 virtual seconds".into()));
            } else {
                ses_a = session_of(&a, 0).expect("session a2");
                ses_b = session_of(&b, 0).expect("session b2");
                vt::quiesce(5).await;
                mirror("after reconnect", &targets, &ses_a, &ses_b, &mut v);
                // one round trip through each new session
                if let Some(ti) = targets.iter().position(|t| !t.stopped) {
                    for (who, ses) in [("A", &ses_a), ("B", &ses_b)] {
                        if let Some(cell) = find_proxy(ses, targets[ti].pid) {
                            let lane = 900_000 + if who == "A" { 1 } else { 2 };
                            let r: ActorRef<RMsg> = cell.into();
                            match r.call(|reply| RMsg::Ask(lane, 1, 0, reply), Some(Duration::from_secs(10))).await {
                                Ok(CallResult::Success(x)) if x == reply_value(targets[ti].uid, lane, 1) => {}
                                other => {
                                    let what = match other {
                                        Ok(CallResult::Success(x)) => format!("Success({x:x})"),
                                        Ok(CallResult::Timeout) => "Timeout".to_string(),
                                        Ok(CallResult::SenderError) => "SenderError".to_string(),
                                        Err(e) => format!("send error {e}"),
                                    };
                                    v.push(("reply-lost".into(), format!("after reconnect a call through the new session on {who} ended {what}")));
                                }
                            }
                        }
                    }
                }
            }
        }
    }

    // ---- teardown: closing the sessions stops every proxy
    let all_proxies: Vec<ActorCell> = [&ses_a, &ses_b].iter().flat_map(|s| proxies_of(s)).collect();
    a.server.stop(None);
    b.server.stop(None);
    let _ = a.handle.await;
    let _ = b.handle.await;
    vt::quiesce(2).await;
    for c in &all_proxies {
        if c.get_status() != ActorStatus::Stopped {
            v.push(("proxy-outlives-session".into(), format!("proxy {} is {:?} after its node server and session stopped", c.get_id(), c.get_status())));
        } else if ActorRef::<RMsg>::from(c.clone()).cast(RMsg::Note(0, 0, vec![])).is_ok() {
            v.push(("send-to-dead-proxy-ok".into(), format!("a cast to the stopped proxy {} succeeded", c.get_id())));
        }
    }
    for (s, g) in &groups {
        let (_l, remote) = group_pids(s, g);
        if !remote.is_empty() {
            v.push(("proxy-in-group-after-close".into(), format!("after both node servers stopped, group {s}/{g} still has remote members {remote:?}")));
        }
    }
    link.cut_now();
    for t in targets.iter_mut() {
        t.actor.stop(None);
        if let Some(h) = t.handle.take() {
            let _ = h.await;
        }
    }
    vt::quiesce(1).await;
    let sig = hash_words(&[
        hash_str(&format!("{chaos:?}{events:?}")),
        n_lanes,
        targets.len() as u64,
        was_cut as u64,
        reconnect as u64,
        sent_all.len() as u64,
        calls_all.len() as u64,
    ]);
    Out { violations: v, nontrivial: ready && !sent_all.is_empty(), sig, desc, counters }
}

pub fn run(args: &Args, rep: &mut Report) {
    let seeds: Vec<u64> = match args.replay {
        Some(s) => vec![s],
        None => args.indices().map(|i| args.scenario_seed(i)).collect(),
    };
    for seed in seeds {
        crate::watch_begin(seed);
        let cell: Mutex<Option<Out>> = Mutex::new(None);
        let defer = *Prng::new(seed ^ 0x20).pick(&[0u64, 0, 20, 40]);
        let r = vt::run(seed, defer, async {
            let o = body(seed).await;
            *cell.lock().unwrap() = Some(o);
        });
        crate::watch_end();
        let got = cell.lock().unwrap().take();
        let mut o = got.unwrap_or(Out { violations: vec![], nontrivial: false, sig: 0, desc: vec![], counters: HashMap::new() });
        if r.is_none() {
            o.violations.push(("stuck".into(), "scenario pending at the virtual-time horizon".into()));
        }
        for l in vt::global_leaks() {
            o.violations.push(("leak".into(), l));
        }
        for (loc, msg) in crate::take_foreign_panics() {
            o.violations.push(("foreign-panic".into(), format!("{loc}: {msg}")));
        }
        rep.scenario(o.nontrivial, o.sig);
        for (k, n) in &o.counters {
            if *k == "max_calls_per_lane" {
                rep.max(k, *n);
            } else {
                rep.count(k, *n);
            }
        }
        if o.nontrivial && rep.samples.len() < 3 {
            rep.sample(J::obj().set("scenario_seed", format!("{seed}")).set("desc", o.desc.clone()));
        }
        for (clause, detail) in o.violations {
            rep.violation(Violation { signature: clause.clone(), clause, detail, scenario_seed: seed, scenario: o.desc.join("; "), trace: vec![] });
        }
    }
}
