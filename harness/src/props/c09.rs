//! C09 — every RPC completes and replies are never cross-wired.
//!
//! vt: callers x callee behaviours x timeouts x callee exits on one virtual-time grid, so that
//!     reply-time vs timeout boundaries are hit exactly; call / multi_call / call_and_forward.
//! th: many concurrent callers on real threads racing a stop/kill of the callee (cross-wiring and
//!     "never hangs" under parallelism).
use std::collections::{HashMap, HashSet};
use std::sync::Arc;
use std::time::Duration;

use ractor::rpc::CallResult;
use ractor::{Actor, ActorProcessingErr, ActorRef, RpcReplyPort};

use crate::json::J;
use crate::prng::{hash_words, mix, Prng};
use crate::report::{Report, Violation};
use crate::trace::{Ev, Rec, Trace};
use crate::{th, vt, Args};

#[derive(Clone, Copy, Debug, PartialEq, Eq)]
pub enum Beh {
    Now,
    After(u64),
    FromTask(u64),
    Drop,
    Keep,
}

pub enum CMsg {
    Call { id: u64, beh: Beh, reply: RpcReplyPort<u64> },
    /// tuple form of `Call`, as the `call!` / `call_t!` macros with arguments build it
    CallT(u64, Beh, RpcReplyPort<u64>),
    Panic,
}
#[cfg(feature = "cluster")]
impl ractor::Message for CMsg {}

/// The same request as a separate type, for calls through a `DerivedActorRef`
pub struct DCall {
    pub id: u64,
    pub beh: Beh,
    pub reply: RpcReplyPort<u64>,
}
#[cfg(feature = "cluster")]
impl ractor::Message for DCall {}
impl From<DCall> for CMsg {
    fn from(d: DCall) -> CMsg {
        CMsg::Call { id: d.id, beh: d.beh, reply: d.reply }
    }
}
impl TryFrom<CMsg> for DCall {
    type Error = ();
    fn try_from(m: CMsg) -> Result<DCall, ()> {
        match m {
            CMsg::Call { id, beh, reply } => Ok(DCall { id, beh, reply }),
            _ => Err(()),
        }
    }
}

pub struct FMsg(pub u64);
#[cfg(feature = "cluster")]
impl ractor::Message for FMsg {}

pub fn f(id: u64, idx: u64) -> u64 {
    mix(id.wrapping_mul(31).wrapping_add(idx))
}

pub struct Callee {
    pub idx: u64,
    pub trace: Arc<Trace>,
}
pub struct CalleeState {
    kept: Vec<RpcReplyPort<u64>>,
}

const CALLEE_CLIENT: u32 = 7000;

#[cfg_attr(feature = "alt", ractor::async_trait)]
impl Actor for Callee {
    type Msg = CMsg;
    type State = CalleeState;
    type Arguments = ();
    async fn pre_start(&self, _: ActorRef<CMsg>, _: ()) -> Result<CalleeState, ActorProcessingErr> {
        Ok(CalleeState { kept: vec![] })
    }
    async fn handle(&self, _me: ActorRef<CMsg>, msg: CMsg, st: &mut CalleeState) -> Result<(), ActorProcessingErr> {
        let msg = match msg {
            CMsg::CallT(id, beh, reply) => CMsg::Call { id, beh, reply },
            m => m,
        };
        match msg {
            CMsg::CallT(..) => unreachable!(),
            CMsg::Panic => panic!("{} callee panic", crate::probe::PANIC_MARK),
            CMsg::Call { id, beh, reply } => {
                let client = CALLEE_CLIENT + self.idx as u32;
                self.trace.log(Ev::Call { client, op: "dequeued", arg: id });
                let v = f(id, self.idx);
                match beh {
                    Beh::Now => {
                        self.trace.log(Ev::Call { client, op: "replying", arg: id });
                        let ok = reply.send(v).is_ok();
                        self.trace.log(Ev::Ret { client, op: "reply", arg: id, res: ok as i64 });
                    }
                    Beh::After(ms) => {
                        tokio::time::sleep(Duration::from_millis(ms)).await;
                        self.trace.log(Ev::Call { client, op: "replying", arg: id });
                        let ok = reply.send(v).is_ok();
                        self.trace.log(Ev::Ret { client, op: "reply", arg: id, res: ok as i64 });
                    }
                    Beh::FromTask(ms) => {
                        let tr = self.trace.clone();
                        tokio::spawn(async move {
                            tokio::time::sleep(Duration::from_millis(ms)).await;
                            // the attempt is logged BEFORE the send: the result record after it may trail the caller's return
                            // (this task can be pre-empted between the two), the attempt record cannot
                            tr.log(Ev::Call { client, op: "replying", arg: id });
                            let ok = reply.send(v).is_ok();
                            tr.log(Ev::Ret { client, op: "reply", arg: id, res: ok as i64 });
                        });
                    }
                    Beh::Drop => {
                        self.trace.log(Ev::Ret { client, op: "dropport", arg: id, res: 0 });
                        drop(reply);
                    }
                    Beh::Keep => {
                        self.trace.log(Ev::Ret { client, op: "keepport", arg: id, res: 0 });
                        st.kept.push(reply);
                    }
                }
            }
        }
        Ok(())
    }
}

pub struct Fwd {
    pub trace: Arc<Trace>,
}
#[cfg_attr(feature = "alt", ractor::async_trait)]
impl Actor for Fwd {
    type Msg = FMsg;
    type State = ();
    type Arguments = ();
    async fn pre_start(&self, _: ActorRef<FMsg>, _: ()) -> Result<(), ActorProcessingErr> {
        Ok(())
    }
    async fn handle(&self, _me: ActorRef<FMsg>, msg: FMsg, _: &mut ()) -> Result<(), ActorProcessingErr> {
        self.trace.log(Ev::Handled { uid: 99, sender: 0, seq: msg.0 });
        Ok(())
    }
}

/// result codes logged by callers: res = 1 Success (value in a following Note), 0 SenderError, 2 Timeout, -1 send failed
fn code<T>(r: &Result<CallResult<T>, ractor::MessagingErr<CMsg>>) -> i64 {
    match r {
        Ok(CallResult::Success(_)) => 1,
        Ok(CallResult::SenderError) => 0,
        Ok(CallResult::Timeout) => 2,
        Err(_) => -1,
    }
}

pub struct Outcome {
    pub violations: Vec<(String, String)>,
    pub recs: Vec<Rec>,
    pub nontrivial: bool,
    pub sig: u64,
    pub desc: Vec<String>,
    pub calls: u64,
}

#[derive(Clone, Debug)]
struct CallRec {
    id: u64,
    idx: u64,
    t0: u64,
    t1: u64,
    timeout: Option<u64>,
    code: i64,
    value: Option<u64>,
}

/// Offline consistency check between caller-side results and callee-side reply log.
fn check_calls(calls: &[CallRec], recs: &[Rec], exact_time: bool) -> Vec<(String, String)> {
    let mut v = vec![];
    // callee side: (id, idx) -> (reply sent ok?, time ms), dequeued?
    let mut reply: HashMap<(u64, u64), (bool, u64, u64)> = HashMap::new();
    let mut dequeued: HashMap<(u64, u64), u64> = HashMap::new();
    let mut replying: HashSet<(u64, u64)> = HashSet::new();
    for r in recs {
        match &r.ev {
            Ev::Call { client, op, arg } if *client >= CALLEE_CLIENT && *client < CALLEE_CLIENT + 100 && *op == "replying" => {
                replying.insert((*arg, (*client - CALLEE_CLIENT) as u64));
            }
            Ev::Ret { client, op, arg, res } if *client >= CALLEE_CLIENT && *client < CALLEE_CLIENT + 100 && *op == "reply" => {
                let idx = (*client - CALLEE_CLIENT) as u64;
                if reply.insert((*arg, idx), (*res == 1, r.ms, r.ts)).is_some() {
                    v.push(("double-reply".to_string(), format!("callee {idx} replied twice to call {arg}")));
                }
            }
            Ev::Call { client, op, arg } if *client >= CALLEE_CLIENT && *client < CALLEE_CLIENT + 100 && *op == "dequeued" => {
                let idx = (*client - CALLEE_CLIENT) as u64;
                if dequeued.insert((*arg, idx), r.ts).is_some() {
                    v.push(("duplicate-delivery".to_string(), format!("call {arg} was delivered twice to callee {idx}")));
                }
            }
            _ => {}
        }
    }
    for c in calls {
        let key = (c.id, c.idx);
        let rp = reply.get(&key);
        match c.code {
            1 => {
                let want = f(c.id, c.idx);
                if c.value != Some(want) {
                    v.push(("cross-wired".to_string(), format!("call {} to callee {} returned Success({:?}) but its reply value is {want}", c.id, c.idx, c.value)));
                }
                match rp {
                    Some((true, _, _)) => {}
                    None if replying.contains(&key) => {} // sent; the callee's own result record trails
                    other => v.push(("success-without-reply".to_string(), format!("call {} returned Success but the callee's reply log says {other:?}", c.id))),
                }
            }
            0 => {
                if let Some((true, ms, _)) = rp {
                    // the callee's send succeeded => the caller must not see SenderError
                    v.push(("reply-lost".to_string(), format!("call {} got SenderError although the callee sent its reply successfully at {ms}ms", c.id)));
                }
            }
            2 => {
                match c.timeout {
                    None => v.push(("timeout-without-timeout".to_string(), format!("call {} without a timeout returned Timeout", c.id))),
                    Some(t) => {
                        if exact_time && c.t1 != c.t0 + t {
                            v.push(("timeout-time".to_string(), format!("call {} issued at {}ms with timeout {t}ms reported Timeout at {}ms", c.id, c.t0, c.t1)));
                        }
                        if let Some((true, ms, _)) = rp {
                            if exact_time && *ms < c.t0 + t {
                                v.push(("timeout-but-replied".to_string(), format!("call {} timed out (deadline {}ms) although the reply was sent at {ms}ms", c.id, c.t0 + t)));
                            }
                        }
                    }
                }
            }
            _ => {
                if dequeued.contains_key(&key) {
                    v.push(("failed-send-delivered".to_string(), format!("call {} reported a failed send but the callee dequeued it", c.id)));
                }
            }
        }
        if let Some(t) = c.timeout {
            if exact_time && c.t1 > c.t0 + t {
                v.push(("late".to_string(), format!("call {} with timeout {t}ms issued at {}ms completed at {}ms", c.id, c.t0, c.t1)));
            }
        }
    }
    v
}

async fn vt_body(seed: u64, trace: Arc<Trace>) -> (Vec<String>, Vec<(String, String)>, u64, bool) {
    let mut p = Prng::new(seed);
    let mut v = vec![];
    let grid = [0u64, 1, 5, 10, 10, 20, 50];
    let ncallees = p.range(1, 3);
    let mut callees = vec![];
    for i in 0..ncallees {
        let (a, h) = Actor::spawn(Some(format!("c09-callee{i}-{seed:x}")), Callee { idx: i, trace: trace.clone() }, ()).await.expect("callee");
        callees.push((a, h));
    }
    let (fwd, fwd_h) = Actor::spawn(Some(format!("c09-fwd-{seed:x}")), Fwd { trace: trace.clone() }, ()).await.expect("fwd");
    let exit = if p.chance(1, 2) { Some((p.below(4), *p.pick(&grid) + p.below(2))) } else { None };
    let big = p.chance(1, 5);
    let ncallers = p.range(1, if big { 64 } else { 12 });
    let calls: Arc<std::sync::Mutex<Vec<CallRec>>> = Arc::new(std::sync::Mutex::new(vec![]));
    let fwd_expect: Arc<std::sync::Mutex<Vec<(u64, bool)>>> = Arc::new(std::sync::Mutex::new(vec![]));
    let mut tasks = vec![];
    let refs: Vec<ActorRef<CMsg>> = callees.iter().map(|c| c.0.clone()).collect();
    for c in 0..ncallers {
        let mut sp = p.fork();
        let (tr, refs, calls, fwd, fwd_expect) = (trace.clone(), refs.clone(), calls.clone(), fwd.clone(), fwd_expect.clone());
        let exit_planned = exit.is_some();
        tasks.push(vt::spawn_h(&format!("c09-caller{c}"), async move {
            let ncalls = sp.range(1, 3);
            for k in 0..ncalls {
                tokio::time::sleep(Duration::from_millis(*sp.pick(&grid))).await;
                let id = c * 100 + k;
                let timeout = if sp.chance(1, 2) { Some(*sp.pick(&[0u64, 1, 5, 10, 20, 50])) } else { None };
                let mut beh = match sp.below(10) {
                    0..=3 => Beh::Now,
                    4..=5 => Beh::After(*sp.pick(&[1u64, 5, 10, 20])),
                    6..=7 => Beh::FromTask(*sp.pick(&[1u64, 5, 10, 20])),
                    8 => Beh::Drop,
                    _ => Beh::Keep,
                };
                // a kept port only resolves through a timeout or the callee's exit
                if beh == Beh::Keep && timeout.is_none() && !exit_planned {
                    beh = Beh::Drop;
                }
                let to = timeout.map(Duration::from_millis);
                let api = sp.below(20);
                let t0 = tr.now_ms();
                tr.log(Ev::Call { client: c as u32, op: "call", arg: id });
                if api < 15 {
                    // the method, or the call!/call_t! macros (closure form and the form with arguments)
                    let via = sp.below(5);
                    let from_macro = |m: Result<u64, ractor::RactorErr<CMsg>>| -> Result<CallResult<u64>, ractor::MessagingErr<CMsg>> {
                        match m {
                            Ok(x) => Ok(CallResult::Success(x)),
                            Err(ractor::RactorErr::Timeout) => Ok(CallResult::Timeout),
                            Err(ractor::RactorErr::Messaging(ractor::MessagingErr::ChannelClosed)) => Ok(CallResult::SenderError),
                            Err(ractor::RactorErr::Messaging(e)) => Err(e),
                            Err(_) => Err(ractor::MessagingErr::InvalidActorType),
                        }
                    };
                    let callee = &refs[0];
                    let r = match (via, timeout) {
                        (1, Some(ms)) => from_macro(ractor::call_t!(callee, CMsg::CallT, ms, id, beh)),
                        (2, Some(ms)) => from_macro(ractor::call_t!(callee, |reply| CMsg::Call { id, beh, reply }, ms)),
                        (1, None) => from_macro(ractor::call!(callee, CMsg::CallT, id, beh)),
                        (2, None) => from_macro(ractor::call!(callee, |reply| CMsg::Call { id, beh, reply })),
                        (3, _) => {
                            // through a DerivedActorRef (its own call path)
                            let d = callee.get_derived::<DCall>();
                            match d.call(|reply| DCall { id, beh, reply }, to).await {
                                Ok(r) => Ok(r),
                                Err(ractor::MessagingErr::SendErr(m)) => Err(ractor::MessagingErr::SendErr(m.into())),
                                Err(ractor::MessagingErr::ChannelClosed) => Err(ractor::MessagingErr::ChannelClosed),
                                Err(ractor::MessagingErr::InvalidActorType) => Err(ractor::MessagingErr::InvalidActorType),
                            }
                        }
                        _ => callee.call(|reply| CMsg::Call { id, beh, reply }, to).await,
                    };
                    let t1 = tr.now_ms();
                    let value = if let Ok(CallResult::Success(x)) = &r { Some(*x) } else { None };
                    tr.log(Ev::Ret { client: c as u32, op: "call", arg: id, res: code(&r) });
                    calls.lock().unwrap().push(CallRec { id, idx: 0, t0, t1, timeout, code: code(&r), value });
                } else if api < 18 {
                    // multi_call: Keep would hang the un-timed variant when a non-exiting callee keeps the port
                    let beh = if beh == Beh::Keep && timeout.is_none() { Beh::Now } else { beh };
                    let r = ractor::rpc::multi_call(&refs, |reply| CMsg::Call { id, beh, reply }, to).await;
                    let t1 = tr.now_ms();
                    match r {
                        Ok(results) => {
                            if results.len() != refs.len() {
                                tr.online_violation("multi-call-len", format!("multi_call over {} actors returned {} results", refs.len(), results.len()));
                            }
                            for (i, cr) in results.into_iter().enumerate() {
                                let rr: Result<CallResult<u64>, ractor::MessagingErr<CMsg>> = Ok(cr);
                                let value = if let Ok(CallResult::Success(x)) = &rr { Some(*x) } else { None };
                                calls.lock().unwrap().push(CallRec { id, idx: i as u64, t0, t1, timeout, code: code(&rr), value });
                            }
                        }
                        Err(_) => {
                            // a send to one of the actors failed: nothing to check beyond "it returned"
                        }
                    }
                    tr.log(Ev::Ret { client: c as u32, op: "multicall", arg: id, res: 0 });
                } else {
                    let r = refs[0].call_and_forward(move |reply| CMsg::Call { id, beh, reply }, &fwd, move |v: u64| FMsg(v ^ 0x5555), to);
                    match r {
                        Ok(h) => {
                            let res = h.await;
                            let delivered = matches!(res, Ok(CallResult::Success(Ok(()))));
                            fwd_expect.lock().unwrap().push((f(id, 0) ^ 0x5555, delivered));
                            tr.log(Ev::Ret { client: c as u32, op: "forward", arg: id, res: delivered as i64 });
                        }
                        Err(_) => {
                            tr.log(Ev::Ret { client: c as u32, op: "forward", arg: id, res: -1 });
                        }
                    }
                }
            }
        }));
    }
    if let Some((kind, at)) = exit {
        let (a, tr) = (refs[0].clone(), trace.clone());
        tasks.push(vt::spawn_h("c09-exit", async move {
            tokio::time::sleep(Duration::from_millis(at)).await;
            tr.log(Ev::Call { client: 100, op: "exit", arg: kind });
            match kind {
                0 => a.stop(None),
                1 => a.kill(),
                2 => {
                    let _ = a.drain();
                }
                _ => {
                    let _ = a.cast(CMsg::Panic);
                }
            }
        }));
    }
    let desc = vec![format!("vt callees={ncallees} callers={ncallers} exit={exit:?}")];
    for t in tasks {
        if t.await.is_err() {
            v.push(("caller-task".to_string(), "a caller task panicked".to_string()));
        }
    }
    vt::quiesce(1).await;
    // forward target: exactly one delivery per successful forward, none otherwise
    let recs = trace.snapshot();
    for (val, delivered) in fwd_expect.lock().unwrap().iter() {
        let n = recs.iter().filter(|r| matches!(&r.ev, Ev::Handled { uid: 99, seq, .. } if seq == val)).count();
        let want = if *delivered { 1 } else { 0 };
        if n != want {
            v.push(("forward-count".to_string(), format!("forward target received the mapped reply {n} times, expected {want}")));
        }
    }
    let cs = calls.lock().unwrap().clone();
    v.extend(check_calls(&cs, &recs, true));
    let ncalls = cs.len() as u64;
    let boundary = cs.iter().any(|c| c.timeout.is_some()) || exit.is_some();
    for (a, h) in callees {
        a.stop(None);
        let _ = h.await;
    }
    fwd.stop(None);
    let _ = fwd_h.await;
    vt::quiesce(1).await;
    (desc, v, ncalls, boundary)
}

pub fn run_one_vt(seed: u64) -> Outcome {
    let mut pr = Prng::new(seed ^ 0x99);
    let defer = *pr.pick(&[0u64, 20]);
    let cell: std::sync::Mutex<Option<(Arc<Trace>, Vec<String>, Vec<(String, String)>, u64, bool)>> = std::sync::Mutex::new(None);
    let r = vt::run(seed, defer, async {
        let trace = Arc::new(Trace::new());
        let (d, v, n, b) = vt_body(seed, trace.clone()).await;
        *cell.lock().unwrap() = Some((trace, d, v, n, b));
    });
    let mut v = vec![];
    if r.is_none() {
        v.push(("call-hangs".to_string(), "a caller was still pending at the virtual-time horizon (an RPC never completed)".to_string()));
    }
    let got = cell.lock().unwrap().take();
    let (recs, desc, calls, boundary) = match got {
        Some((t, d, vv, n, b)) => {
            v.extend(vv);
            for (c, dd) in t.online_violations.lock().unwrap().iter() {
                v.push((c.clone(), dd.clone()));
            }
            (t.snapshot(), d, n, b)
        }
        None => (vec![], vec![], 0, false),
    };
    for l in vt::global_leaks() {
        v.push(("leak".into(), l));
    }
    for (loc, msg) in crate::take_foreign_panics() {
        v.push(("foreign-panic".into(), format!("{loc}: {msg}")));
    }
    let mut words = vec![];
    for r in &recs {
        if let Ev::Ret { op, res, .. } = &r.ev {
            if *op == "call" {
                words.push((*res + 2) as u64);
            }
        }
    }
    Outcome { violations: v, nontrivial: calls >= 2 && boundary, sig: hash_words(&words) ^ crate::prng::hash_str(desc.first().map(|s| s.as_str()).unwrap_or("")), recs, desc, calls }
}

pub fn run_one_th(seed: u64, rt: &tokio::runtime::Runtime) -> Outcome {
    let mut p = Prng::new(seed);
    let intensity = *p.pick(&[0u32, 30, 60]);
    th::begin(seed, intensity);
    let trace = Arc::new(Trace::new());
    let (callee, handle) = rt.block_on(Actor::spawn(Some(format!("c09t-{seed:x}")), Callee { idx: 0, trace: trace.clone() }, ())).expect("callee");
    let ncallers = p.range(2, 12);
    let per = p.range(1, 40);
    let kind = p.below(4);
    let delay = p.below(4000);
    let calls: Arc<std::sync::Mutex<Vec<CallRec>>> = Arc::new(std::sync::Mutex::new(vec![]));
    let hung: Arc<std::sync::Mutex<Vec<u64>>> = Arc::new(std::sync::Mutex::new(vec![]));
    let mut js = vec![];
    for c in 0..ncallers {
        let (a, tr, calls, hung, mut sp) = (callee.clone(), trace.clone(), calls.clone(), hung.clone(), p.fork());
        js.push(rt.spawn(async move {
            for k in 0..per {
                let id = c * 1000 + k;
                let beh = if sp.chance(1, 4) { Beh::FromTask(0) } else { Beh::Now };
                tr.log(Ev::Call { client: c as u32, op: "call", arg: id });
                // no ractor-level timeout: the outer wall-clock bound only guards the harness
                let r = tokio::time::timeout(Duration::from_secs(15), a.call(|reply| CMsg::Call { id, beh, reply }, None)).await;
                match r {
                    Ok(r) => {
                        let value = if let Ok(CallResult::Success(x)) = &r { Some(*x) } else { None };
                        tr.log(Ev::Ret { client: c as u32, op: "call", arg: id, res: code(&r) });
                        let cd = code(&r);
                        calls.lock().unwrap().push(CallRec { id, idx: 0, t0: 0, t1: 0, timeout: None, code: cd, value });
                        if cd != 1 {
                            break;
                        }
                    }
                    Err(_) => {
                        hung.lock().unwrap().push(id);
                        break;
                    }
                }
            }
        }));
    }
    let a = callee.clone();
    let killer = std::thread::spawn(move || {
        for _ in 0..delay * 50 {
            std::hint::spin_loop();
        }
        match kind {
            0 => a.stop(None),
            1 => a.kill(),
            2 => {
                let _ = a.drain();
            }
            _ => {
                let _ = a.cast(CMsg::Panic);
            }
        }
    });
    let _ = killer.join();
    rt.block_on(async {
        for j in js {
            let _ = j.await;
        }
    });
    let _ = rt.block_on(handle);
    th::end();
    let recs = trace.snapshot();
    let cs = calls.lock().unwrap().clone();
    let mut v = check_calls(&cs, &recs, false);
    for id in hung.lock().unwrap().iter() {
        let deq = recs.iter().any(|r| matches!(&r.ev, Ev::Call { client, op, arg } if *client == CALLEE_CLIENT && *op == "dequeued" && arg == id));
        v.push((
            "call-hangs-after-exit".to_string(),
            format!(
                "call {id} (no timeout) was still pending 15 s after being issued although the callee is {:?}; dequeued_by_callee={deq}",
                callee.get_status()
            ),
        ));
    }
    for (c, dd) in trace.online_violations.lock().unwrap().iter() {
        v.push((c.clone(), dd.clone()));
    }
    drop(callee);
    let _ = crate::th::settle_leaks();
    for l in vt::global_leaks() {
        v.push(("leak".into(), l));
    }
    for (loc, msg) in crate::take_foreign_panics() {
        v.push(("foreign-panic".into(), format!("{loc}: {msg}")));
    }
    let ok = cs.iter().filter(|c| c.code == 1).count() as u64;
    let err = cs.len() as u64 - ok;
    Outcome {
        violations: v,
        nontrivial: ok > 0 && err > 0,
        sig: hash_words(&[ncallers, ok.min(50), err, kind]),
        recs,
        desc: vec![format!("th callers={ncallers}x{per} exit kind={kind} delay={delay} intensity={intensity}")],
        calls: cs.len() as u64,
    }
}

pub fn run(args: &Args, rep: &mut Report) {
    let seeds: Vec<u64> = match args.replay {
        Some(s) => vec![s],
        None => args.indices().map(|i| args.scenario_seed(i)).collect(),
    };
    let rt = if args.engine == "th" { Some(th::runtime(4)) } else { None };
    for seed in seeds {
        crate::watch_begin(seed);
        let o = match &rt {
            Some(rt) => run_one_th(seed, rt),
            None => run_one_vt(seed),
        };
        crate::watch_end();
        rep.scenario(o.nontrivial, o.sig);
        rep.count("events_observed", o.recs.len() as u64);
        rep.count("calls_checked", o.calls);
        if o.nontrivial && rep.samples.len() < 3 {
            rep.sample(J::obj().set("scenario_seed", format!("{seed}")).set("desc", o.desc.clone()).set("history_excerpt", Trace::render(&o.recs, 16)));
        }
        for (clause, detail) in o.violations {
            let sig = if clause == "call-hangs-after-exit" && detail.contains("dequeued_by_callee=false") {
                "call-hangs-after-exit stranded-in-mailbox".to_string()
            } else {
                clause.clone()
            };
            rep.violation(Violation { signature: sig, clause, detail, scenario_seed: seed, scenario: o.desc.join("; "), trace: Trace::render(&o.recs, 60) });
        }
    }
}
