//! C02 — mailbox delivers accepted messages once, in order.
//!
//! History recorded at the client boundary (call stamp before `send`, ret stamp after its result);
//! every message carries a unique (sender, seq) and a drop token. Offline O(n log n) checker.
use std::collections::{HashMap, HashSet};
use std::sync::Arc;

use ractor::{ActorRef, MessagingErr};

use crate::json::J;
use crate::prng::{hash_words, Prng};
use crate::probe::*;
use crate::report::{Report, Violation};
use crate::trace::{Ev, Rec, Trace};
use crate::{th, vt, Args};

pub const WRONG_TYPE_CLIENT: u32 = 9000;

/// Perform one send through one of the public APIs, recording call/ret at the client boundary.
/// res: 1 = Ok, 0 = Err(SendErr(own message back)), -1 = Err(SendErr(other message!)), -2 = other error
pub fn do_send(trace: &Arc<Trace>, actor: &ActorRef<PMsg>, client: u32, seq: u64, script: Script, api: u64) -> i64 {
    let w = Work::new(trace, client, seq, script);
    trace.log(Ev::Call { client, op: "send", arg: seq });
    let r = match api % 5 {
        4 => {
            // through a derived reference (converter closure in front of the mailbox): a refused send hands the *derived* message back
            let d: ractor::DerivedActorRef<crate::probe::DWork> = actor.get_derived();
            match d.send_message(crate::probe::DWork(w)) {
                Ok(()) => Ok(()),
                Err(MessagingErr::SendErr(crate::probe::DWork(back))) => Err(MessagingErr::SendErr(PMsg::Work(back))),
                Err(MessagingErr::ChannelClosed) => Err(MessagingErr::ChannelClosed),
                Err(MessagingErr::InvalidActorType) => Err(MessagingErr::InvalidActorType),
            }
        }
        0 => actor.send_message(PMsg::Work(w)),
        1 => actor.cast(PMsg::Work(w)),
        2 => actor.get_cell().send_message::<PMsg>(PMsg::Work(w)),
        _ => {
            // call: the request is enqueued by the first poll of the future; the reply is of no interest here
            let a = actor.clone();
            let mut m = crate::th::Manual::new(async move { a.call(move |reply| PMsg::Call(w, reply), None).await });
            m.poll();
            match m.done.take() {
                None | Some(Ok(_)) => Ok(()),
                Some(Err(MessagingErr::SendErr(PMsg::Call(w, _)))) => Err(MessagingErr::SendErr(PMsg::Work(w))),
                Some(Err(MessagingErr::SendErr(other))) => Err(MessagingErr::SendErr(other)),
                Some(Err(MessagingErr::ChannelClosed)) => Err(MessagingErr::ChannelClosed),
                Some(Err(MessagingErr::InvalidActorType)) => Err(MessagingErr::InvalidActorType),
            }
        }
    };
    let res = match r {
        Ok(()) => 1,
        Err(MessagingErr::SendErr(PMsg::Work(back))) => {
            if back.sender == client && back.seq == seq {
                0
            } else {
                -1
            }
        }
        Err(_) => -2,
    };
    trace.log(Ev::Ret { client, op: "send", arg: seq, res });
    res
}

/// A do-nothing target for `call_and_forward`
pub struct Sink;
#[cfg_attr(feature = "alt", ractor::async_trait)]
impl ractor::Actor for Sink {
    type Msg = u64;
    type State = ();
    type Arguments = ();
    async fn pre_start(&self, _: ActorRef<u64>, _: ()) -> Result<(), ractor::ActorProcessingErr> {
        Ok(())
    }
}

/// `call_and_forward` as a send: the request must be enqueued (or refused) by the time the function returns.
pub fn do_forward_send(trace: &Arc<Trace>, actor: &ActorRef<PMsg>, sink: &ActorRef<u64>, client: u32, seq: u64, script: Script) -> i64 {
    let w = Work::new(trace, client, seq, script);
    trace.log(Ev::Call { client, op: "send", arg: seq });
    let r = actor.call_and_forward(move |reply| PMsg::Call(w, reply), sink, |v: u64| v, None);
    let res = match r {
        Ok(_handle) => 1,
        Err(MessagingErr::SendErr(PMsg::Call(back, _))) => {
            if back.sender == client && back.seq == seq {
                0
            } else {
                -1
            }
        }
        Err(_) => -2,
    };
    trace.log(Ev::Ret { client, op: "send", arg: seq, res });
    res
}

fn gen_script(p: &mut Prng, self_seq: &mut u64, fail_ok: bool) -> Script {
    let mut s = vec![];
    match p.below(20) {
        0..=9 => {}
        10..=12 => s.push(Step::Yield),
        13..=15 => {
            *self_seq += 1;
            s.push(Step::SendSelf { seq: *self_seq });
        }
        16 => {
            s.push(Step::Yield);
            *self_seq += 1;
            s.push(Step::SendSelf { seq: *self_seq });
            s.push(Step::Yield);
        }
        17 if fail_ok => s.push(if p.chance(1, 2) { Step::PanicString } else { Step::Err }),
        18 if fail_ok => s.push(Step::StopSelf),
        _ => s.push(Step::Yield),
    }
    s
}

pub struct Checked {
    pub violations: Vec<(String, String)>,
    pub nontrivial: bool,
    pub sig: u64,
    pub sends: u64,
    pub accepted: u64,
    pub handled: u64,
    pub late_drops: u64,
}

/// The offline checker. `exit_ts` = stamp taken after the actor's join handle completed.
pub fn check_history(recs: &[Rec], exit_ts: u64, strict_drop: bool) -> Checked {
    let mut late_drops = 0u64;
    let mut v = vec![];
    // per (client, seq): call ts, ret ts, res
    let mut call: HashMap<(u32, u64), u64> = HashMap::new();
    let mut ret: HashMap<(u32, u64), (u64, i64)> = HashMap::new();
    let mut handled_pos: HashMap<(u32, u64), usize> = HashMap::new();
    let mut dropped: HashMap<(u32, u64), u64> = HashMap::new();
    let mut pos = 0usize;
    for r in recs {
        match &r.ev {
            Ev::Call { client, op, arg } if *op == "send" => {
                call.insert((*client, *arg), r.ts);
            }
            Ev::Ret { client, op, arg, res } if *op == "send" => {
                ret.insert((*client, *arg), (r.ts, *res));
            }
            Ev::Handled { sender, seq, .. } => {
                pos += 1;
                if handled_pos.insert((*sender, *seq), pos).is_some() {
                    v.push(("duplicate".to_string(), format!("message ({sender},{seq}) handled twice (#{})", r.ts)));
                }
                if r.ts > exit_ts {
                    v.push(("handled-after-exit".to_string(), format!("message ({sender},{seq}) handled at #{} after the join handle completed (#{exit_ts})", r.ts)));
                }
            }
            Ev::Dropped { sender, seq, .. } => {
                dropped.insert((*sender, *seq), r.ts);
            }
            _ => {}
        }
    }
    let mut accepted = 0;
    for (k, (rts, res)) in &ret {
        match *res {
            1 => {
                accepted += 1;
                if !handled_pos.contains_key(k) {
                    // accepted but never handled: allowed only if the actor exited; the message must have been
                    // dropped (not leaked) by the time the join handle completed
                    match dropped.get(k) {
                        Some(d) if *d < exit_ts => {}
                        // E-T only: tokio's unbounded channel can strand a value pushed concurrently with the receiver's
                        // close+drain until the last sender handle is dropped; C02 does not forbid that (counted, not failed)
                        Some(_) if !strict_drop => late_drops += 1,
                        Some(d) => v.push(("leak".into(), format!("accepted message {k:?} dropped only at #{d}, after join completion #{exit_ts}"))),
                        None => v.push(("leak".into(), format!("accepted message {k:?} neither handled nor dropped by join completion"))),
                    }
                }
            }
            0 => {
                if handled_pos.contains_key(k) {
                    v.push(("rejected-but-handled".into(), format!("send {k:?} returned Err (ret #{rts}) but the message was handled")));
                }
            }
            -1 => v.push(("wrong-message-returned".into(), format!("send {k:?} returned SendErr carrying a different message"))),
            _ => v.push(("unexpected-error".into(), format!("send {k:?} returned an unexpected error kind"))),
        }
    }
    // real-time FIFO + no gaps: sweep boundary events in stamp order
    let mut evs: Vec<(u64, bool, (u32, u64))> = vec![]; // (ts, is_ret, key)
    for (k, c) in &call {
        evs.push((*c, false, *k));
    }
    for (k, (rts, res)) in &ret {
        if *res == 1 {
            evs.push((*rts, true, *k));
        }
    }
    evs.sort();
    let mut max_pos_completed: (usize, (u32, u64)) = (0, (0, 0));
    let mut unhandled_completed: Option<(u32, u64)> = None;
    let mut overlap = false;
    let mut open_calls: HashSet<(u32, u64)> = HashSet::new();
    for (_, is_ret, k) in &evs {
        if *is_ret {
            open_calls.remove(k);
            match handled_pos.get(k) {
                Some(p) => {
                    if *p > max_pos_completed.0 {
                        max_pos_completed = (*p, *k);
                    }
                }
                None => {
                    unhandled_completed.get_or_insert(*k);
                }
            }
        } else {
            if open_calls.iter().any(|o| o.0 != k.0) {
                overlap = true;
            }
            open_calls.insert(*k);
            if let Some(pb) = handled_pos.get(k) {
                if *pb < max_pos_completed.0 {
                    v.push((
                        "order".into(),
                        format!(
                            "send {:?} completed before send {k:?} began, yet {k:?} was handled at position {pb} before position {}",
                            max_pos_completed.1, max_pos_completed.0
                        ),
                    ));
                }
                if let Some(a) = unhandled_completed {
                    v.push(("gap".into(), format!("accepted send {a:?} completed before {k:?} began; {k:?} was handled but {a:?} never was")));
                }
            }
        }
    }
    // signature: number of handled, accepted, order of first 24 handled senders, exit mix
    let mut words: Vec<u64> = vec![accepted, handled_pos.len() as u64];
    let mut hp: Vec<_> = handled_pos.iter().collect();
    hp.sort_by_key(|(_, p)| **p);
    words.extend(hp.iter().take(32).map(|(k, _)| k.0 as u64));
    let clients: HashSet<u32> = call.keys().map(|k| k.0).filter(|c| *c != u32::MAX).collect();
    Checked {
        violations: v,
        nontrivial: clients.len() >= 2 && (overlap || accepted < ret.len() as u64),
        sig: hash_words(&words),
        sends: ret.len() as u64,
        accepted,
        handled: handled_pos.len() as u64,
        late_drops,
    }
}

struct Plan {
    fail_ok: bool,
    nsenders: u64,
    per: Vec<u64>,
    term: Option<(u8, u64)>, // kind, delay units
    wrong_type: bool,
}

fn plan(p: &mut Prng, max_senders: u64, max_msgs: u64) -> Plan {
    let nsenders = p.range(1, max_senders);
    let per = (0..nsenders).map(|_| p.range(1, max_msgs)).collect();
    let term = if p.chance(5, 10) { Some((p.below(3) as u8, p.below(200))) } else { None };
    Plan { fail_ok: p.chance(3, 10), nsenders, per, term, wrong_type: p.chance(1, 3) }
}

fn wrong_type_send(trace: &Arc<Trace>, actor: &ActorRef<PMsg>) {
    trace.log(Ev::Call { client: WRONG_TYPE_CLIENT, op: "wrongtype", arg: 0 });
    let r = actor.get_cell().send_message::<u64>(7u64);
    let res = match r {
        Err(MessagingErr::InvalidActorType) => 0,
        Ok(()) => 1,
        Err(_) => 2,
    };
    trace.log(Ev::Ret { client: WRONG_TYPE_CLIENT, op: "wrongtype", arg: 0, res });
    if res != 0 {
        trace.online_violation("wrong-type", format!("send_message::<u64> to a PMsg actor returned code {res} instead of InvalidActorType"));
    }
    // the same through a typed reference of the wrong type built from the cell: send_message, cast and call
    let wrong: ActorRef<u64> = actor.get_cell().into();
    for (api, r) in [("ActorRef::<u64>::send_message", wrong.send_message(8u64)), ("ActorRef::<u64>::cast", wrong.cast(9u64))] {
        if !matches!(r, Err(MessagingErr::InvalidActorType)) {
            trace.online_violation("wrong-type", format!("{api} to a PMsg actor returned {} instead of InvalidActorType", if r.is_ok() { "Ok" } else { "another error" }));
        }
    }
    let mut call = crate::th::Manual::new(async move { wrong.call(|_port: ractor::RpcReplyPort<u64>| 10u64, None).await });
    call.poll();
    match &call.done {
        Some(Err(MessagingErr::InvalidActorType)) => {}
        Some(Ok(_)) | Some(Err(_)) => trace.online_violation("wrong-type", "ActorRef::<u64>::call to a PMsg actor completed with something other than InvalidActorType".into()),
        None => trace.online_violation("wrong-type", "ActorRef::<u64>::call to a PMsg actor was accepted (the call is pending) instead of being rejected with InvalidActorType".into()),
    }
}

fn finish(seed: u64, trace: &Arc<Trace>, exit_ts: u64, desc: Vec<String>, rep: &mut Report, extra: Vec<(String, String)>, strict_drop: bool) {
    let recs = trace.snapshot();
    let mut c = check_history(&recs, exit_ts, strict_drop);
    rep.count("accepted_unhandled_dropped_after_exit", c.late_drops);
    c.violations.extend(extra);
    for (cl, d) in trace.online_violations.lock().unwrap().iter() {
        c.violations.push((cl.clone(), d.clone()));
    }
    for (loc, msg) in crate::take_foreign_panics() {
        c.violations.push(("foreign-panic".into(), format!("{loc}: {msg}")));
    }
    rep.scenario(c.nontrivial, c.sig);
    rep.count("sends", c.sends);
    rep.count("accepted", c.accepted);
    rep.count("handled", c.handled);
    rep.count("events_observed", recs.len() as u64);
    if c.nontrivial && rep.samples.len() < 3 {
        rep.sample(J::obj().set("scenario_seed", format!("{seed}")).set("desc", desc.clone()).set("history_excerpt", Trace::render(&recs, 30)));
    }
    for (clause, detail) in c.violations {
        rep.violation(Violation {
            signature: clause.clone(),
            clause,
            detail,
            scenario_seed: seed,
            scenario: desc.join("; "),
            trace: Trace::render(&recs, 80),
        });
    }
}

// ------------------------------------------------------------------ E-A

pub fn run_one_vt(seed: u64, rep: &mut Report) {
    let mut p = Prng::new(seed);
    let defer = *p.pick(&[0u64, 15, 40]);
    let cell: std::sync::Mutex<Option<(Arc<Trace>, u64, Vec<String>)>> = std::sync::Mutex::new(None);
    let r = vt::run(seed, defer, async {
        let trace = Arc::new(Trace::new());
        // one scenario in eight is 'deep': hundreds of messages queued at once (no yields between sends) while
        // supervision events (pg notifications) keep arriving, and nothing ends the actor early: every send must be handled
        let deep = seed % 8 == 3;
        let mut pl = plan(&mut p, 6, 10);
        if deep {
            pl.nsenders = p.range(2, 3);
            pl.per = (0..pl.nsenders).map(|_| p.range(150, 400)).collect();
            pl.term = None;
            pl.wrong_type = false;
            pl.fail_ok = false;
        }
        let mut desc = vec![format!("vt senders={} per={:?} term={:?} wrong_type={} defer={defer} deep={deep}", pl.nsenders, pl.per, pl.term, pl.wrong_type)];
        let mut spec = ProbeSpec::new(2, Some(format!("c02-{seed:x}")), trace.clone());
        let churn_group = format!("c02-churn-{seed:x}");
        if deep {
            spec.pre_start.push(Step::PgMonitor(churn_group.clone()));
        }
        let spec = Arc::new(spec);
        let (actor, handle) = spawn_probe(&spec, None).await.expect("spawn");
        let (sink, sink_h) = ractor::Actor::spawn(None, Sink, ()).await.expect("sink");
        let mut tasks = vec![];
        let mut churn_actor = None;
        if deep {
            let cspec = Arc::new(ProbeSpec::new(3, Some(format!("c02-churner-{seed:x}")), trace.clone()));
            let (c, ch) = spawn_probe(&cspec, None).await.expect("churner");
            let (cell, g, mut sp) = (c.get_cell(), churn_group.clone(), p.fork());
            tasks.push(vt::spawn_h("c02-churn", async move {
                for _ in 0..sp.range(100, 400) {
                    ractor::pg::join(g.clone(), vec![cell.clone()]);
                    tokio::task::yield_now().await;
                    ractor::pg::leave(g.clone(), vec![cell.clone()]);
                    for _ in 0..sp.below(3) {
                        tokio::task::yield_now().await;
                    }
                }
            }));
            churn_actor = Some((c, ch));
        }
        for s in 0..pl.nsenders {
            let (tr, a, mut sp, m, fail_ok) = (trace.clone(), actor.clone(), p.fork(), pl.per[s as usize], pl.fail_ok);
            let sink = sink.clone();
            tasks.push(vt::spawn_h(&format!("c02-s{s}"), async move {
                let mut self_seq = 1_000_000 * (s + 1);
                for j in 0..m {
                    if !deep {
                        for _ in 0..sp.below(3) {
                            tokio::task::yield_now().await;
                        }
                    }
                    let script = if deep { vec![] } else { gen_script(&mut sp, &mut self_seq, fail_ok) };
                    if sp.chance(1, 6) {
                        do_forward_send(&tr, &a, &sink, s as u32, j, script);
                    } else {
                        do_send(&tr, &a, s as u32, j, script, sp.below(5));
                    }
                }
            }));
        }
        if let Some((kind, delay)) = pl.term {
            let (tr, a) = (trace.clone(), actor.clone());
            tasks.push(vt::spawn_h("c02-term", async move {
                for _ in 0..(delay % 12) {
                    tokio::task::yield_now().await;
                }
                let op = ["stop", "kill", "drain"][kind as usize];
                tr.log(Ev::Call { client: 100, op, arg: 2 });
                match kind {
                    0 => a.stop(None),
                    1 => a.kill(),
                    _ => {
                        let _ = a.drain();
                    }
                }
                tr.log(Ev::Ret { client: 100, op, arg: 2, res: 0 });
            }));
        }
        if pl.wrong_type {
            let (tr, a) = (trace.clone(), actor.clone());
            tasks.push(vt::spawn_h("c02-wrong", async move {
                tokio::task::yield_now().await;
                wrong_type_send(&tr, &a);
            }));
        }
        for t in tasks {
            let _ = t.await;
        }
        // after the wrong-typed send the actor must still be serving: later traffic unaffected
        if pl.wrong_type && pl.term.is_none() {
            let before = trace.len();
            let res = do_send(&trace, &actor, 50, 0, vec![], 0);
            vt::settle().await;
            let handled = trace.snapshot().iter().skip(before).any(|r| matches!(r.ev, Ev::Handled { sender: 50, .. }));
            if res == 1 && !handled && actor.get_status() == ractor::ActorStatus::Running {
                trace.online_violation("wrong-type", "traffic after a wrong-typed send was not handled although the actor is running".into());
            }
        }
        if deep {
            // let the backlog be worked off before the actor is told to stop
            vt::quiesce(5).await;
        }
        actor.stop(None);
        let _ = handle.await;
        if let Some((c, ch)) = churn_actor {
            c.stop(None);
            let _ = ch.await;
        }
        sink.stop(None);
        let _ = sink_h.await;
        let exit_ts = crate::trace::stamp();
        vt::quiesce(2).await;
        desc.push(format!("final status {:?}", actor.get_status()));
        *cell.lock().unwrap() = Some((trace, exit_ts, desc));
    });
    let mut extra = vec![];
    if r.is_none() {
        extra.push(("stuck".to_string(), "scenario still pending at the virtual-time horizon".to_string()));
    }
    for l in vt::global_leaks() {
        extra.push(("leak-global".into(), l));
    }
    let got = cell.lock().unwrap().take();
    if let Some((trace, exit_ts, desc)) = got {
        finish(seed, &trace, exit_ts, desc, rep, extra, true);
    } else {
        rep.scenario(false, 0);
        for (c, d) in extra {
            rep.violation(Violation { clause: c.clone(), signature: c, detail: d, scenario_seed: seed, scenario: String::new(), trace: vec![] });
        }
    }
}

// ------------------------------------------------------------------ E-T

pub fn run_one_th(seed: u64, rt: &tokio::runtime::Runtime, rep: &mut Report) {
    let mut p = Prng::new(seed);
    let intensity = *p.pick(&[0u32, 20, 50, 80]);
    th::begin(seed, intensity);
    let trace = Arc::new(Trace::new());
    let pl = plan(&mut p, 8, 40);
    let mut desc = vec![format!("th senders={} per={:?} term={:?} wrong_type={} intensity={intensity}", pl.nsenders, pl.per, pl.term, pl.wrong_type)];
    let spec = Arc::new(ProbeSpec::new(2, Some(format!("c02t-{seed:x}")), trace.clone()));
    let (actor, handle) = rt.block_on(spawn_probe(&spec, None)).expect("spawn");
    let mut clients: Vec<Box<dyn FnOnce() + Send>> = vec![];
    for s in 0..pl.nsenders {
        let (tr, a, mut sp, m, fail_ok) = (trace.clone(), actor.clone(), p.fork(), pl.per[s as usize], pl.fail_ok);
        clients.push(Box::new(move || {
            let mut self_seq = 1_000_000 * (s + 1);
            for j in 0..m {
                let script = gen_script(&mut sp, &mut self_seq, fail_ok);
                do_send(&tr, &a, s as u32, j, script, sp.below(5));
                if sp.chance(1, 6) {
                    std::thread::yield_now();
                }
            }
        }));
    }
    if let Some((kind, delay)) = pl.term {
        let (tr, a) = (trace.clone(), actor.clone());
        clients.push(Box::new(move || {
            for _ in 0..delay * 40 {
                std::hint::spin_loop();
            }
            let op = ["stop", "kill", "drain"][kind as usize];
            tr.log(Ev::Call { client: 100, op, arg: 2 });
            match kind {
                0 => a.stop(None),
                1 => a.kill(),
                _ => {
                    let _ = a.drain();
                }
            }
            tr.log(Ev::Ret { client: 100, op, arg: 2, res: 0 });
        }));
    }
    if pl.wrong_type {
        let (tr, a) = (trace.clone(), actor.clone());
        clients.push(Box::new(move || wrong_type_send(&tr, &a)));
    }
    th::run_clients(clients);
    actor.stop(None);
    let jr = rt.block_on(handle);
    let exit_ts = crate::trace::stamp();
    th::end();
    let mut extra = vec![];
    if jr.is_err() {
        extra.push(("join".to_string(), format!("join handle returned {jr:?}")));
    }
    desc.push(format!("final status {:?}", actor.get_status()));
    drop(actor);
    // global tables must be clean once the only actor has exited
    for l in vt::global_leaks() {
        extra.push(("leak-global".into(), l));
    }
    finish(seed, &trace, exit_ts, desc, rep, extra, false);
}

pub fn run(args: &Args, rep: &mut Report) {
    let seeds: Vec<u64> = match args.replay {
        Some(s) => vec![s],
        None => args.indices().map(|i| args.scenario_seed(i)).collect(),
    };
    match args.engine.as_str() {
        "vt" => {
            for seed in seeds {
                crate::watch_begin(seed);
                run_one_vt(seed, rep);
                crate::watch_end();
            }
        }
        "th" => {
            let rt = th::runtime(3);
            for seed in seeds {
                crate::watch_begin(seed);
                run_one_th(seed, &rt, rep);
                crate::watch_end();
            }
        }
        e => panic!("engine {e} not supported by C02"),
    }
    let hits = crate::ctl::ctl().hit_snapshot();
    for (name, id) in [
        ("hits_send_after_status", ractor::verif::pt::SEND_AFTER_STATUS),
        ("hits_send_after_admit", ractor::verif::pt::SEND_AFTER_ADMIT),
        ("hits_send_after_enqueue", ractor::verif::pt::SEND_AFTER_ENQUEUE),
        ("hits_admit_before_cas", ractor::verif::pt::ADMIT_BEFORE_CAS),
    ] {
        rep.count(name, hits[id as usize]);
    }
}
