//! Engine "ser": delivery in **wire format** (`send_serialized`: serialized casts and calls, as a node session delivers
//! them) to live Send actors on the virtual-time engine, mixed with typed sends — for the lifecycle (C01), mailbox (C02)
//! and failure-reporting (C04) properties. The other workloads of these properties use a message type that cannot be
//! serialized, so the decode-then-dispatch path of `handle_message` was only driven by C19 (with handlers that never fail).
//!
//! Subject: an actor with a derived `RactorClusterMessage` enum (`Note` cast, `Ask` rpc). 1-3 sender tasks send 1-12
//! messages each as typed casts, serialized casts, typed calls, serialized calls with a live reply port, and serialized
//! calls whose reply port is **already closed** (the remote caller timed out before the frame was delivered) or is dropped
//! right after the send. At most one message carries a failure (panic / Err), on either path.
//!  C02: per-sender order; nothing handled twice; every send that returned Ok is handled exactly once when the actor
//!       lives (abandoned serialized calls included — the send was accepted, the actor is alive).
//!  C01: after the failing handler nothing else runs: no later handler, no post_stop.
//!  C04: the supervisor receives exactly one ActorFailed carrying the injected text; the actor is Stopped.
#![cfg(feature = "cluster")]
use std::sync::{Arc, Mutex};
use std::time::Duration;

use ractor::message::SerializedMessage;
use ractor::{Actor, ActorProcessingErr, ActorRef, ActorStatus, Message, RpcReplyPort, SupervisionEvent};
use ractor_cluster::RactorClusterMessage;

use crate::json::J;
use crate::prng::{hash_words, Prng};
use crate::probe::PANIC_MARK;
use crate::report::{Report, Violation};
use crate::{vt, Args};

#[derive(RactorClusterMessage)]
pub enum XMsg {
    Note(u64, u64, u8),
    #[rpc]
    Ask(u64, u64, u8, RpcReplyPort<u64>),
}

#[derive(Clone, Debug, PartialEq)]
pub enum XEv {
    PreStart,
    PostStart,
    Start(u64, u64),
    End(u64, u64),
    PostStop,
    Sup(String, String),
}

pub struct XActor {
    pub log: Arc<Mutex<Vec<XEv>>>,
}

pub fn ask_value(sender: u64, seq: u64) -> u64 {
    crate::prng::mix(sender.rotate_left(13) ^ seq ^ 0xa5)
}

impl Actor for XActor {
    type Msg = XMsg;
    type State = ();
    type Arguments = ();
    async fn pre_start(&self, _: ActorRef<XMsg>, _: ()) -> Result<(), ActorProcessingErr> {
        self.log.lock().unwrap().push(XEv::PreStart);
        Ok(())
    }
    async fn post_start(&self, _: ActorRef<XMsg>, _: &mut ()) -> Result<(), ActorProcessingErr> {
        self.log.lock().unwrap().push(XEv::PostStart);
        Ok(())
    }
    async fn post_stop(&self, _: ActorRef<XMsg>, _: &mut ()) -> Result<(), ActorProcessingErr> {
        self.log.lock().unwrap().push(XEv::PostStop);
        Ok(())
    }
    async fn handle(&self, _: ActorRef<XMsg>, m: XMsg, _: &mut ()) -> Result<(), ActorProcessingErr> {
        let (s, q, beh, port) = match m {
            XMsg::Note(s, q, b) => (s, q, b, None),
            XMsg::Ask(s, q, b, p) => (s, q, b, Some(p)),
        };
        self.log.lock().unwrap().push(XEv::Start(s, q));
        match beh {
            1 => panic!("{PANIC_MARK} ser panic {s}/{q}"),
            2 => return Err(format!("{PANIC_MARK} ser err {s}/{q}").into()),
            3 => {
                tokio::task::yield_now().await;
                tokio::time::sleep(Duration::from_millis(1)).await;
            }
            _ => {}
        }
        if let Some(p) = port {
            let _ = p.send(ask_value(s, q));
        }
        self.log.lock().unwrap().push(XEv::End(s, q));
        Ok(())
    }
}

pub struct XSup {
    pub log: Arc<Mutex<Vec<XEv>>>,
}
impl Actor for XSup {
    type Msg = ();
    type State = ();
    type Arguments = ();
    async fn pre_start(&self, _: ActorRef<()>, _: ()) -> Result<(), ActorProcessingErr> {
        Ok(())
    }
    async fn handle_supervisor_evt(&self, _: ActorRef<()>, e: SupervisionEvent, _: &mut ()) -> Result<(), ActorProcessingErr> {
        let ev = match &e {
            SupervisionEvent::ActorStarted(_) => XEv::Sup("started".into(), String::new()),
            SupervisionEvent::ActorTerminated(_, _, r) => XEv::Sup("terminated".into(), r.clone().unwrap_or_default()),
            SupervisionEvent::ActorFailed(_, err) => XEv::Sup("failed".into(), format!("{err}")),
            _ => XEv::Sup("other".into(), String::new()),
        };
        self.log.lock().unwrap().push(ev);
        Ok(())
    }
}

#[derive(Clone, Copy, Debug, PartialEq)]
enum Path {
    TypedCast,
    SerCast,
    TypedCall,
    SerCallLive,
    SerCallClosed,
    SerCallDropped,
}

struct Sent {
    sender: u64,
    seq: u64,
    path: Path,
    ok: bool,
    beh: u8,
}

struct Out {
    v: Vec<(&'static str, String, String)>,
    nontrivial: bool,
    sig: u64,
    sends: u64,
    desc: Vec<String>,
}

async fn body(seed: u64) -> Out {
    let mut p = Prng::new(seed);
    let mut v: Vec<(&'static str, String, String)> = vec![];
    let log = Arc::new(Mutex::new(vec![]));
    let suplog = Arc::new(Mutex::new(vec![]));
    let (sup, sup_h) = Actor::spawn(None, XSup { log: suplog.clone() }, ()).await.expect("sup");
    let (a, a_h) = Actor::spawn_linked(None, XActor { log: log.clone() }, (), sup.get_cell()).await.expect("subject");
    let ns = p.range(1, 3);
    // where the failure goes (if any)
    let fail = if p.chance(1, 2) { Some((p.below(ns), 1 + p.below(2) as u8)) } else { None };
    let sent: Arc<Mutex<Vec<Sent>>> = Arc::new(Mutex::new(vec![]));
    let replies_bad = Arc::new(Mutex::new(vec![]));
    let mut tasks = vec![];
    for s in 0..ns {
        let n = p.range(1, 12);
        let fail_at = match fail {
            Some((fs, beh)) if fs == s => Some((p.range(1, n), beh)),
            _ => None,
        };
        let mut q = p.fork();
        let (a, sent, replies_bad) = (a.clone(), sent.clone(), replies_bad.clone());
        tasks.push(vt::spawn_h(&format!("ser-sender-{s}"), async move {
            for seq in 1..=n {
                let beh = match fail_at {
                    Some((at, b)) if at == seq => b,
                    _ => {
                        if q.chance(1, 4) {
                            3
                        } else {
                            0
                        }
                    }
                };
                let path = *q.pick(&[Path::TypedCast, Path::SerCast, Path::SerCast, Path::TypedCall, Path::SerCallLive, Path::SerCallClosed, Path::SerCallClosed, Path::SerCallDropped]);
                let cell = a.get_cell();
                let ok = match path {
                    Path::TypedCast => a.cast(XMsg::Note(s, seq, beh)).is_ok(),
                    Path::SerCast => match XMsg::Note(s, seq, beh).serialize() {
                        Ok(m) => cell.send_serialized(m).is_ok(),
                        Err(_) => false,
                    },
                    Path::TypedCall => {
                        let r = a.call(|port| XMsg::Ask(s, seq, beh, port), Some(Duration::from_millis(500))).await;
                        match r {
                            Ok(ractor::rpc::CallResult::Success(x)) => {
                                if x != ask_value(s, seq) {
                                    replies_bad.lock().unwrap().push(format!("typed call {s}/{seq} got {x:x}"));
                                }
                                true
                            }
                            Ok(_) => true, // the message was accepted; the reply did not come (callee failed / exited)
                            Err(_) => false,
                        }
                    }
                    Path::SerCallLive | Path::SerCallClosed | Path::SerCallDropped => {
                        // build the wire form of an Ask: serialize a typed Ask, then swap in our own reply port
                        let (tx, rx) = ractor::concurrency::oneshot::<u64>();
                        let ser = XMsg::Ask(s, seq, beh, tx.into()).serialize();
                        match ser {
                            Ok(SerializedMessage::Call { variant, args, reply: _orig, metadata }) => {
                                let (btx, brx) = ractor::concurrency::oneshot::<Vec<u8>>();
                                let mut brx = Some(brx);
                                if path == Path::SerCallClosed {
                                    brx = None; // the caller is gone before the message is delivered
                                }
                                let ok = cell.send_serialized(SerializedMessage::Call { variant, args, reply: btx.into(), metadata }).is_ok();
                                drop(rx);
                                match (path, brx) {
                                    (Path::SerCallLive, Some(r)) => {
                                        if let Ok(Ok(bytes)) = tokio::time::timeout(Duration::from_millis(500), r).await {
                                            let x = <u64 as ractor::BytesConvertable>::from_bytes(bytes);
                                            if x != ask_value(s, seq) {
                                                replies_bad.lock().unwrap().push(format!("serialized call {s}/{seq} got {x:x}"));
                                            }
                                        }
                                    }
                                    (_, r) => drop(r),
                                }
                                ok
                            }
                            _ => false,
                        }
                    }
                };
                sent.lock().unwrap().push(Sent { sender: s, seq, path, ok, beh });
                if q.chance(1, 3) {
                    tokio::task::yield_now().await;
                }
            }
        }));
    }
    for t in tasks {
        let _ = t.await;
    }
    vt::quiesce(2).await;
    let failed = fail.is_some();
    if a.get_status() == ActorStatus::Running {
        a.stop(None);
    }
    let _ = a_h.await;
    vt::settle().await;
    // ---- oracles
    let lg = log.lock().unwrap().clone();
    let sl = suplog.lock().unwrap().clone();
    let sent = sent.lock().unwrap();
    let starts: Vec<(u64, u64)> = lg.iter().filter_map(|e| if let XEv::Start(s, q) = e { Some((*s, *q)) } else { None }).collect();
    // C02: per-sender order, no duplicates
    for s in 0..ns {
        let mine: Vec<u64> = starts.iter().filter(|x| x.0 == s).map(|x| x.1).collect();
        for w in mine.windows(2) {
            if w[1] <= w[0] {
                v.push(("C02", "order".into(), format!("sender {s}: seq {} handled after seq {} (typed and wire-format sends share one mailbox)", w[1], w[0])));
            }
        }
    }
    // the failing message, if it was reached
    let fail_pos = lg.iter().position(|e| matches!(e, XEv::Start(s, q) if sent.iter().any(|x| x.sender == *s && x.seq == *q && (x.beh == 1 || x.beh == 2))));
    match fail_pos {
        None => {
            // the actor lived until the final stop: every accepted send must have been handled exactly once
            for x in sent.iter().filter(|x| x.ok) {
                let n = starts.iter().filter(|y| **y == (x.sender, x.seq)).count();
                if n != 1 {
                    v.push(("C02", if n == 0 { "accepted-not-handled" } else { "handled-twice" }.into(), format!("sender {} seq {} sent via {:?} returned Ok and the actor stayed alive, but it was handled {n} times", x.sender, x.seq, x.path)));
                }
            }
            if lg.iter().filter(|e| **e == XEv::PostStop).count() != 1 {
                v.push(("C01", "post_stop-count".into(), format!("graceful stop: post_stop ran {} times", lg.iter().filter(|e| **e == XEv::PostStop).count())));
            }
        }
        Some(i) => {
            let after: Vec<&XEv> = lg[i + 1..].iter().collect();
            if after.iter().any(|e| matches!(e, XEv::Start(..))) {
                v.push(("C01", "handler-after-failure".into(), format!("a handler ran after the failing handler (delivered as {:?}): {:?}", sent.iter().find(|x| x.beh == 1 || x.beh == 2).map(|x| x.path), after)));
            }
            if after.iter().any(|e| **e == XEv::PostStop) {
                v.push(("C01", "post_stop-after-failure".into(), format!("post_stop ran after a handler panicked / returned Err (message delivered as {:?})", sent.iter().find(|x| x.beh == 1 || x.beh == 2).map(|x| x.path))));
            }
            let fails: Vec<&XEv> = sl.iter().filter(|e| matches!(e, XEv::Sup(k, _) if k == "failed")).collect();
            let terms = sl.iter().filter(|e| matches!(e, XEv::Sup(k, _) if k == "terminated")).count();
            if fails.len() != 1 || terms != 0 {
                v.push(("C04", "terminal-count".into(), format!("handler failure on a message delivered as {:?}: supervisor saw {} ActorFailed and {terms} ActorTerminated events", sent.iter().find(|x| x.beh == 1 || x.beh == 2).map(|x| x.path), fails.len())));
            } else if let XEv::Sup(_, text) = fails[0] {
                if !text.contains(PANIC_MARK) {
                    v.push(("C04", "failure-text".into(), format!("ActorFailed carries {text:?}, not the injected failure")));
                }
            }
        }
    }
    if a.get_status() != ActorStatus::Stopped {
        v.push(("C04", "not-stopped".into(), format!("the subject is {:?} after its join handle completed", a.get_status())));
    }
    for b in replies_bad.lock().unwrap().iter() {
        v.push(("C02", "reply-value".into(), b.clone()));
    }
    sup.stop(None);
    let _ = sup_h.await;
    let kinds: Vec<u64> = sent.iter().map(|x| x.path as u64).collect();
    Out {
        nontrivial: sent.iter().any(|x| matches!(x.path, Path::SerCast | Path::SerCallLive | Path::SerCallClosed | Path::SerCallDropped)),
        sig: hash_words(&[ns, failed as u64, fail_pos.is_some() as u64, hash_words(&kinds)]),
        sends: sent.len() as u64,
        desc: vec![format!("senders={ns} fail={fail:?} sends={:?}", sent.iter().map(|x| (x.sender, x.seq, x.path, x.ok, x.beh)).collect::<Vec<_>>())],
        v,
    }
}

pub fn run(args: &Args, rep: &mut Report) {
    for i in args.indices() {
        let seed = args.replay.unwrap_or_else(|| args.scenario_seed(i));
        crate::watch_begin(seed);
        let mut pr = Prng::new(seed ^ 0x5e7);
        let defer = *pr.pick(&[0u64, 20, 40]);
        let cell: Mutex<Option<Out>> = Mutex::new(None);
        let r = vt::run(seed, defer, async {
            let o = body(seed).await;
            *cell.lock().unwrap() = Some(o);
        });
        crate::watch_end();
        let out = cell.lock().unwrap().take();
        let mut problems: Vec<(String, String)> = vec![];
        let mut desc = vec![];
        match out {
            Some(o) => {
                rep.scenario(o.nontrivial, o.sig);
                rep.count("sends", o.sends);
                problems.extend(o.v.iter().filter(|(p, _, _)| *p == args.prop).map(|(_, c, d)| (c.clone(), d.clone())));
                rep.count("clauses_of_sibling_properties_seen", o.v.iter().filter(|(p, _, _)| *p != args.prop).count() as u64);
                desc = o.desc;
            }
            None => {
                if r.is_none() {
                    problems.push(("stuck".into(), "scenario pending at the virtual-time horizon".into()));
                }
            }
        }
        for l in vt::global_leaks() {
            problems.push(("leak".into(), l));
        }
        for (loc, msg) in crate::take_foreign_panics() {
            problems.push(("foreign-panic".into(), format!("{loc}: {msg}")));
        }
        if rep.samples.len() < 2 {
            rep.sample(J::obj().set("scenario_seed", format!("{seed}")).set("desc", desc.clone()));
        }
        for (clause, detail) in problems {
            rep.violation(Violation { clause: clause.clone(), detail, scenario_seed: seed, scenario: desc.join("; "), signature: clause, trace: vec![] });
        }
        if args.replay.is_some() {
            break;
        }
    }
}
