//! E-S "san": quiet stress scenarios for the sanitizer builds (ThreadSanitizer, AddressSanitizer + LeakSanitizer)
//! and, natively, as a cheap overlap / order smoke.
//!
//! The other engines stamp every client operation under one global trace mutex; under ThreadSanitizer that mutex
//! would order almost everything and hide races in the code under test (a monitor that synchronises becomes the
//! happens-before edge it is looking for). The scenarios here therefore keep *no* shared log: outcomes are counted
//! with `Relaxed` atomics (which create no happens-before edge for TSan) and the actors carry **canaries** — plain,
//! unsynchronised memory that is
//!   * written by the sender just before a send and read by the handler (message hand-over must be ordered),
//!   * read-modify-written by every callback of an actor (callbacks of one actor must be totally ordered by
//!     happens-before, whichever worker thread runs them; a thread-local actor's callbacks must stay on its thread),
//!   * written by a callee before replying and read by the caller after the reply (reply hand-over).
//! A missing edge is a ThreadSanitizer report naming `Canary::touch` / the payload access; a use-after-free or a
//! cell/queue leak is an AddressSanitizer / LeakSanitizer report. The driver counts and de-duplicates the reports.
//!
//! Families (chosen by property id):
//!   actor   (C01 C02 C03 C04 C07 C09): senders x {send_message, cast, call, call_t!} vs stop/kill/drain, failing handlers
//!   tree    (C05 C06 C08): spawn_linked / link / unlink / failing and cancelled spawns vs an exiting supervisor; waiters
//!   tables  (C10 C11): shared names, pid lookups, pg join/leave/monitor/queries vs exits
//!   timers  (C12): send_after / send_interval / exit_after / kill_after with aborts from other threads
//!   factory (C13 C14 C15): a real `Factory` with stock `Worker`s (the library's own worker glue), jobs from 3 threads,
//!           resizes, settings updates, worker kills, drain
//!   ports   (C16): `OutputPort::send` from two threads vs subscribe / subscriber exits
use std::cell::UnsafeCell;
use std::sync::atomic::{AtomicU64, Ordering::Relaxed};
use std::sync::{Arc, OnceLock};
use std::time::Duration;

use ractor::{Actor, ActorProcessingErr, ActorRef, RpcReplyPort, SupervisionEvent};

use crate::json::J;
use crate::prng::{hash_words, Prng};
use crate::probe::PANIC_MARK;
use crate::report::{Report, Violation};
use crate::{th, Args};

/// Plain shared memory touched by every callback of one actor.
pub struct Canary(UnsafeCell<[u64; 4]>);
// SAFETY (by the property under test): callbacks of one actor never overlap and are ordered by happens-before.
unsafe impl Sync for Canary {}
unsafe impl Send for Canary {}
impl Canary {
    fn new() -> Canary {
        Canary(UnsafeCell::new([0; 4]))
    }
    /// enter a callback: plain read-modify-write; returns true when another callback was active (logical overlap)
    #[inline(never)]
    fn enter(&self) -> bool {
        // SAFETY: see above; a violation of the property makes this a data race, which is what TSan is watching for
        let p = unsafe { &mut *self.0.get() };
        let busy = p[2] != 0;
        p[0] = p[0].wrapping_add(1);
        p[1] = p[0] ^ 0x5555;
        p[2] = 1;
        busy
    }
    #[inline(never)]
    fn exit(&self) {
        let p = unsafe { &mut *self.0.get() };
        p[3] = p[3].wrapping_add(1);
        p[2] = 0;
    }
}

#[derive(Default)]
pub struct Tally {
    pub handled: AtomicU64,
    pub order_bad: AtomicU64,
    pub payload_bad: AtomicU64,
    pub overlap: AtomicU64,
    pub sup_events: AtomicU64,
    pub started: AtomicU64,
    pub post_stops: AtomicU64,
    pub replies: AtomicU64,
    pub reply_bad: AtomicU64,
    pub thread_moved: AtomicU64,
}

pub struct QShared {
    canary: Canary,
    tally: Arc<Tally>,
    /// the OS thread a thread-local actor's first callback ran on (0 = not pinned / unknown)
    tl_thread: AtomicU64,
    pinned: bool,
}

impl QShared {
    fn new(tally: &Arc<Tally>, pinned: bool) -> Arc<QShared> {
        Arc::new(QShared { canary: Canary::new(), tally: tally.clone(), tl_thread: AtomicU64::new(0), pinned })
    }
    fn enter(&self) -> CbScope<'_> {
        if self.canary.enter() {
            self.tally.overlap.fetch_add(1, Relaxed);
        }
        if self.pinned {
            let me = thread_id_u64();
            let prev = self.tl_thread.swap(me, Relaxed);
            if prev != 0 && prev != me {
                self.tally.thread_moved.fetch_add(1, Relaxed);
            }
        }
        CbScope(self)
    }
}
struct CbScope<'a>(&'a QShared);
impl Drop for CbScope<'_> {
    fn drop(&mut self) {
        self.0.canary.exit();
    }
}

fn thread_id_u64() -> u64 {
    thread_local! { static ID: u64 = { static N: AtomicU64 = AtomicU64::new(1); N.fetch_add(1, Relaxed) }; }
    ID.with(|i| *i)
}

/// [sender, seq, sender ^ seq ^ MAGIC, spare] — written plainly by the sender right before the send
pub type Payload = Box<[u64; 4]>;
const MAGIC: u64 = 0x7a7a_1234_9876_0001;
fn payload(sender: u64, seq: u64) -> Payload {
    let mut b = Box::new([0u64; 4]);
    b[0] = sender;
    b[1] = seq;
    b[2] = sender ^ seq ^ MAGIC;
    b
}

pub enum QMsg {
    Work(Payload),
    /// reply with a boxed f(seq) written just before the reply
    Call(Payload, RpcReplyPort<Box<u64>>),
    /// 1 = panic, 2 = Err
    Fail(u8),
    Spin(u32),
    YieldN(u32),
    SpawnChild(Arc<QShared>),
    SelfSend(u64),
}
#[cfg(feature = "cluster")]
impl ractor::Message for QMsg {}

pub struct QState {
    last: [u64; 16],
    n: u64,
    children: Vec<ActorRef<QMsg>>,
}

fn reply_val(seq: u64) -> u64 {
    crate::prng::mix(seq ^ 0x77)
}

async fn q_handle(sh: &Arc<QShared>, myself: ActorRef<QMsg>, msg: QMsg, st: &mut QState) -> Result<(), ActorProcessingErr> {
    let _g = sh.enter();
    st.n += 1;
    match msg {
        QMsg::Work(b) | QMsg::Call(b, _) if b[2] != b[0] ^ b[1] ^ MAGIC => {
            sh.tally.payload_bad.fetch_add(1, Relaxed);
        }
        QMsg::Work(b) => {
            let s = (b[0] % 16) as usize;
            if b[1] <= st.last[s] {
                sh.tally.order_bad.fetch_add(1, Relaxed);
            }
            st.last[s] = b[1];
            sh.tally.handled.fetch_add(1, Relaxed);
        }
        QMsg::Call(b, port) => {
            let s = (b[0] % 16) as usize;
            if b[1] <= st.last[s] {
                sh.tally.order_bad.fetch_add(1, Relaxed);
            }
            st.last[s] = b[1];
            sh.tally.handled.fetch_add(1, Relaxed);
            if b[1] % 3 == 0 {
                tokio::task::yield_now().await;
            }
            let _ = port.send(Box::new(reply_val(b[1])));
        }
        QMsg::Fail(1) => panic!("{PANIC_MARK} san panic"),
        QMsg::Fail(_) => return Err(format!("{PANIC_MARK} san err").into()),
        QMsg::Spin(n) => {
            for _ in 0..n {
                std::hint::spin_loop();
            }
        }
        QMsg::YieldN(n) => {
            for _ in 0..n {
                tokio::task::yield_now().await;
            }
        }
        QMsg::SpawnChild(csh) => {
            if let Ok((c, _h)) = Actor::spawn_linked(None, QActor { sh: csh }, (), myself.get_cell()).await {
                st.children.push(c);
            }
        }
        QMsg::SelfSend(k) => {
            if k > 0 {
                let _ = myself.send_message(QMsg::SelfSend(k - 1));
            }
        }
    }
    Ok(())
}

pub struct QActor {
    sh: Arc<QShared>,
}

#[cfg_attr(feature = "alt", ractor::async_trait)]
impl Actor for QActor {
    type Msg = QMsg;
    type State = QState;
    type Arguments = ();
    async fn pre_start(&self, _m: ActorRef<QMsg>, _: ()) -> Result<QState, ActorProcessingErr> {
        let _g = self.sh.enter();
        tokio::task::yield_now().await;
        Ok(QState { last: [0; 16], n: 0, children: vec![] })
    }
    async fn post_start(&self, _m: ActorRef<QMsg>, _s: &mut QState) -> Result<(), ActorProcessingErr> {
        let _g = self.sh.enter();
        self.sh.tally.started.fetch_add(1, Relaxed);
        Ok(())
    }
    async fn post_stop(&self, _m: ActorRef<QMsg>, s: &mut QState) -> Result<(), ActorProcessingErr> {
        let _g = self.sh.enter();
        s.n += 1;
        tokio::task::yield_now().await;
        self.sh.tally.post_stops.fetch_add(1, Relaxed);
        Ok(())
    }
    async fn handle(&self, myself: ActorRef<QMsg>, msg: QMsg, st: &mut QState) -> Result<(), ActorProcessingErr> {
        q_handle(&self.sh, myself, msg, st).await
    }
    async fn handle_supervisor_evt(&self, _m: ActorRef<QMsg>, evt: SupervisionEvent, st: &mut QState) -> Result<(), ActorProcessingErr> {
        let _g = self.sh.enter();
        st.n += 1;
        self.sh.tally.sup_events.fetch_add(1, Relaxed);
        // look inside the event: a dead child's boxed state is handed over as plain memory
        if let SupervisionEvent::ActorTerminated(_, Some(mut bs), _) = evt {
            if let Ok(cs) = bs.take::<QState>() {
                st.n += cs.n;
            }
        }
        Ok(())
    }
}

/// thread-local flavour (own spawner thread)
#[derive(Default)]
pub struct QTl;
pub struct QTlState {
    sh: Arc<QShared>,
    st: QState,
}
impl ractor::thread_local::ThreadLocalActor for QTl {
    type Msg = QMsg;
    type State = QTlState;
    type Arguments = Arc<QShared>;
    async fn pre_start(&self, _m: ActorRef<QMsg>, sh: Arc<QShared>) -> Result<QTlState, ActorProcessingErr> {
        {
            let _g = sh.enter();
            tokio::task::yield_now().await;
        }
        Ok(QTlState { sh, st: QState { last: [0; 16], n: 0, children: vec![] } })
    }
    async fn post_start(&self, _m: ActorRef<QMsg>, s: &mut QTlState) -> Result<(), ActorProcessingErr> {
        let _g = s.sh.enter();
        s.sh.tally.started.fetch_add(1, Relaxed);
        Ok(())
    }
    async fn post_stop(&self, _m: ActorRef<QMsg>, s: &mut QTlState) -> Result<(), ActorProcessingErr> {
        let _g = s.sh.enter();
        s.sh.tally.post_stops.fetch_add(1, Relaxed);
        Ok(())
    }
    async fn handle(&self, myself: ActorRef<QMsg>, msg: QMsg, s: &mut QTlState) -> Result<(), ActorProcessingErr> {
        let sh = s.sh.clone();
        q_handle(&sh, myself, msg, &mut s.st).await
    }
    async fn handle_supervisor_evt(&self, _m: ActorRef<QMsg>, _evt: SupervisionEvent, s: &mut QTlState) -> Result<(), ActorProcessingErr> {
        let _g = s.sh.enter();
        s.sh.tally.sup_events.fetch_add(1, Relaxed);
        Ok(())
    }
}

fn tl_spawner() -> ractor::thread_local::ThreadLocalActorSpawner {
    static TL: OnceLock<ractor::thread_local::ThreadLocalActorSpawner> = OnceLock::new();
    TL.get_or_init(ractor::thread_local::ThreadLocalActorSpawner::new).clone()
}

fn rt() -> &'static tokio::runtime::Runtime {
    static RT: OnceLock<tokio::runtime::Runtime> = OnceLock::new();
    RT.get_or_init(|| th::runtime(4))
}

type Client = Box<dyn FnOnce() -> u64 + Send>;

fn spin(n: u64) {
    for _ in 0..n {
        std::hint::spin_loop();
    }
}

struct Out {
    nontrivial: bool,
    sig: u64,
    ops: u64,
    problems: Vec<(String, String)>,
    inconclusive: Option<String>,
}

async fn join_all(hs: Vec<ractor::concurrency::JoinHandle<()>>) -> bool {
    for h in hs {
        if tokio::time::timeout(Duration::from_secs(40), h).await.is_err() {
            return false;
        }
    }
    true
}

// ------------------------------------------------------------------------------------------------ family: actor

fn fam_actor(seed: u64, tally: &Arc<Tally>) -> Out {
    let mut p = Prng::new(seed);
    let tl = p.below(4) == 0;
    let nsend = 2 + p.below(3);
    let per = 4 + p.below(28);
    let term = p.below(6); // 0 none (stop at end), 1 stop, 2 kill, 3 drain, 4 stop_and_wait, 5 fail message
    let sup_sh = QShared::new(tally, false);
    let sub_sh = QShared::new(tally, tl);
    // one spawner thread for the whole process (like C10): creating and dropping a spawner per scenario makes LeakSanitizer report
    // the spawner's own channel now and then (seen at the thorough tier only; the spawner's lifetime is outside the 20 properties, §8)
    let spawner = if tl { Some(tl_spawner()) } else { None };
    let r = rt().block_on(async {
        let (sup, sh) = Actor::spawn(None, QActor { sh: sup_sh.clone() }, ()).await.ok()?;
        let (sub, h) = if let Some(sp) = &spawner {
            use ractor::thread_local::ThreadLocalActor;
            QTl::spawn_linked(None, sub_sh.clone(), sup.get_cell(), sp.clone()).await.ok()?
        } else {
            Actor::spawn_linked(None, QActor { sh: sub_sh.clone() }, (), sup.get_cell()).await.ok()?
        };
        Some((sup, sh, sub, h))
    });
    let Some((sup, sup_h, sub, sub_h)) = r else {
        return Out { nontrivial: false, sig: 0, ops: 0, problems: vec![], inconclusive: Some("spawn failed".into()) };
    };
    let mut clients: Vec<Client> = vec![];
    for s in 0..nsend {
        let a = sub.clone();
        let mut q = Prng::new(seed ^ (s + 1).wrapping_mul(0x9e3779b97f4a7c15));
        let tally = tally.clone();
        clients.push(Box::new(move || {
            let mut ok = 0;
            for i in 1..=per {
                match q.below(10) {
                    0..=3 => ok += a.send_message(QMsg::Work(payload(s, i))).is_ok() as u64,
                    4..=5 => ok += a.cast(QMsg::Work(payload(s, i))).is_ok() as u64,
                    6 => ok += a.get_cell().send_message::<QMsg>(QMsg::Work(payload(s, i))).is_ok() as u64,
                    7 => {
                        let b = payload(s, i);
                        let r = rt().block_on(a.call(move |port| QMsg::Call(b, port), Some(Duration::from_millis(200))));
                        if let Ok(ractor::rpc::CallResult::Success(v)) = r {
                            ok += 1;
                            tally.replies.fetch_add(1, Relaxed);
                            if *v != reply_val(i) {
                                tally.reply_bad.fetch_add(1, Relaxed);
                            }
                        }
                    }
                    8 => {
                        let b = payload(s, i);
                        let r: Result<Box<u64>, _> = rt().block_on(async { ractor::call_t!(a, QMsg::Call, 200, b) });
                        if let Ok(v) = r {
                            ok += 1;
                            tally.replies.fetch_add(1, Relaxed);
                            if *v != reply_val(i) {
                                tally.reply_bad.fetch_add(1, Relaxed);
                            }
                        }
                    }
                    _ => {
                        let _ = a.send_message(match q.below(4) {
                            0 => QMsg::Spin(q.below(3000) as u32),
                            1 => QMsg::YieldN(q.below(4) as u32),
                            2 => QMsg::SelfSend(q.below(4)),
                            _ => QMsg::SpawnChild(QShared::new(&tally, false)),
                        });
                        // keep the per-sender sequence strictly increasing for the next Work
                    }
                }
                if q.below(4) == 0 {
                    spin(q.below(4000));
                }
            }
            ok
        }));
    }
    if term != 0 {
        let a = sub.clone();
        let mut q = Prng::new(seed ^ 0x7e57);
        clients.push(Box::new(move || {
            spin(q.below(60_000));
            match term {
                1 => a.stop(Some("san".into())),
                2 => a.kill(),
                3 => {
                    let _ = a.drain();
                }
                4 => {
                    let _ = rt().block_on(a.stop_and_wait(None, Some(Duration::from_secs(30))));
                }
                _ => {
                    let _ = a.send_message(QMsg::Fail(1 + q.below(2) as u8));
                }
            }
            0
        }));
    }
    let oks: u64 = th::run_clients(clients).into_iter().sum();
    sub.stop(None);
    let joined = rt().block_on(async {
        let a = join_all(vec![sub_h]).await;
        sup.stop(None);
        a && join_all(vec![sup_h]).await
    });
    drop(spawner);
    if !joined {
        return Out { nontrivial: false, sig: 0, ops: oks, problems: vec![], inconclusive: Some("actor did not stop within 40 s wall".into()) };
    }
    Out { nontrivial: nsend >= 2, sig: hash_words(&[tl as u64, nsend, per.min(8), term, (oks > 0) as u64]), ops: oks, problems: vec![], inconclusive: None }
}

// ------------------------------------------------------------------------------------------------ family: tree

pub struct FailingStart {
    sh: Arc<QShared>,
    mode: u8,
}
#[cfg_attr(feature = "alt", ractor::async_trait)]
impl Actor for FailingStart {
    type Msg = QMsg;
    type State = ();
    type Arguments = ();
    async fn pre_start(&self, m: ActorRef<QMsg>, _: ()) -> Result<(), ActorProcessingErr> {
        let _g = self.sh.enter();
        ractor::pg::join("san-failing".to_string(), vec![m.get_cell()]);
        tokio::task::yield_now().await;
        match self.mode {
            0 => Err(format!("{PANIC_MARK} pre_start err").into()),
            1 => panic!("{PANIC_MARK} pre_start panic"),
            _ => {
                tokio::time::sleep(Duration::from_millis(30)).await;
                Ok(())
            }
        }
    }
}

fn fam_tree(seed: u64, tally: &Arc<Tally>) -> Out {
    let mut p = Prng::new(seed);
    let root_sh = QShared::new(tally, false);
    let mid_sh = QShared::new(tally, false);
    let r = rt().block_on(async {
        let (root, rh) = Actor::spawn(None, QActor { sh: root_sh.clone() }, ()).await.ok()?;
        let (mid, mh) = Actor::spawn_linked(None, QActor { sh: mid_sh.clone() }, (), root.get_cell()).await.ok()?;
        Some((root, rh, mid, mh))
    });
    let Some((root, rh, mid, mh)) = r else {
        return Out { nontrivial: false, sig: 0, ops: 0, problems: vec![], inconclusive: Some("spawn failed".into()) };
    };
    let nspawn = 2 + p.below(2);
    let exit_kind = p.below(5);
    let mut clients: Vec<Client> = vec![];
    let spawned = Arc::new(std::sync::Mutex::new(Vec::<(ActorRef<QMsg>, ractor::concurrency::JoinHandle<()>)>::new()));
    for t in 0..nspawn {
        let mid = mid.clone();
        let root = root.clone();
        let tally = tally.clone();
        let spawned = spawned.clone();
        let mut q = Prng::new(seed ^ (t + 11).wrapping_mul(0x2545f4914f6cdd1d));
        clients.push(Box::new(move || {
            let mut n = 0;
            for _ in 0..(2 + q.below(5)) {
                match q.below(8) {
                    0..=2 => {
                        let sh = QShared::new(&tally, false);
                        if let Ok(x) = rt().block_on(Actor::spawn_linked(None, QActor { sh }, (), mid.get_cell())) {
                            n += 1;
                            spawned.lock().unwrap().push(x);
                        }
                    }
                    3 => {
                        let sh = QShared::new(&tally, false);
                        let mode = q.below(2) as u8;
                        let r = rt().block_on(Actor::spawn_linked(None, FailingStart { sh, mode }, (), mid.get_cell()));
                        n += r.is_err() as u64;
                    }
                    4 => {
                        // a spawn cancelled part-way (the caller's future is dropped by the timeout)
                        let sh = QShared::new(&tally, false);
                        let us = q.below(400);
                        let r = rt().block_on(async { tokio::time::timeout(Duration::from_micros(us), Actor::spawn_linked(None, FailingStart { sh, mode: 2 }, (), mid.get_cell())).await });
                        if let Ok(Ok((a, h))) = r {
                            a.stop(None);
                            spawned.lock().unwrap().push((a.get_cell().into(), h));
                        }
                        n += 1;
                    }
                    5 => {
                        let g = spawned.lock().unwrap();
                        if let Some((a, _)) = g.last() {
                            a.unlink(mid.get_cell());
                            a.link(root.get_cell());
                            n += 1;
                        }
                    }
                    6 => {
                        let _ = mid.get_children();
                        let _ = root.get_children();
                        let _ = mid.try_get_supervisor();
                        n += 1;
                    }
                    _ => {
                        let r = rt().block_on(mid.wait(Some(Duration::from_millis(q.below(3)))));
                        n += r.is_ok() as u64;
                    }
                }
                spin(q.below(3000));
            }
            n
        }));
    }
    {
        let mid = mid.clone();
        let mut q = Prng::new(seed ^ 0xe817);
        clients.push(Box::new(move || {
            spin(q.below(80_000));
            match exit_kind {
                0 => mid.stop(None),
                1 => mid.kill(),
                2 => {
                    let _ = mid.drain();
                }
                3 => {
                    let _ = mid.send_message(QMsg::Fail(1));
                }
                _ => {
                    let _ = rt().block_on(mid.kill_and_wait(Some(Duration::from_secs(30))));
                }
            }
            1
        }));
    }
    // two waiters on the exiting node
    for w in 0..2u64 {
        let mid = mid.clone();
        clients.push(Box::new(move || {
            let r = if w == 0 { rt().block_on(mid.wait(Some(Duration::from_secs(30)))).is_ok() } else { rt().block_on(mid.stop_children_and_wait(None, Some(Duration::from_secs(30)))) == () };
            r as u64
        }));
    }
    let ops: u64 = th::run_clients(clients).into_iter().sum();
    mid.stop(None);
    let all: Vec<_> = std::mem::take(&mut *spawned.lock().unwrap());
    let joined = rt().block_on(async {
        let mut ok = join_all(vec![mh]).await;
        for (a, h) in all {
            a.stop(None);
            ok &= join_all(vec![h]).await;
        }
        root.stop(None);
        ok && join_all(vec![rh]).await
    });
    if !joined {
        return Out { nontrivial: false, sig: 0, ops, problems: vec![], inconclusive: Some("tree did not stop within 40 s wall".into()) };
    }
    Out { nontrivial: true, sig: hash_words(&[nspawn, exit_kind, ops.min(12)]), ops, problems: vec![], inconclusive: None }
}

// ------------------------------------------------------------------------------------------------ family: tables

fn fam_tables(seed: u64, tally: &Arc<Tally>) -> Out {
    let mut p = Prng::new(seed);
    let nthreads = 3 + p.below(2);
    let tag = seed & 0xffff;
    let names: Arc<Vec<String>> = Arc::new((0..2).map(|i| format!("san-{tag}-{i}")).collect());
    let groups: Arc<Vec<String>> = Arc::new((0..3).map(|i| format!("sg-{tag}-{i}")).collect());
    let scopes: Arc<Vec<String>> = Arc::new((0..2).map(|i| format!("ss-{tag}-{i}")).collect());
    let mon_sh = QShared::new(tally, false);
    let Some((mon, mon_h)) = rt().block_on(async { Actor::spawn(None, QActor { sh: mon_sh.clone() }, ()).await.ok() }) else {
        return Out { nontrivial: false, sig: 0, ops: 0, problems: vec![], inconclusive: Some("spawn failed".into()) };
    };
    ractor::pg::monitor(groups[0].clone(), mon.get_cell());
    ractor::pg::monitor_scope(scopes[0].clone(), mon.get_cell());
    let mut clients: Vec<Client> = vec![];
    for t in 0..nthreads {
        let (names, groups, scopes, tally, mon) = (names.clone(), groups.clone(), scopes.clone(), tally.clone(), mon.clone());
        let mut q = Prng::new(seed ^ (t + 3).wrapping_mul(0xd6e8feb86659fd93));
        clients.push(Box::new(move || {
            let mut mine: Vec<(ActorRef<QMsg>, ractor::concurrency::JoinHandle<()>)> = vec![];
            let mut n = 0u64;
            for _ in 0..(10 + q.below(30)) {
                n += 1;
                let g = groups[q.below(3) as usize].clone();
                let s = scopes[q.below(2) as usize].clone();
                match q.below(16) {
                    0..=2 => {
                        let name = if q.below(2) == 0 { Some(names[q.below(2) as usize].clone()) } else { None };
                        let sh = QShared::new(&tally, false);
                        if let Ok(x) = rt().block_on(Actor::spawn(name, QActor { sh }, ())) {
                            mine.push(x);
                        }
                    }
                    3 => {
                        if let Some(c) = ractor::registry::where_is(names[q.below(2) as usize].clone()) {
                            let _ = c.get_status();
                            let _ = c.get_name();
                        }
                        let _ = ractor::registry::registered();
                    }
                    4 => {
                        #[cfg(feature = "cluster")]
                        {
                            if let Some((a, _)) = mine.last() {
                                let _ = ractor::registry::where_is_pid(a.get_id());
                            }
                            let _ = ractor::registry::get_all_pids().len();
                        }
                    }
                    5..=6 => {
                        if let Some((a, _)) = mine.get(q.below(mine.len().max(1) as u64) as usize) {
                            if q.below(2) == 0 {
                                ractor::pg::join(g, vec![a.get_cell()]);
                            } else {
                                ractor::pg::join_scoped(s, g, vec![a.get_cell(), a.get_cell()]);
                            }
                        }
                    }
                    7 => {
                        if let Some((a, _)) = mine.get(q.below(mine.len().max(1) as u64) as usize) {
                            if q.below(2) == 0 {
                                ractor::pg::leave(g, vec![a.get_cell()]);
                            } else {
                                ractor::pg::leave_scoped(s, g, vec![a.get_cell()]);
                            }
                        }
                    }
                    8 => {
                        let _ = ractor::pg::get_members(&g).len() + ractor::pg::get_local_members(&g).len() + ractor::pg::get_scoped_members(&s, &g).len();
                    }
                    9 => {
                        let _ = ractor::pg::which_groups().len() + ractor::pg::which_scopes().len() + ractor::pg::which_scoped_groups(&s).len() + ractor::pg::which_scopes_and_groups().len();
                    }
                    10 => {
                        if let Some((a, _)) = mine.last() {
                            ractor::pg::monitor(g, a.get_cell());
                        }
                    }
                    11 => {
                        if let Some((a, _)) = mine.last() {
                            if q.below(2) == 0 {
                                ractor::pg::demonitor(g, a.get_id());
                            } else {
                                ractor::pg::demonitor_scope(s, a.get_id());
                            }
                        }
                    }
                    12 => {
                        #[cfg(feature = "cluster")]
                        {
                            if q.below(2) == 0 {
                                ractor::registry::pid_registry::monitor(mon.get_cell());
                            } else {
                                ractor::registry::pid_registry::demonitor(mon.get_id());
                            }
                        }
                        let _ = &mon;
                    }
                    _ => {
                        if !mine.is_empty() {
                            let (a, h) = mine.swap_remove(q.below(mine.len() as u64) as usize);
                            match q.below(3) {
                                0 => a.stop(None),
                                1 => a.kill(),
                                _ => {
                                    let _ = a.drain();
                                }
                            }
                            if q.below(2) == 0 {
                                let _ = rt().block_on(async { tokio::time::timeout(Duration::from_secs(40), h).await });
                            } else {
                                let _ = rt().block_on(a.wait(Some(Duration::from_secs(40))));
                            }
                        }
                    }
                }
            }
            for (a, h) in mine {
                a.stop(None);
                let _ = rt().block_on(async { tokio::time::timeout(Duration::from_secs(40), h).await });
            }
            n
        }));
    }
    let ops: u64 = th::run_clients(clients).into_iter().sum();
    mon.stop(None);
    let joined = rt().block_on(join_all(vec![mon_h]));
    #[cfg(feature = "cluster")]
    ractor::registry::pid_registry::demonitor(mon.get_id());
    if !joined {
        return Out { nontrivial: false, sig: 0, ops, problems: vec![], inconclusive: Some("monitor did not stop".into()) };
    }
    let mut problems = vec![];
    let leaks = th::settle_leaks();
    if !leaks.is_empty() {
        problems.push(("leak".to_string(), format!("global tables not empty after every actor stopped: {}", leaks.join("; "))));
    }
    Out { nontrivial: true, sig: hash_words(&[nthreads, ops / 8]), ops, problems, inconclusive: None }
}

// ------------------------------------------------------------------------------------------------ family: timers

fn fam_timers(seed: u64, tally: &Arc<Tally>) -> Out {
    let mut p = Prng::new(seed);
    let sh = QShared::new(tally, false);
    let Some((a, h)) = rt().block_on(async { Actor::spawn(None, QActor { sh: sh.clone() }, ()).await.ok() }) else {
        return Out { nontrivial: false, sig: 0, ops: 0, problems: vec![], inconclusive: Some("spawn failed".into()) };
    };
    let fin = p.below(4);
    let mut clients: Vec<Client> = vec![];
    for t in 0..3u64 {
        let a = a.clone();
        let mut q = Prng::new(seed ^ (t + 5).wrapping_mul(0x94d049bb133111eb));
        clients.push(Box::new(move || {
            let _e = rt().enter();
            let mut hs = vec![];
            for k in 0..(2 + q.below(4)) {
                // one lane (and one sequence) per timer: a timer's own messages arrive in order
                let lane = 1 + t * 5 + k;
                let s2 = Arc::new(AtomicU64::new(0));
                let per = Duration::from_micros(200 + q.below(3000));
                match q.below(3) {
                    0 => hs.push(a.send_interval(per, move || QMsg::Work(payload(lane, s2.fetch_add(1, Relaxed) + 1))).abort_handle()),
                    1 => hs.push(a.send_after(per, move || QMsg::Work(payload(lane, s2.fetch_add(1, Relaxed) + 1))).abort_handle()),
                    _ => hs.push(a.send_after(per, move || QMsg::Spin(500)).abort_handle()),
                }
                spin(q.below(20_000));
                if q.below(3) == 0 {
                    if let Some(x) = hs.pop() {
                        x.abort();
                    }
                }
            }
            std::thread::sleep(Duration::from_millis(2 + q.below(6)));
            for x in &hs {
                if q.below(2) == 0 {
                    x.abort();
                }
            }
            hs.len() as u64
        }));
    }
    {
        let a = a.clone();
        let mut q = Prng::new(seed ^ 0x71e5);
        clients.push(Box::new(move || {
            let _e = rt().enter();
            let per = Duration::from_millis(1 + q.below(8));
            let th = match fin {
                0 => Some(a.exit_after(per)),
                1 => Some(a.kill_after(per)),
                2 => {
                    let x = a.kill_after(per);
                    x.abort();
                    Some(x)
                }
                _ => None,
            };
            std::thread::sleep(Duration::from_millis(1 + q.below(10)));
            drop(th);
            1
        }));
    }
    let ops: u64 = th::run_clients(clients).into_iter().sum();
    std::thread::sleep(Duration::from_millis(3));
    a.stop(None);
    if !rt().block_on(join_all(vec![h])) {
        return Out { nontrivial: false, sig: 0, ops, problems: vec![], inconclusive: Some("timer target did not stop".into()) };
    }
    // interval loops notice the dead target within one period
    std::thread::sleep(Duration::from_millis(5));
    Out { nontrivial: true, sig: hash_words(&[fin, ops]), ops, problems: vec![], inconclusive: None }
}

// ------------------------------------------------------------------------------------------------ family: factory

pub mod fac {
    use super::*;
    use ractor::factory::queues::DefaultQueue;
    use ractor::factory::routing::{KeyPersistentRouting, QueuerRouting, RoundRobinRouting, Router, StickyQueuerRouting};
    use ractor::factory::*;

    pub struct SJob {
        pub id: u64,
        pub body: Payload,
        pub fail: u8,
    }
    #[cfg(feature = "cluster")]
    impl ractor::Message for SJob {}

    pub struct Ledger {
        pub runs: Vec<AtomicU64>,
        pub discards: Vec<AtomicU64>,
        pub tally: Arc<Tally>,
    }

    pub struct SWorker {
        pub led: Arc<Ledger>,
    }
    pub struct SWState {
        sh: Arc<QShared>,
        n: u64,
    }

    #[cfg_attr(feature = "alt", ractor::async_trait)]
    impl Worker for SWorker {
        type Key = u64;
        type Message = SJob;
        type Arguments = ();
        type State = SWState;
        async fn pre_start(&self, _wid: WorkerId, _f: &ActorRef<FactoryMessage<u64, SJob>>, _: ()) -> Result<SWState, ActorProcessingErr> {
            let sh = QShared::new(&self.led.tally, false);
            {
                let _g = sh.enter();
            }
            Ok(SWState { sh, n: 0 })
        }
        async fn post_stop(&self, _wid: WorkerId, _f: &ActorRef<FactoryMessage<u64, SJob>>, st: &mut SWState) -> Result<(), ActorProcessingErr> {
            let _g = st.sh.enter();
            Ok(())
        }
        async fn handle(&self, _wid: WorkerId, _f: &ActorRef<FactoryMessage<u64, SJob>>, job: Job<u64, SJob>, st: &mut SWState) -> Result<u64, ActorProcessingErr> {
            let _g = st.sh.enter();
            st.n += 1;
            let j = &job.msg;
            if j.body[2] != j.body[0] ^ j.body[1] ^ MAGIC {
                self.led.tally.payload_bad.fetch_add(1, Relaxed);
            }
            if let Some(r) = self.led.runs.get(j.id as usize) {
                r.fetch_add(1, Relaxed);
            }
            if j.id % 3 == 0 {
                tokio::task::yield_now().await;
            } else if j.id % 7 == 0 {
                tokio::time::sleep(Duration::from_micros(300)).await;
            }
            match j.fail {
                1 => panic!("{PANIC_MARK} san worker panic"),
                2 => Err(format!("{PANIC_MARK} san worker err").into()),
                _ => Ok(job.key),
            }
        }
    }

    pub struct SDiscard(pub Arc<Ledger>);
    impl DiscardHandler<u64, SJob> for SDiscard {
        fn discard(&self, _reason: DiscardReason, job: &mut Job<u64, SJob>) {
            if let Some(d) = self.0.discards.get(job.msg.id as usize) {
                d.fetch_add(1, Relaxed);
            }
        }
    }

    fn go<R: Router<u64, SJob>>(seed: u64, router: R, led: Arc<Ledger>, njobs: u64) -> Out {
        let mut p = Prng::new(seed ^ 0xfac);
        let pool = 1 + p.below(4) as usize;
        let led2 = led.clone();
        let args = FactoryArguments::builder()
            .worker_builder(Box::new(worker_builder(move |_wid| (SWorker { led: led2.clone() }, ()))))
            .num_initial_workers(pool)
            .router(router)
            .queue(DefaultQueue::<u64, SJob>::default())
            .discard_handler(Arc::new(SDiscard(led.clone())) as Arc<dyn DiscardHandler<u64, SJob>>)
            .discard_settings(if p.below(2) == 0 { DiscardSettings::None } else { DiscardSettings::Static { limit: 1 + p.below(6) as usize, mode: if p.below(2) == 0 { DiscardMode::Newest } else { DiscardMode::Oldest } } })
            .build();
        let Some((f, fh)) = rt().block_on(async { Actor::spawn(None, Factory::<u64, SJob, (), SWorker, R, DefaultQueue<u64, SJob>>::default(), args).await.ok() }) else {
            return Out { nontrivial: false, sig: 0, ops: 0, problems: vec![], inconclusive: Some("factory spawn failed".into()) };
        };
        let next = Arc::new(AtomicU64::new(0));
        let mut clients: Vec<Client> = vec![];
        for t in 0..3u64 {
            let (f, next) = (f.clone(), next.clone());
            let mut q = Prng::new(seed ^ (t + 21).wrapping_mul(0x9e3779b97f4a7c15));
            clients.push(Box::new(move || {
                let mut sent = 0;
                loop {
                    let id = next.fetch_add(1, Relaxed);
                    if id >= njobs {
                        break;
                    }
                    let fail = if q.below(20) == 0 { 1 + q.below(2) as u8 } else { 0 };
                    let job = Job { key: q.below(4), msg: SJob { id, body: payload(t, id + 1), fail }, options: JobOptions::default(), accepted: None };
                    sent += f.cast(FactoryMessage::Dispatch(job)).is_ok() as u64;
                    if q.below(3) == 0 {
                        spin(q.below(6000));
                    }
                }
                sent
            }));
        }
        {
            let f = f.clone();
            let mut q = Prng::new(seed ^ 0xad71);
            clients.push(Box::new(move || {
                for _ in 0..(1 + q.below(4)) {
                    spin(q.below(40_000));
                    match q.below(5) {
                        0 => {
                            let _ = f.cast(FactoryMessage::AdjustWorkerPool(1 + q.below(4) as usize));
                        }
                        1 => {
                            let _ = rt().block_on(f.call(FactoryMessage::GetQueueDepth, Some(Duration::from_secs(20))));
                        }
                        2 => {
                            let _ = f.cast(FactoryMessage::UpdateSettings(UpdateSettingsRequest::builder().discard_settings(DiscardSettings::Static { limit: 1 + q.below(5) as usize, mode: DiscardMode::Oldest }).build()));
                        }
                        3 => {
                            // kill one of the workers (a child of the factory)
                            let ch = f.get_children();
                            if !ch.is_empty() {
                                ch[q.below(ch.len() as u64) as usize].kill();
                            }
                        }
                        _ => {
                            let _ = rt().block_on(f.call(FactoryMessage::GetNumActiveWorkers, Some(Duration::from_secs(20))));
                        }
                    }
                }
                0
            }));
        }
        let sent: u64 = th::run_clients(clients).into_iter().sum();
        let drain = p.below(2) == 0;
        if drain {
            let _ = f.cast(FactoryMessage::DrainRequests);
        } else {
            let _ = rt().block_on(f.call(FactoryMessage::GetQueueDepth, Some(Duration::from_secs(20))));
            f.stop(None);
        }
        if !rt().block_on(join_all(vec![fh])) {
            // a drain that never completes is C15's business (decided on the virtual clock); here it is only a stall
            f.kill();
            return Out { nontrivial: false, sig: 0, ops: sent, problems: vec![], inconclusive: Some("factory did not stop within 40 s wall".into()) };
        }
        let mut problems = vec![];
        let mut ran = 0;
        for (i, r) in led.runs.iter().enumerate() {
            let (r, d) = (r.load(Relaxed), led.discards[i].load(Relaxed));
            ran += r;
            if r > 1 {
                problems.push(("ran-twice".to_string(), format!("job {i} was handled {r} times")));
            }
            if d > 1 || (d == 1 && r >= 1) {
                problems.push(("two-fates".to_string(), format!("job {i}: handled {r} times and discarded {d} times")));
            }
        }
        Out { nontrivial: sent >= 4, sig: hash_words(&[pool as u64, drain as u64, ran.min(njobs) / 4]), ops: sent, problems, inconclusive: None }
    }

    pub fn run(seed: u64, tally: &Arc<Tally>) -> Out {
        let mut p = Prng::new(seed);
        let njobs = 12 + p.below(60);
        let led = Arc::new(Ledger { runs: (0..njobs).map(|_| AtomicU64::new(0)).collect(), discards: (0..njobs).map(|_| AtomicU64::new(0)).collect(), tally: tally.clone() });
        match p.below(4) {
            0 => go(seed, KeyPersistentRouting::<u64, SJob>::default(), led, njobs),
            1 => go(seed, QueuerRouting::<u64, SJob>::default(), led, njobs),
            2 => go(seed, StickyQueuerRouting::<u64, SJob>::default(), led, njobs),
            _ => go(seed, RoundRobinRouting::<u64, SJob>::default(), led, njobs),
        }
    }
}

// ------------------------------------------------------------------------------------------------ family: ports

fn fam_ports(seed: u64, tally: &Arc<Tally>) -> Out {
    let mut p = Prng::new(seed);
    let port: Arc<ractor::OutputPort<u64>> = Arc::new(ractor::OutputPort::default());
    let nsub = 1 + p.below(3);
    let mut subs = vec![];
    for _ in 0..nsub {
        let sh = QShared::new(tally, false);
        if let Some(x) = rt().block_on(async { Actor::spawn(None, QActor { sh }, ()).await.ok() }) {
            subs.push(x);
        }
    }
    let seqs: Arc<Vec<AtomicU64>> = Arc::new((0..8).map(|_| AtomicU64::new(0)).collect());
    let mut clients: Vec<Client> = vec![];
    for t in 0..2u64 {
        let port = port.clone();
        let mut q = Prng::new(seed ^ (t + 31).wrapping_mul(0x2545f4914f6cdd1d));
        clients.push(Box::new(move || {
            let _e = rt().enter();
            let n = 20 + q.below(60);
            for i in 0..n {
                port.send((t << 32) | i);
                if q.below(5) == 0 {
                    spin(q.below(4000));
                }
            }
            n
        }));
    }
    {
        let port = port.clone();
        let refs: Vec<ActorRef<QMsg>> = subs.iter().map(|(a, _)| a.clone()).collect();
        let seqs = seqs.clone();
        let mut q = Prng::new(seed ^ 0x5ab5);
        clients.push(Box::new(move || {
            let _e = rt().enter();
            for (k, a) in refs.iter().enumerate() {
                spin(q.below(20_000));
                let seqs = seqs.clone();
                // per (subscription, publisher) sequence numbers stay increasing for the actor's order check
                port.subscribe(a.clone(), move |x: u64| {
                    let publisher = x >> 32;
                    let lane = (k as u64 * 2 + publisher) % 8;
                    let s = seqs[lane as usize].fetch_add(1, Relaxed) + 1;
                    Some(QMsg::Work(payload(lane, s)))
                });
                if q.below(3) == 0 {
                    spin(q.below(30_000));
                    a.stop(None);
                }
            }
            refs.len() as u64
        }));
    }
    let ops: u64 = th::run_clients(clients).into_iter().sum();
    std::thread::sleep(Duration::from_millis(2));
    let ok = rt().block_on(async {
        let mut ok = true;
        for (a, h) in subs {
            a.stop(None);
            ok &= join_all(vec![h]).await;
        }
        ok
    });
    drop(port);
    if !ok {
        return Out { nontrivial: false, sig: 0, ops, problems: vec![], inconclusive: Some("subscriber did not stop".into()) };
    }
    Out { nontrivial: true, sig: hash_words(&[nsub, ops / 16]), ops, problems: vec![], inconclusive: None }
}

// ------------------------------------------------------------------------------------------------ leak check hook

/// Under the AddressSanitizer build (harness feature `asan`) LeakSanitizer is asked for a recoverable leak check at
/// quiescent points; returns the number of checks that reported leaked blocks (the report text goes to the log).
#[cfg(feature = "asan")]
fn lsan_check() -> u64 {
    extern "C" {
        fn __lsan_do_recoverable_leak_check() -> std::os::raw::c_int;
    }
    // SAFETY: plain call into the sanitizer runtime linked into this build
    (unsafe { __lsan_do_recoverable_leak_check() } != 0) as u64
}
#[cfg(not(feature = "asan"))]
fn lsan_check() -> u64 {
    0
}

/// A deliberate data race / leak, to show that the sanitizer build under which this process runs does report
/// (the driver requires exactly this report and discounts it).
pub fn selftest(kind: &str) {
    match kind {
        "race" => {
            let c = Arc::new(Canary::new());
            let hs: Vec<_> = (0..2)
                .map(|_| {
                    let c = c.clone();
                    std::thread::spawn(move || {
                        for _ in 0..2000 {
                            c.enter();
                            c.exit();
                        }
                    })
                })
                .collect();
            for h in hs {
                let _ = h.join();
            }
        }
        "leak" => {
            let b = Box::new([0x5au8; 4242]);
            let p = Box::into_raw(b);
            std::hint::black_box(p);
            println!("selftest leak check reported: {}", lsan_check());
        }
        "uaf" => {
            let b = Box::new([7u64; 8]);
            let p = Box::into_raw(b);
            // SAFETY: none — this is the deliberate use-after-free the AddressSanitizer self-test must report
            unsafe {
                drop(Box::from_raw(p));
                println!("{}", std::ptr::read_volatile(p as *const u64));
            }
        }
        _ => {}
    }
}

pub fn run(args: &Args, rep: &mut Report) {
    let tally = Arc::new(Tally::default());
    let fams: &[&str] = match args.prop.as_str() {
        "C01" | "C02" | "C03" | "C04" | "C07" | "C09" => &["actor"],
        "C05" | "C06" | "C08" => &["tree", "actor"],
        "C10" | "C11" => &["tables"],
        "C12" => &["timers"],
        "C13" | "C14" | "C15" => &["factory"],
        "C16" => &["ports"],
        _ => &["actor", "tree", "tables", "timers", "factory", "ports"],
    };
    let mut leak_checks = 0u64;
    let mut leak_hits = 0u64;
    for i in args.indices() {
        let seed = args.replay.unwrap_or_else(|| args.scenario_seed(i));
        crate::watch_begin(seed);
        let fam = fams[(i / args.nshards.max(1)) as usize % fams.len()];
        th::begin(seed, 20 + (seed % 60) as u32);
        let out = match fam {
            "actor" => fam_actor(seed, &tally),
            "tree" => fam_tree(seed, &tally),
            "tables" => fam_tables(seed, &tally),
            "timers" => fam_timers(seed, &tally),
            "factory" => fac::run(seed, &tally),
            _ => fam_ports(seed, &tally),
        };
        th::end();
        crate::watch_end();
        rep.count(&format!("san_{fam}_scenarios"), 1);
        rep.count("client_ops", out.ops);
        let mut problems = out.problems;
        for (loc, msg) in crate::take_foreign_panics() {
            problems.push(("foreign-panic".to_string(), format!("panic outside the injected ones at {loc}: {msg}")));
        }
        let t = &tally;
        for (clause, n, what) in [
            ("overlap", t.overlap.swap(0, Relaxed), "a callback began while another callback of the same actor was active (plain busy flag)"),
            ("order", t.order_bad.swap(0, Relaxed), "a sender's messages were handled out of order"),
            ("payload", t.payload_bad.swap(0, Relaxed), "a message payload written before the send was not what the handler read"),
            ("reply-cross-wired", t.reply_bad.swap(0, Relaxed), "a call returned a value computed for another request"),
            ("thread-local-moved", t.thread_moved.swap(0, Relaxed), "a thread-local actor's callback ran on another OS thread"),
        ] {
            if n > 0 {
                problems.push((clause.to_string(), format!("{what} ({n} times)")));
            }
        }
        if let Some(why) = out.inconclusive {
            rep.inconclusive.push(format!("seed {seed} ({fam}): {why}"));
            if args.replay.is_some() {
                break;
            }
            continue;
        }
        rep.scenario(out.nontrivial, out.sig ^ crate::prng::hash_str(fam));
        // quiescent point: every actor of the scenario has stopped
        if cfg!(feature = "asan") && rep.evaluations % 8 == 0 {
            leak_checks += 1;
            if lsan_check() != 0 {
                leak_hits += 1;
                problems.push(("memory-leak".to_string(), "LeakSanitizer found unreachable blocks at a quiescent point (every actor of the scenarios so far has stopped); see the sanitizer log".to_string()));
            }
        }
        for (clause, detail) in problems {
            rep.violation(Violation { clause: clause.clone(), detail, scenario_seed: seed, scenario: format!("san/{fam}"), signature: clause, trace: vec![] });
        }
        if args.replay.is_some() {
            break;
        }
    }
    rep.count("handled", tally.handled.load(Relaxed));
    rep.count("callbacks_started", tally.started.load(Relaxed));
    rep.count("post_stops", tally.post_stops.load(Relaxed));
    rep.count("supervision_events", tally.sup_events.load(Relaxed));
    rep.count("replies_checked", tally.replies.load(Relaxed));
    rep.count("lsan_quiescent_checks", leak_checks);
    rep.count("lsan_leak_reports", leak_hits);
    let hits = crate::ctl::ctl().hit_snapshot();
    rep.count("h1_point_hits", hits.iter().sum());
    rep.sample(J::obj().set("families", fams.iter().map(|s| s.to_string()).collect::<Vec<_>>()));
}
