//! C08 — a failed or cancelled spawn leaves nothing behind. (fault enumeration)
//!
//! cause x side effects already performed by pre_start x spawn API, including dropping the spawn
//! future after n polls for every n (CutAfter) and aborting the start task at every poll k.
use std::future::Future;
use std::pin::Pin;
use std::sync::atomic::Ordering;
use std::sync::{Arc, Mutex};
use std::task::{Context, Poll};

use ractor::{ActorCell, ActorRef, ActorStatus, SpawnErr};

use crate::json::J;
use crate::prng::hash_words;
use crate::probe::*;
use crate::report::{Report, Violation};
use crate::trace::{Ev, Rec, SupKind, Trace};
use crate::{vt, Args};

#[derive(Clone, Copy, Debug, PartialEq, Eq)]
pub enum Cause {
    PreStartErr,
    PreStartPanic,
    /// a hand-written `fn pre_start(..) -> impl Future` that panics in its synchronous part, after side effects: the panic is not
    /// inside the future the runtime guards, it unwinds through the spawn call into the caller (Send actors, non-async-trait shape)
    PreStartSyncPanic,
    NameTaken,
    KillDuringStart,
    SupervisorStopped,
    CutAfter(u32),
    /// poll n times, then leave the future un-polled for a while (the start task finishes meanwhile), then drop it
    CutLate(u32),
    AbortStartTask(u64),
}

#[derive(Clone, Copy, Debug, PartialEq, Eq)]
pub enum Api {
    Spawn,
    SpawnLinked,
    SpawnInstant,
    SpawnLinkedInstant,
}
const APIS: [Api; 4] = [Api::Spawn, Api::SpawnLinked, Api::SpawnInstant, Api::SpawnLinkedInstant];

pub const E_JOIN: u32 = 1;
pub const E_PGMON: u32 = 2;
pub const E_PIDMON: u32 = 4;
pub const E_LINK: u32 = 8;
pub const E_SELFMSG: u32 = 16;
pub const E_CHILD: u32 = 32;

#[derive(Clone, Debug)]
pub struct Case {
    pub cause: Cause,
    pub effects: u32,
    pub api: Api,
    pub tl: bool,
}

pub const CUT_MAX: u32 = 10;

pub fn all_cases(tl: bool) -> Vec<Case> {
    let mut causes = vec![Cause::PreStartErr, Cause::PreStartPanic, Cause::NameTaken, Cause::KillDuringStart, Cause::SupervisorStopped];
    for n in 0..=CUT_MAX {
        causes.push(Cause::CutAfter(n));
    }
    if !tl {
        for k in 1..=CUT_MAX as u64 {
            causes.push(Cause::AbortStartTask(k));
        }
    } else {
        for n in 1..=3 {
            causes.push(Cause::CutLate(n));
        }
    }
    if !tl && !cfg!(feature = "alt") {
        causes.push(Cause::PreStartSyncPanic);
    }
    let mut v = vec![];
    for cause in causes {
        for effects in 0..64u32 {
            for api in APIS {
                // a cut of the caller's future only applies to the awaiting APIs; an abort of the start task only to instant spawns
                match (cause, api) {
                    (Cause::CutAfter(_) | Cause::CutLate(_), Api::SpawnInstant | Api::SpawnLinkedInstant) => continue,
                    (Cause::AbortStartTask(_), Api::Spawn | Api::SpawnLinked) => continue,
                    (Cause::SupervisorStopped, Api::Spawn | Api::SpawnInstant) => continue,
                    (Cause::PreStartSyncPanic, _) if effects & E_CHILD != 0 => continue,
                    _ => {}
                }
                if tl && effects % 7 != 0 {
                    continue; // thread engine: a spread of 10 effect subsets
                }
                v.push(Case { cause, effects, api, tl });
            }
        }
    }
    v
}

/// Poll the inner future at most `n` times, then drop it (returns None if it was cut).
struct CutAfter<F: Future> {
    fut: Option<Pin<Box<F>>>,
    left: u32,
    /// after the last poll, stay un-polled for this long before dropping the future
    linger: Option<Pin<Box<tokio::time::Sleep>>>,
    linger_ms: u64,
}
impl<F: Future> Future for CutAfter<F> {
    type Output = Option<F::Output>;
    fn poll(mut self: Pin<&mut Self>, cx: &mut Context<'_>) -> Poll<Self::Output> {
        if self.left == 0 {
            if self.linger_ms > 0 {
                let ms = self.linger_ms;
                let l = self.linger.get_or_insert_with(|| Box::pin(tokio::time::sleep(std::time::Duration::from_millis(ms))));
                if l.as_mut().poll(cx).is_pending() {
                    return Poll::Pending;
                }
            }
            self.fut = None; // drop at this await point
            return Poll::Ready(None);
        }
        self.left -= 1;
        let r = self.fut.as_mut().unwrap().as_mut().poll(cx);
        match r {
            Poll::Ready(v) => Poll::Ready(Some(v)),
            Poll::Pending => {
                if self.left == 0 {
                    if self.linger_ms > 0 {
                        cx.waker().wake_by_ref();
                        return Poll::Pending;
                    }
                    self.fut = None;
                    return Poll::Ready(None);
                }
                Poll::Pending
            }
        }
    }
}

/// Send actor whose `pre_start` is a plain function: it performs its side effects and panics before any future exists.
#[cfg(not(feature = "alt"))]
pub struct SyncPanic {
    effects: Vec<Arc<dyn Fn(&ActorRef<PMsg>) + Send + Sync>>,
}
#[cfg(not(feature = "alt"))]
impl ractor::Actor for SyncPanic {
    type Msg = PMsg;
    type State = PState;
    type Arguments = ();
    #[allow(unreachable_code, clippy::manual_async_fn)]
    fn pre_start(&self, myself: ActorRef<PMsg>, _: ()) -> impl Future<Output = Result<PState, ractor::ActorProcessingErr>> + Send {
        for e in &self.effects {
            e(&myself);
        }
        if !self.effects.is_empty() || self.effects.is_empty() {
            panic!("{PANIC_MARK} synchronous panic in pre_start");
        }
        async { Ok(PState { handled: 0 }) }
    }
}

struct Shared {
    leaked: Mutex<Option<ActorCell>>,
    call_rx: Mutex<Option<tokio::sync::oneshot::Receiver<u64>>>,
}

const SUBJ: u64 = 2;
const SUP: u64 = 1;
const OTHER: u64 = 4;
const HOLDER: u64 = 6;
const CHILD: u64 = 7;

pub struct CaseResult {
    pub violations: Vec<(String, String)>,
    pub recs: Vec<Rec>,
    pub nontrivial: bool,
    pub sig: u64,
    pub summary: String,
}

type SpawnOut = Result<(ActorRef<PMsg>, ractor::concurrency::JoinHandle<()>), SpawnErr>;

pub fn run_case(idx: u64, case: &Case, tl: Option<(&tokio::runtime::Runtime, ractor::thread_local::ThreadLocalActorSpawner)>) -> CaseResult {
    let seed = hash_words(&[idx, 0xC08]);
    let is_tl = tl.is_some();
    let spawner = tl.as_ref().map(|t| t.1.clone());
    let out: Mutex<Option<(Arc<Trace>, Vec<(String, String)>, bool, String)>> = Mutex::new(None);
    let case2 = case.clone();
    let body = async {
        let case = case2;
        let trace = Arc::new(Trace::new());
        let mut v: Vec<(String, String)> = vec![];
        let settle = || async move {
            if is_tl {
                tokio::time::sleep(std::time::Duration::from_millis(10)).await
            } else {
                vt::settle().await
            }
        };
        let name = format!("c08-subj-{idx}-{}", is_tl as u8);
        let g1 = ("c08s".to_string(), format!("c08-g1-{idx}"));
        let g2 = ("c08s".to_string(), format!("c08-g2-{idx}"));
        let sup = Arc::new(ProbeSpec::new(SUP, Some(format!("c08-sup-{idx}-{}", is_tl as u8)), trace.clone()));
        let other = Arc::new(ProbeSpec::new(OTHER, Some(format!("c08-other-{idx}-{}", is_tl as u8)), trace.clone()));
        let (sup_ref, sup_h) = spawn_probe(&sup, None).await.expect("sup");
        let (other_ref, other_h) = spawn_probe(&other, None).await.expect("other");
        // name clash: an existing holder in two groups
        let mut holder = None;
        if case.cause == Cause::NameTaken {
            let mut h = ProbeSpec::new(HOLDER, Some(name.clone()), trace.clone());
            h.pre_start = vec![Step::Join(g1.0.clone(), g1.1.clone())];
            let h = Arc::new(h);
            holder = Some(spawn_probe(&h, None).await.expect("holder"));
        }
        let shared = Arc::new(Shared { leaked: Mutex::new(None), call_rx: Mutex::new(None) });
        let gate = Gate::new();
        let child_spec = Arc::new(ProbeSpec::new(CHILD, Some(format!("c08-child-{idx}-{}", is_tl as u8)), trace.clone()));
        let mut subj = ProbeSpec::new(SUBJ, Some(name.clone()), trace.clone());
        subj.child_spawner = Some(std_child_spawner());
        {
            let sh = shared.clone();
            subj.pre_start.push(Step::Do(Arc::new(move |me: &ActorRef<PMsg>| {
                *sh.leaked.lock().unwrap() = Some(me.get_cell());
            })));
        }
        subj.pre_start.push(Step::Yield);
        if case.effects & E_JOIN != 0 {
            subj.pre_start.push(Step::Join(g1.0.clone(), g1.1.clone()));
            subj.pre_start.push(Step::Join(g2.0.clone(), g2.1.clone()));
        }
        if case.effects & E_PGMON != 0 {
            subj.pre_start.push(Step::PgMonitor(g2.1.clone()));
            subj.pre_start.push(Step::PgMonitorScope(g1.0.clone()));
        }
        #[cfg(feature = "cluster")]
        if case.effects & E_PIDMON != 0 {
            subj.pre_start.push(Step::PidMonitor);
        }
        if case.effects & E_LINK != 0 {
            subj.pre_start.push(Step::LinkTo(other_ref.get_cell()));
        }
        subj.pre_start.push(Step::Yield);
        if case.effects & E_SELFMSG != 0 {
            subj.pre_start.push(Step::SendSelf { seq: 1 });
            subj.pre_start.push(Step::SendSelf { seq: 2 });
            let (sh, tr) = (shared.clone(), trace.clone());
            subj.pre_start.push(Step::Do(Arc::new(move |me: &ActorRef<PMsg>| {
                let (tx, rx) = tokio::sync::oneshot::channel();
                let _ = me.send_message(PMsg::Call(Work::new(&tr, u32::MAX, 3, vec![]), tx.into()));
                *sh.call_rx.lock().unwrap() = Some(rx);
            })));
        }
        if case.effects & E_CHILD != 0 {
            subj.pre_start.push(Step::SpawnChild(child_spec.clone()));
        }
        subj.pre_start.push(Step::Yield);
        match case.cause {
            Cause::PreStartErr => subj.pre_start.push(Step::Err),
            Cause::PreStartPanic => subj.pre_start.push(Step::PanicString),
            Cause::KillDuringStart | Cause::SupervisorStopped => {
                subj.pre_start.push(Step::Park(gate.clone()));
                subj.pre_start.push(Step::Yield);
            }
            _ => {
                subj.pre_start.push(Step::Yield);
                subj.pre_start.push(Step::Yield);
            }
        }
        let subj = Arc::new(subj);
        let supc = sup_ref.get_cell();
        // ---- the spawn call, per API
        #[cfg(not(feature = "alt"))]
        let sync_effects: Vec<Arc<dyn Fn(&ActorRef<PMsg>) + Send + Sync>> = {
            let mut e: Vec<Arc<dyn Fn(&ActorRef<PMsg>) + Send + Sync>> = vec![];
            let sh = shared.clone();
            e.push(Arc::new(move |me: &ActorRef<PMsg>| *sh.leaked.lock().unwrap() = Some(me.get_cell())));
            if case.effects & E_JOIN != 0 {
                let (a, b) = (g1.clone(), g2.clone());
                e.push(Arc::new(move |me: &ActorRef<PMsg>| {
                    ractor::pg::join_scoped(a.0.clone(), a.1.clone(), vec![me.get_cell()]);
                    ractor::pg::join_scoped(b.0.clone(), b.1.clone(), vec![me.get_cell()]);
                }));
            }
            if case.effects & E_PGMON != 0 {
                let (a, b) = (g1.clone(), g2.clone());
                e.push(Arc::new(move |me: &ActorRef<PMsg>| {
                    ractor::pg::monitor(b.1.clone(), me.get_cell());
                    ractor::pg::monitor_scope(a.0.clone(), me.get_cell());
                }));
            }
            #[cfg(feature = "cluster")]
            if case.effects & E_PIDMON != 0 {
                e.push(Arc::new(move |me: &ActorRef<PMsg>| ractor::registry::pid_registry::monitor(me.get_cell())));
            }
            if case.effects & E_LINK != 0 {
                let o = other_ref.get_cell();
                e.push(Arc::new(move |me: &ActorRef<PMsg>| me.get_cell().link(o.clone())));
            }
            if case.effects & E_SELFMSG != 0 {
                let tr = trace.clone();
                e.push(Arc::new(move |me: &ActorRef<PMsg>| {
                    let _ = me.send_message(PMsg::Work(Work::new(&tr, u32::MAX, 1, vec![])));
                }));
            }
            e
        };
        let mk_plain = |linked: bool| -> Pin<Box<dyn Future<Output = SpawnOut> + Send>> {
            let (subj, supc, spawner) = (subj.clone(), supc.clone(), spawner.clone());
            #[cfg(not(feature = "alt"))]
            if case.cause == Cause::PreStartSyncPanic {
                let (name, effects) = (subj.name.clone(), sync_effects.clone());
                return Box::pin(async move {
                    match linked {
                        true => ractor::Actor::spawn_linked(name, SyncPanic { effects }, (), supc).await,
                        false => ractor::Actor::spawn(name, SyncPanic { effects }, ()).await,
                    }
                });
            }
            Box::pin(async move {
                match spawner {
                    Some(sp) => spawn_tl_probe(&subj, if linked { Some(supc) } else { None }, sp).await,
                    None => spawn_probe(&subj, if linked { Some(supc) } else { None }).await,
                }
            })
        };
        let mut spawn_err: Option<String> = None;
        let mut spawned_ok: Option<(ActorRef<PMsg>, ractor::concurrency::JoinHandle<()>)> = None;
        let mut cut_happened = false;
        let c = crate::ctl::ctl();
        match case.api {
            Api::Spawn | Api::SpawnLinked => {
                let linked = case.api == Api::SpawnLinked;
                let fut = mk_plain(linked);
                let (cut, linger_ms) = match case.cause {
                    Cause::CutAfter(n) => (n, 0),
                    Cause::CutLate(n) => (n, 25),
                    _ => (u32::MAX, 0),
                };
                let task = vt::spawn_h("c08-spawner", CutAfter { fut: Some(Box::pin(fut)), left: cut, linger: None, linger_ms });
                if matches!(case.cause, Cause::KillDuringStart | Cause::SupervisorStopped) {
                    gate.wait_reached().await;
                    if case.cause == Cause::KillDuringStart {
                        let l = shared.leaked.lock().unwrap().clone();
                        l.expect("leaked ref").kill();
                    } else {
                        sup_ref.stop(None);
                        let _ = sup_ref.wait(None).await;
                    }
                    gate.release();
                }
                match task.await {
                    Ok(Some(Ok(x))) => spawned_ok = Some(x),
                    Ok(Some(Err(e))) => spawn_err = Some(format!("{e}")),
                    Ok(None) => cut_happened = true,
                    Err(e) if e.is_panic() && case.cause == Cause::PreStartSyncPanic => spawn_err = Some(format!("{PANIC_MARK} the spawn call unwound into the caller")),
                    Err(e) => v.push(("spawner-task".into(), format!("spawning task failed: {e:?}"))),
                }
            }
            Api::SpawnInstant | Api::SpawnLinkedInstant => {
                let linked = case.api == Api::SpawnLinkedInstant;
                #[cfg(not(feature = "alt"))]
                let sync_instant = case.cause == Cause::PreStartSyncPanic;
                #[cfg(feature = "alt")]
                let sync_instant = false;
                let r = match (&spawner, linked) {
                    #[cfg(not(feature = "alt"))]
                    (None, true) if sync_instant => ractor::ActorRuntime::<SyncPanic>::spawn_linked_instant(subj.name.clone(), SyncPanic { effects: sync_effects.clone() }, (), supc.clone()),
                    #[cfg(not(feature = "alt"))]
                    (None, false) if sync_instant => ractor::ActorRuntime::<SyncPanic>::spawn_instant(subj.name.clone(), SyncPanic { effects: sync_effects.clone() }, ()),
                    (None, true) => ractor::ActorRuntime::<Probe>::spawn_linked_instant(subj.name.clone(), Probe { spec: subj.clone() }, (), supc.clone()),
                    (None, false) => ractor::ActorRuntime::<Probe>::spawn_instant(subj.name.clone(), Probe { spec: subj.clone() }, ()),
                    (Some(sp), true) => {
                        use ractor::thread_local::ThreadLocalActor;
                        TlProbe::spawn_linked_instant(subj.name.clone(), subj.clone(), supc.clone(), sp.clone())
                    }
                    (Some(sp), false) => {
                        use ractor::thread_local::ThreadLocalActor;
                        TlProbe::spawn_instant(subj.name.clone(), subj.clone(), sp.clone())
                    }
                };
                match r {
                    Err(e) => spawn_err = Some(format!("{e}")),
                    Ok((aref, outer)) => {
                        *shared.leaked.lock().unwrap() = Some(aref.get_cell());
                        // linked from outside through the reference that exists at once, while the actor is still Unstarted
                        // (its start task may then be cancelled before it is ever polled)
                        if matches!(case.cause, Cause::AbortStartTask(_)) && case.effects & E_LINK != 0 {
                            aref.get_cell().link(other_ref.get_cell());
                        }
                        if let Cause::AbortStartTask(k) = case.cause {
                            c.register_abort(&name, outer.abort_handle());
                            c.set_abort_at(&name, k);
                        }
                        // messages queued through the instant reference before the start ran
                        if case.effects & E_SELFMSG != 0 {
                            let _ = aref.send_message(PMsg::Work(Work::new(&trace, 5, 1, vec![])));
                        }
                        if matches!(case.cause, Cause::KillDuringStart | Cause::SupervisorStopped) {
                            gate.wait_reached().await;
                            if case.cause == Cause::KillDuringStart {
                                aref.kill();
                            } else {
                                sup_ref.stop(None);
                                let _ = sup_ref.wait(None).await;
                            }
                            gate.release();
                        }
                        match outer.await {
                            Ok(Ok(inner)) => spawned_ok = Some((aref, inner)),
                            Ok(Err(e)) => spawn_err = Some(format!("{e}")),
                            Err(e) if e.is_cancelled() => cut_happened = true,
                            Err(e) if e.is_panic() && sync_instant => spawn_err = Some(format!("{PANIC_MARK} the start task unwound")),
                            Err(e) => v.push(("start-task".into(), format!("start task join error {e:?}"))),
                        }
                    }
                }
            }
        }
        let t_fail = crate::trace::stamp();
        trace.note(format!("spawn outcome: ok={} err={spawn_err:?} cut={cut_happened}", spawned_ok.is_some()));
        settle().await;
        if is_tl {
            tokio::time::sleep(std::time::Duration::from_millis(15)).await;
        } else {
            vt::quiesce(1).await;
        }
        let summary = format!("ok={} err={spawn_err:?} cut={cut_happened}", spawned_ok.is_some());
        let failed = spawned_ok.is_none();
        let leaked = shared.leaked.lock().unwrap().clone();
        let mut bad = |c: &str, d: String| v.push((c.to_string(), d));
        if failed {
            // expected error kinds
            match case.cause {
                Cause::NameTaken => {
                    if !spawn_err.as_deref().map(|e| e.contains("already registered")).unwrap_or(false) {
                        bad("error-kind", format!("name clash reported as {spawn_err:?}"));
                    }
                }
                Cause::PreStartErr | Cause::PreStartPanic | Cause::PreStartSyncPanic => {
                    if !spawn_err.as_deref().map(|e| e.contains(PANIC_MARK)).unwrap_or(false) {
                        bad("error-kind", format!("pre_start failure reported as {spawn_err:?}"));
                    }
                }
                _ => {}
            }
            // 1. no callback of the subject after the failure point
            let recs = trace.snapshot();
            // thread-local only: the caller can be cut while the start task (on the spawner thread) has already finished
            // pre_start. The actor then did start; the cancellation reaches it asynchronously. In that window callbacks that
            // began before the actor reached Stopped, an answered queued call and a consistent cancellation event are legitimate.
            // (the request may also have been *picked up* by the spawner thread just before the caller was cut, with pre_start
            // beginning a moment later - one pick in flight, rule 3.2 - or still running when the trace was read: an Enter is enough)
            let started_before_cut = is_tl && cut_happened && recs.iter().any(|r| matches!(&r.ev, Ev::Enter { uid: SUBJ, cb: crate::trace::Cb::PreStart, .. }));
            let mut t_quiet = t_fail;
            let mut leaked = leaked;
            if started_before_cut {
                for _ in 0..300 {
                    if leaked.is_some() {
                        break;
                    }
                    tokio::time::sleep(std::time::Duration::from_millis(10)).await;
                    leaked = shared.leaked.lock().unwrap().clone();
                }
                if let Some(l) = &leaked {
                    let _ = tokio::time::timeout(std::time::Duration::from_secs(5), l.wait(None)).await;
                    t_quiet = crate::trace::stamp();
                    tokio::time::sleep(std::time::Duration::from_millis(10)).await;
                }
            }
            let recs = if started_before_cut { trace.snapshot() } else { recs };
            for r in &recs {
                if let Ev::Enter { uid: SUBJ, cb, .. } = &r.ev {
                    if r.ts > t_quiet {
                        bad("callback-after-failure", format!("subject ran {cb:?} at #{} after the spawn had failed/was cancelled (#{t_quiet})", r.ts));
                    }
                }
            }
            if let Some(l) = &leaked {
                // 2. status + waiters
                if l.get_status() != ActorStatus::Stopped {
                    bad("status", format!("failed spawn left the actor {:?}", l.get_status()));
                }
                let w = tokio::time::timeout(std::time::Duration::from_secs(if is_tl { 5 } else { 3600 }), l.wait(None)).await;
                if w.is_err() {
                    bad("waiter-stuck", "wait() on the leaked reference of the failed actor does not return".into());
                }
                // 3. registries
                if case.cause != Cause::NameTaken {
                    if let Some(cur) = ractor::registry::where_is(&name) {
                        if cur.get_id() == l.get_id() {
                            bad("name-leak", "the name of the failed actor is still registered".into());
                        }
                    }
                }
                #[cfg(feature = "cluster")]
                if ractor::registry::where_is_pid(l.get_id()).is_some() {
                    bad("pid-leak", "the pid of the failed actor is still registered".into());
                }
                #[cfg(feature = "cluster")]
                if ractor::registry::pid_registry::verif_listeners().contains(&l.get_id()) {
                    bad("pid-monitor-leak", "the failed actor is still a pid lifecycle listener".into());
                }
                // 4. pg
                let pg = ractor::pg::verif_snapshot();
                let id = l.get_id();
                let in_pg = pg.map.iter().any(|(_, _, m, ls)| m.contains(&id) || ls.contains(&id))
                    || pg.world_listeners.iter().any(|(_, _, ls)| ls.contains(&id))
                    || pg.relations.iter().any(|(a, ..)| *a == id);
                if in_pg {
                    bad("pg-leak", format!("the failed actor {id} still appears in the pg tables: {pg:?}"));
                }
                // 5. supervision
                for (who, s) in [("intended supervisor", &sup_ref), ("other", &other_ref)] {
                    if s.get_children().iter().any(|c| c.get_id() == id) {
                        bad("child-set-leak", format!("the failed actor is still in the child set of the {who}"));
                    }
                }
                if l.try_get_supervisor().is_some() {
                    if std::env::var("C08_DEBUG").is_ok() {
                        eprintln!("DEBUG leaked {:?} status {:?} sup {:?} sup-status {:?}", l.get_id(), l.get_status(), l.try_get_supervisor().map(|s| s.get_id()), l.try_get_supervisor().map(|s| s.get_status()));
                        tokio::time::sleep(std::time::Duration::from_millis(300)).await;
                        eprintln!("DEBUG later: sup {:?}", l.try_get_supervisor().map(|s| s.get_id()));
                    }
                    bad("child-set-leak", "the failed actor still has a supervisor".into());
                }
                let pid = ractor::verif::id_u64(&id);
                let evs: Vec<(u64, SupKind, String)> = recs
                    .iter()
                    .filter_map(|r| match &r.ev {
                        Ev::Sup { uid, kind, who, detail, .. }
                            if *who == pid && (*uid == SUP || *uid == OTHER) && matches!(kind, SupKind::Started | SupKind::Terminated | SupKind::Failed) =>
                        {
                            Some((*uid, *kind, detail.clone()))
                        }
                        _ => None,
                    })
                    .collect();
                // a cut that lands after the start task had already completed (post_start ran, ActorStarted was sent) must be
                // reported consistently: Started followed by exactly one cancellation terminal; anything else is a stray event
                let cancelled_last = evs.last().map(|e| e.1 == SupKind::Terminated && e.2 == "actor_task_cancelled").unwrap_or(false);
                let started_then_cancelled = started_before_cut
                    && cancelled_last
                    && (evs.len() == 1 || (evs.len() == 2 && evs[0].1 == SupKind::Started));
                if !evs.is_empty() && !started_then_cancelled {
                    bad("event-emitted", format!("supervision events were emitted for an actor whose spawn failed: {evs:?}"));
                }
            } else if case.cause != Cause::NameTaken && !matches!(case.cause, Cause::CutAfter(0) | Cause::AbortStartTask(_) | Cause::CutAfter(1) | Cause::CutLate(_)) && !is_tl {
                bad("harness", "no leaked reference although pre_start should have run".into());
            }
            // 6. its own child is stopped
            if case.effects & E_CHILD != 0 {
                let cp = child_spec.pid.load(Ordering::SeqCst);
                if cp != u64::MAX {
                    #[cfg(feature = "cluster")]
                    if let Some(cc) = ractor::registry::where_is_pid(ractor::ActorId::Local(cp)) {
                        bad("child-alive", format!("the linked child spawned by the failed pre_start is still {:?}", cc.get_status()));
                    }
                }
            }
            // 7. queued messages dropped, queued call answered with an error
            let recs = trace.snapshot();
            let sent_ok: Vec<u64> = recs
                .iter()
                .filter_map(|r| match &r.ev {
                    Ev::Ret { client: u32::MAX, op, arg, res: 1 } if *op == "send" => Some(*arg),
                    _ => None,
                })
                .collect();
            for seq in sent_ok {
                let dropped = recs.iter().any(|r| matches!(&r.ev, Ev::Dropped { sender: u32::MAX, seq: s, .. } if *s == seq));
                if !dropped {
                    bad("queued-message-leak", format!("self-sent message {seq} queued during pre_start was never dropped"));
                }
            }
            let rx = shared.call_rx.lock().unwrap().take();
            if let Some(rx) = rx {
                match tokio::time::timeout(std::time::Duration::from_secs(if is_tl { 5 } else { 3600 }), rx).await {
                    Ok(Err(_)) => {}
                    Ok(Ok(_)) if started_before_cut => {}
                    Ok(Ok(val)) => bad("queued-call", format!("queued call was answered with {val} by an actor that never started")),
                    Err(_) => bad("queued-call-hangs", "the reply port of a call queued during pre_start was never closed".into()),
                }
            }
            // 8. the name is reusable
            if case.cause != Cause::NameTaken {
                let fresh = Arc::new(ProbeSpec::new(9, Some(name.clone()), trace.clone()));
                match spawn_probe(&fresh, None).await {
                    Ok((r, h)) => {
                        r.stop(None);
                        let _ = h.await;
                    }
                    Err(e) => bad("name-not-reusable", format!("a fresh spawn under the same name failed: {e}")),
                }
            }
        } else if !matches!(case.cause, Cause::CutAfter(_) | Cause::CutLate(_) | Cause::AbortStartTask(_))
            // a thread-local actor links before pre_start: if pre_start re-links it elsewhere, the death of the
            // first supervisor no longer concerns it
            && !(is_tl && case.cause == Cause::SupervisorStopped && case.effects & E_LINK != 0)
        {
            bad("unexpected-success", format!("spawn succeeded although cause {:?} was injected", case.cause));
        }
        // name clash changes nothing about the holder
        if let Some((h, _)) = &holder {
            let cur = ractor::registry::where_is(&name);
            if cur.map(|c| c.get_id()) != Some(h.get_id()) {
                bad("holder-disturbed", "after the name clash the original holder is no longer registered".into());
            }
            if h.get_status() != ActorStatus::Running {
                bad("holder-disturbed", format!("original holder is {:?}", h.get_status()));
            }
            if !ractor::pg::get_scoped_members(&g1.0, &g1.1).iter().any(|m| m.get_id() == h.get_id()) {
                bad("holder-disturbed", "original holder lost its group membership".into());
            }
        }
        // ---- teardown
        if let Some((r, h)) = spawned_ok {
            r.stop(None);
            let _ = h.await;
        }
        if let Some((r, h)) = holder {
            r.stop(None);
            let _ = h.await;
        }
        for (r, h) in [(sup_ref, sup_h), (other_ref, other_h)] {
            r.stop(None);
            let _ = h.await;
        }
        if is_tl {
            tokio::time::sleep(std::time::Duration::from_millis(10)).await;
        } else {
            vt::quiesce(1).await;
        }
        *out.lock().unwrap() = Some((trace, v, failed, summary));
    };
    let res = match &tl {
        Some((rt, _)) => {
            crate::th::begin(seed, 20);
            let r = rt.block_on(async { tokio::time::timeout(std::time::Duration::from_secs(60), body).await.ok() });
            crate::th::end();
            r
        }
        None => vt::run(seed, 0, body),
    };
    let got = out.lock().unwrap().take();
    let mut v = vec![];
    if res.is_none() {
        if is_tl {
            return CaseResult { violations: vec![], recs: vec![], nontrivial: false, sig: 0, summary: "INCONCLUSIVE".into() };
        }
        v.push(("stuck".to_string(), "scenario pending at the virtual-time horizon".to_string()));
    }
    let (recs, failed, summary) = match got {
        Some((trace, vv, failed, summary)) => {
            v.extend(vv);
            for (c, d) in trace.online_violations.lock().unwrap().iter() {
                v.push((c.clone(), d.clone()));
            }
            (trace.snapshot(), failed, summary)
        }
        None => (vec![], false, String::new()),
    };
    if is_tl {
        let _ = crate::th::settle_leaks();
    }
    for l in vt::global_leaks() {
        v.push(("leak".into(), l));
    }
    for (loc, msg) in crate::take_foreign_panics() {
        v.push(("foreign-panic".into(), format!("{loc}: {msg}")));
    }
    let enters = recs.iter().filter(|r| matches!(&r.ev, Ev::Enter { uid: SUBJ, .. })).count() as u64;
    let ticks = recs.iter().filter(|r| matches!(&r.ev, Ev::Tick { uid: SUBJ, .. })).count() as u64;
    CaseResult {
        violations: v,
        nontrivial: failed,
        sig: hash_words(&[crate::prng::hash_str(&format!("{:?}{:?}", case.cause, case.api)), case.effects as u64, enters, ticks, failed as u64, is_tl as u64]),
        recs,
        summary,
    }
}

/// Thread-local only: the caller is cancelled while its spawn request still sits in the spawner's queue (the spawner
/// thread is provably busy: a blocker actor's handler holds the thread until the harness releases it, which it does only
/// after the spawn future was dropped). Nothing of the abandoned actor may ever run, and nothing of it may remain.
pub fn run_cut_queued(idx: u64, rt: &tokio::runtime::Runtime, spawner: ractor::thread_local::ThreadLocalActorSpawner) -> CaseResult {
    let linked = idx % 2 == 0;
    let polls = 1 + (idx / 2) % 3; // polls of the spawn future before it is dropped (all while the spawner is held)
    let trace = Arc::new(Trace::new());
    let mut v: Vec<(String, String)> = vec![];
    let name = format!("c08-queued-{idx}");
    let (tx, rxc) = std::sync::mpsc::channel::<()>();
    let rxc = Arc::new(Mutex::new(rxc));
    let entered = Arc::new(std::sync::atomic::AtomicBool::new(false));
    rt.block_on(async {
        let sup = Arc::new(ProbeSpec::new(SUP, Some(format!("c08-qsup-{idx}")), trace.clone()));
        let (sup_ref, sup_h) = spawn_probe(&sup, None).await.expect("sup");
        let blocker = Arc::new(ProbeSpec::new(HOLDER, Some(format!("c08-blocker-{idx}")), trace.clone()));
        let (blk, blk_h) = spawn_tl_probe(&blocker, None, spawner.clone()).await.expect("blocker");
        let (e2, r2) = (entered.clone(), rxc.clone());
        let hold: Arc<dyn Fn(&ActorRef<PMsg>) + Send + Sync> = Arc::new(move |_| {
            e2.store(true, Ordering::SeqCst);
            let _ = r2.lock().unwrap().recv_timeout(std::time::Duration::from_secs(20));
        });
        let _ = blk.send_message(PMsg::Work(Work::new(&trace, 9, 0, vec![Step::Do(hold)])));
        for _ in 0..4000 {
            if entered.load(Ordering::SeqCst) {
                break;
            }
            tokio::time::sleep(std::time::Duration::from_micros(500)).await;
        }
        if !entered.load(Ordering::SeqCst) {
            v.push(("setup".into(), "the blocker never entered its handler".into()));
        }
        // the subject: every callback is logged by the probe itself
        let mut subj = ProbeSpec::new(SUBJ, Some(name.clone()), trace.clone());
        subj.pre_start = vec![Step::Join("c08q".into(), format!("g-{idx}")), Step::Yield, Step::Sleep(2)];
        let subj = Arc::new(subj);
        let supc = sup_ref.get_cell();
        let (s2, sp2) = (subj.clone(), spawner.clone());
        let fut = async move { spawn_tl_probe(&s2, if linked { Some(supc) } else { None }, sp2).await };
        let mut m = crate::th::Manual::new(fut);
        for _ in 0..polls {
            if m.poll() {
                break;
            }
        }
        let completed = m.done.is_some();
        drop(m); // the caller goes away while the request is queued
        let t_drop = crate::trace::stamp();
        let _ = tx.send(()); // only now may the spawner thread pick the request up
        if completed {
            v.push(("setup".into(), "the spawn completed although the spawner thread was held".into()));
        }
        tokio::time::sleep(std::time::Duration::from_millis(30)).await;
        let recs = trace.snapshot();
        for r in &recs {
            if let Ev::Enter { uid: SUBJ, cb, .. } = &r.ev {
                v.push(("callback-after-failure".into(), format!("the spawn future was dropped (#{t_drop}) while the request was still queued behind a busy spawner, yet the abandoned actor ran {cb:?} at #{}", r.ts)));
            }
            if let Ev::Sup { uid: SUP, who, .. } = &r.ev {
                let _ = who;
                v.push(("event-emitted".into(), "the intended supervisor received an event for an actor whose spawn was cancelled while queued".into()));
            }
        }
        if ractor::registry::where_is(name.clone()).is_some() {
            v.push(("name-leak".into(), format!("the name {name} of the abandoned actor is registered 30 ms after the spawner resumed")));
        }
        if !ractor::pg::get_scoped_members(&"c08q".to_string(), &format!("g-{idx}")).is_empty() {
            v.push(("pg-leak".into(), "the abandoned actor is a member of the group its pre_start joins".into()));
        }
        // a fresh spawn under the same name succeeds
        match spawn_tl_probe(&Arc::new(ProbeSpec::new(OTHER, Some(name.clone()), trace.clone())), None, spawner.clone()).await {
            Ok((a, h)) => {
                a.stop(None);
                let _ = h.await;
            }
            Err(e) => v.push(("name-leak".into(), format!("a fresh spawn under the abandoned actor's name failed: {e}"))),
        }
        blk.stop(None);
        let _ = blk_h.await;
        sup_ref.stop(None);
        let _ = sup_h.await;
    });
    let _ = crate::th::settle_leaks();
    for l in vt::global_leaks() {
        v.push(("leak".into(), l));
    }
    for (loc, msg) in crate::take_foreign_panics() {
        v.push(("foreign-panic".into(), format!("{loc}: {msg}")));
    }
    let recs = trace.snapshot();
    CaseResult { violations: v, recs, nontrivial: true, sig: hash_words(&[0xC0DE, linked as u64, polls]), summary: format!("cut-while-queued linked={linked} polls={polls}") }
}

pub fn run(args: &Args, rep: &mut Report) {
    let tl_env = if args.engine == "th" {
        Some((crate::th::runtime(3), ractor::thread_local::ThreadLocalActorSpawner::new()))
    } else {
        None
    };
    let cases = all_cases(tl_env.is_some());
    let n = cases.len() as u64;
    // quick tier: a seeded third of the effect subsets for the non-thread-local family (all causes x APIs always)
    let quick = args.tier == "quick" && tl_env.is_none();
    let idxs: Vec<u64> = match args.replay {
        Some(s) => vec![s],
        None => (0..n)
            .filter(|i| i % args.nshards == args.shard)
            .filter(|i| !quick || crate::prng::mix(*i ^ args.seed) % 3 == 0 || cases[*i as usize].effects == 63 || cases[*i as usize].effects == 0)
            .collect(),
    };
    for idx in idxs {
        let case = &cases[idx as usize];
        crate::watch_begin(idx);
        let r = run_case(idx, case, tl_env.as_ref().map(|(rt, sp)| (rt, sp.clone())));
        crate::watch_end();
        if r.summary == "INCONCLUSIVE" {
            rep.inconclusive.push(format!("case {idx} {case:?}: wall-clock timeout on the thread engine"));
            continue;
        }
        rep.scenario(r.nontrivial, r.sig);
        rep.count("events_observed", r.recs.len() as u64);
        rep.count(
            match case.cause {
                Cause::CutAfter(_) => "cause_cut_after_n",
                Cause::CutLate(_) => "cause_cut_late_n",
                Cause::AbortStartTask(_) => "cause_abort_start_task_at_poll_k",
                Cause::PreStartErr | Cause::PreStartPanic => "cause_pre_start_failure",
                Cause::PreStartSyncPanic => "cause_pre_start_sync_panic",
                Cause::NameTaken => "cause_name_taken",
                Cause::KillDuringStart => "cause_kill_during_start",
                Cause::SupervisorStopped => "cause_supervisor_stopped",
            },
            1,
        );
        if r.nontrivial {
            rep.count("spawns_that_failed", 1);
        }
        if idx % 499 == 3 || (rep.samples.is_empty() && r.nontrivial && case.effects == 63) {
            rep.sample(J::obj().set("case_index", idx).set("case", format!("{case:?}")).set("observed", r.summary.clone()).set("trace_excerpt", Trace::render(&r.recs, 14)));
        }
        for (clause, detail) in r.violations {
            rep.violation(Violation {
                signature: format!("{clause} cause={:?} api={:?}", case.cause, case.api),
                clause,
                detail,
                scenario_seed: idx,
                scenario: format!("{case:?}"),
                trace: Trace::render(&r.recs, 60),
            });
        }
    }
    // thread-local: cancellation while the request is queued behind a busy spawner (6 variants, each shard runs them twice)
    if let (Some((rt, sp)), None) = (&tl_env, args.replay) {
        for rep_i in 0..2u64 {
            for k in 0..6u64 {
                let idx = 1_000_000 + k + 6 * (rep_i + 2 * args.shard);
                crate::watch_begin(idx);
                let r = run_cut_queued(idx, rt, sp.clone());
                crate::watch_end();
                rep.scenario(r.nontrivial, r.sig);
                rep.count("cause_cut_while_queued", 1);
                rep.count("events_observed", r.recs.len() as u64);
                for (clause, detail) in r.violations {
                    rep.violation(Violation { signature: format!("{clause} cause=CutWhileQueued"), clause, detail, scenario_seed: idx, scenario: r.summary.clone(), trace: Trace::render(&r.recs, 40) });
                }
            }
        }
    }
    rep.count("family_size", if args.shard == 0 { n } else { 0 });
    rep.exhaustive = Some(args.replay.is_none() && !quick);
}
