//! C05 — an exiting actor takes its whole subtree with it; links stay consistent.
//!
//! Random supervision trees of Probes with message backlogs (some nodes already draining); one node
//! exits for a random cause while concurrent tasks link / unlink / spawn_linked around it and an
//! observer takes atomic tree snapshots (H3, under the tree lock). "Is killed" is checked
//! behaviourally: once the exiting node's wait() has returned, no descendant starts another callback.
use std::collections::{HashMap, HashSet};
use std::sync::atomic::{AtomicBool, Ordering};
use std::sync::Arc;

use ractor::{ActorCell, ActorId, ActorRef, ActorStatus};

use crate::json::J;
use crate::prng::{hash_words, Prng};
use crate::probe::*;
use crate::report::{Report, Violation};
use crate::trace::{Cb, Ev, Rec, Trace};
use crate::{vt, Args};

struct Node {
    uid: u64,
    parent: Option<usize>,
    spec: Arc<ProbeSpec>,
    actor: ActorRef<PMsg>,
    handle: Option<ractor::concurrency::JoinHandle<()>>,
}

/// Check the structural invariant on one atomic snapshot. Returns violations.
pub fn check_snapshot(cells: &[ActorCell], snap: &[(Option<Vec<ActorId>>, Option<ActorId>)], quiescent: bool) -> Vec<(String, String)> {
    let mut v = vec![];
    let idx: HashMap<ActorId, usize> = cells.iter().enumerate().map(|(i, c)| (c.get_id(), i)).collect();
    for (i, (children, sup)) in snap.iter().enumerate() {
        let me = cells[i].get_id();
        // child listed => child's supervisor is me
        if let Some(ch) = children {
            for c in ch {
                if let Some(ci) = idx.get(c) {
                    if snap[*ci].1 != Some(me) {
                        v.push(("tree-bijection".into(), format!("{c} is in children({me}) but supervisor({c}) = {:?}", snap[*ci].1)));
                    }
                }
            }
        }
        // my supervisor lists me
        if let Some(s) = sup {
            if let Some(si) = idx.get(s) {
                let listed = snap[*si].0.as_ref().map(|ch| ch.contains(&me)).unwrap_or(false);
                if !listed {
                    v.push(("tree-bijection".into(), format!("supervisor({me}) = {s} but {me} is not in children({s}) = {:?}", snap[*si].0)));
                }
            }
        }
        if quiescent {
            let st = cells[i].get_status();
            if st == ActorStatus::Stopped {
                if sup.is_some() {
                    v.push(("stopped-has-supervisor".into(), format!("stopped actor {me} still has supervisor {sup:?}")));
                }
                if children.as_ref().map(|c| !c.is_empty()).unwrap_or(false) {
                    v.push(("stopped-has-children".into(), format!("stopped actor {me} still has children {children:?}")));
                }
            } else if st < ActorStatus::Stopping {
                if let Some(s) = sup {
                    if let Some(si) = idx.get(s) {
                        if cells[*si].get_status() >= ActorStatus::Stopping {
                            v.push(("orphan-running".into(), format!("actor {me} ({st:?}) keeps running under supervisor {s} which is {:?}", cells[*si].get_status())));
                        }
                    }
                }
                if children.is_none() {
                    v.push(("closed-but-live".into(), format!("actor {me} ({st:?}) has a closed child set")));
                }
            }
        }
    }
    v
}

pub struct Outcome {
    pub violations: Vec<(String, String)>,
    pub recs: Vec<Rec>,
    pub nontrivial: bool,
    pub sig: u64,
    pub desc: Vec<String>,
    pub snapshots: u64,
    pub link_ops: u64,
}

#[derive(Clone, Copy, Debug, PartialEq, Eq)]
enum Cause {
    Stop,
    Kill,
    Drain,
    Panic,
    Err,
    Abort,
}

async fn body(seed: u64, trace: Arc<Trace>, threaded: bool) -> Outcome {
    let mut p = Prng::new(seed);
    let mut desc = vec![];
    let mut v: Vec<(String, String)> = vec![];
    let settle_ms = |ms: u64| async move {
        tokio::time::sleep(std::time::Duration::from_millis(ms)).await;
    };
    // ---- lock-ordered monitor: once an actor has published Draining/Stopping and the tree lock has been taken after that
    // (here: by this tap, from the exiting thread itself), no link may reach its mutation step with that actor as the
    // supervisor (>= Draining) or as the child (>= Stopping): link decides under the same lock, so it must see the status.
    let tap_log: Arc<std::sync::Mutex<Vec<(u8, u64, u64, u64)>>> = Arc::new(std::sync::Mutex::new(vec![]));
    // (thread engine: the tap's own tree-lock round trip orders the exiting thread behind a linker that holds the lock, which hides a
    // window in which the exit path does not take that lock; half of the threaded scenarios therefore run without the tap)
    let use_tap = !threaded || Prng::new(seed ^ 0x7a9).chance(1, 2);
    if use_tap {
        let tl = tap_log.clone();
        crate::ctl::ctl().set_tap(Some(Arc::new(move |id, a, b| {
            use ractor::verif::pt;
            if id == pt::CLEANUP_AFTER_STOPPING || id == pt::DRAIN_AFTER_STATUS {
                let _ = ActorCell::verif_tree_snapshot(&[]); // tree-lock round trip
                tl.lock().unwrap().push((if id == pt::DRAIN_AFTER_STATUS { 1 } else { 2 }, a, 0, crate::trace::stamp()));
            } else if id == pt::LINK_IN_LOCK {
                tl.lock().unwrap().push((0, a, b, crate::trace::stamp()));
            }
        })));
    }
    // ---- build the tree
    let n = p.range(3, 12) as usize;
    let mut nodes: Vec<Node> = vec![];
    for i in 0..n {
        let parent = if i == 0 { None } else { Some(p.below(i as u64) as usize) };
        let uid = 10 + i as u64;
        let spec = Arc::new(ProbeSpec::new(uid, Some(format!("c05-{seed:x}-n{i}")), trace.clone()));
        let sup = parent.map(|pi| nodes[pi].actor.get_cell());
        match spawn_probe(&spec, sup).await {
            Ok((actor, handle)) => nodes.push(Node { uid, parent, spec, actor, handle: Some(handle) }),
            Err(e) => {
                v.push(("setup".into(), format!("tree build spawn failed: {e}")));
                return Outcome { violations: v, recs: trace.snapshot(), nontrivial: false, sig: 0, desc, snapshots: 0, link_ops: 0 };
            }
        }
    }
    let descendants = |root: usize, nodes: &Vec<Node>| -> Vec<usize> {
        let mut out = vec![];
        for i in 0..nodes.len() {
            let mut cur = nodes[i].parent;
            while let Some(pi) = cur {
                if pi == root {
                    out.push(i);
                    break;
                }
                cur = nodes[pi].parent;
            }
        }
        out
    };
    // thread engine, a third of the scenarios: the victim is a childless node and the concurrent operations aim at it, so that the
    // *first* child ever linked to it arrives while it exits
    let all_leaves: Vec<usize> = (1..n).filter(|i| !nodes.iter().any(|x| x.parent == Some(*i))).collect();
    let leaf_mode = threaded && !all_leaves.is_empty() && p.chance(1, 3);
    let victim = if leaf_mode { *p.pick(&all_leaves) } else { p.below(n as u64) as usize };
    let d = descendants(victim, &nodes);
    let leaves: Vec<usize> = (1..n).filter(|i| !nodes.iter().any(|x| x.parent == Some(*i)) && *i != victim).collect();
    // movable leaves are relinked concurrently and excluded from the model-based clauses
    let movable: Vec<usize> = leaves.iter().copied().filter(|_| p.chance(1, 2)).collect();
    // ---- backlog
    for (i, nd) in nodes.iter().enumerate() {
        let k = p.below(5);
        for j in 0..k {
            let script = vec![Step::Sleep(p.range(2, 5)), Step::Yield];
            let _ = nd.actor.send_message(PMsg::Work(Work::new(&trace, i as u32, j, script)));
        }
    }
    // some descendants are already draining when the exit happens
    let mut drained = vec![];
    for &i in &d {
        if p.chance(1, 4) {
            let _ = nodes[i].actor.drain();
            drained.push(i);
        }
    }
    let cause = *p.pick(&[Cause::Stop, Cause::Kill, Cause::Drain, Cause::Panic, Cause::Err, Cause::Abort]);
    desc.push(format!(
        "n={n} parents={:?} victim={victim} cause={cause:?} descendants={d:?} draining={drained:?} movable={movable:?} threaded={threaded}",
        nodes.iter().map(|x| x.parent.map(|p| p as i64).unwrap_or(-1)).collect::<Vec<_>>()
    ));
    let cells: Vec<ActorCell> = nodes.iter().map(|n| n.actor.get_cell()).collect();
    // ---- observer: atomic snapshots, invariant checked at each
    let stop_flag = Arc::new(AtomicBool::new(false));
    let obs = {
        let (cells, tr, stop_flag) = (cells.clone(), trace.clone(), stop_flag.clone());
        vt::spawn_h("c05-observer", async move {
            let mut count = 0u64;
            // statuses read BEFORE a snapshot was taken, and that snapshot: whoever takes the tree lock after an actor was
            // seen Draining/Stopping must find its admission of children closed (link decides under that lock)
            let mut prev: Option<(Vec<ActorStatus>, Vec<(Option<Vec<ActorId>>, Option<ActorId>)>)> = None;
            while !stop_flag.load(Ordering::SeqCst) {
                let st_before: Vec<ActorStatus> = cells.iter().map(|c| c.get_status()).collect();
                let snap = ActorCell::verif_tree_snapshot(&cells);
                for (c, dd) in check_snapshot(&cells, &snap, false) {
                    tr.online_violation(&c, dd);
                }
                if let Some((pst, psnap)) = &prev {
                    for i in 0..cells.len() {
                        if pst[i] >= ActorStatus::Draining {
                            let old: Vec<ActorId> = psnap[i].0.clone().unwrap_or_default();
                            for c in snap[i].0.clone().unwrap_or_default() {
                                if !old.contains(&c) {
                                    tr.online_violation(
                                        "gained-child-while-exiting",
                                        format!("{} was seen {:?}, then listed children {old:?}, later lists the new child {c}", cells[i].get_id(), pst[i]),
                                    );
                                }
                            }
                        }
                        if pst[i] >= ActorStatus::Stopping && snap[i].1.is_some() && snap[i].1 != psnap[i].1 {
                            tr.online_violation(
                                "exiting-child-relinked",
                                format!("{} was seen {:?} with supervisor {:?}, later has the new supervisor {:?}", cells[i].get_id(), pst[i], psnap[i].1, snap[i].1),
                            );
                        }
                    }
                }
                prev = Some((st_before, snap));
                count += 1;
                tokio::task::yield_now().await;
                if count % 4 == 0 {
                    tokio::time::sleep(std::time::Duration::from_micros(300)).await;
                }
            }
            count
        })
    };
    // ---- concurrent link / unlink / spawn_linked tasks
    let nops_tasks = p.range(1, 3);
    let mut tasks = vec![];
    let new_nodes: Arc<std::sync::Mutex<Vec<(usize, Arc<ProbeSpec>, ActorRef<PMsg>, ractor::concurrency::JoinHandle<()>)>>> =
        Arc::new(std::sync::Mutex::new(vec![]));
    let link_ops = Arc::new(std::sync::atomic::AtomicU64::new(0));
    for t in 0..nops_tasks {
        let mut sp = p.fork();
        let tr = trace.clone();
        let cells = cells.clone();
        let movable = movable.clone();
        let new_nodes = new_nodes.clone();
        let link_ops = link_ops.clone();
        let nn = n;
        tasks.push(vt::spawn_h(&format!("c05-ops{t}"), async move {
            let ops = sp.range(2, 8);
            for o in 0..ops {
                for _ in 0..sp.below(4) {
                    tokio::task::yield_now().await;
                }
                if sp.chance(1, 4) {
                    tokio::time::sleep(std::time::Duration::from_millis(sp.range(1, 3))).await;
                }
                let target = if leaf_mode && sp.chance(2, 3) { victim } else { sp.below(nn as u64) as usize };
                match sp.below(3) {
                    0 if !movable.is_empty() => {
                        let x = *sp.pick(&movable);
                        if x != target {
                            // expected outcome decided from statuses read BEFORE the call (single-thread engine: exact)
                            let refuse = cells[x].get_status() >= ActorStatus::Stopping || cells[target].get_status() >= ActorStatus::Draining;
                            let before_sup = cells[x].try_get_supervisor().map(|s| s.get_id());
                            tr.log(Ev::Call { client: 300 + t as u32, op: "link", arg: (x as u64) << 16 | target as u64 });
                            cells[x].link(cells[target].clone());
                            let now_sup = cells[x].try_get_supervisor().map(|s| s.get_id());
                            let linked = now_sup == Some(cells[target].get_id());
                            tr.log(Ev::Ret { client: 300 + t as u32, op: "link", arg: (x as u64) << 16 | target as u64, res: linked as i64 });
                            link_ops.fetch_add(1, Ordering::Relaxed);
                            if refuse && linked && before_sup != Some(cells[target].get_id()) && !threaded {
                                tr.online_violation(
                                    "link-onto-exiting",
                                    format!("link({x} -> {target}) took effect although the child was stopping/stopped or the supervisor draining/stopping/stopped before the call"),
                                );
                            }
                        }
                    }
                    1 if !movable.is_empty() => {
                        let x = *sp.pick(&movable);
                        if let Some(s) = cells[x].try_get_supervisor() {
                            tr.log(Ev::Call { client: 300 + t as u32, op: "unlink", arg: x as u64 });
                            cells[x].unlink(s);
                            tr.log(Ev::Ret { client: 300 + t as u32, op: "unlink", arg: x as u64, res: 0 });
                            link_ops.fetch_add(1, Ordering::Relaxed);
                        }
                    }
                    _ => {
                        let uid = 1000 + (t * 100 + o);
                        let spec = Arc::new(ProbeSpec::new(uid, Some(format!("c05-{:x}-new{uid}", sp.0)), tr.clone()));
                        let sup_status_before = cells[target].get_status();
                        tr.log(Ev::Call { client: 300 + t as u32, op: "spawn_linked", arg: target as u64 });
                        let r = spawn_probe(&spec, Some(cells[target].clone())).await;
                        tr.log(Ev::Ret { client: 300 + t as u32, op: "spawn_linked", arg: target as u64, res: r.is_ok() as i64 });
                        link_ops.fetch_add(1, Ordering::Relaxed);
                        match r {
                            Ok((a, h)) => {
                                if sup_status_before >= ActorStatus::Draining && !threaded {
                                    tr.online_violation(
                                        "spawn-under-exiting",
                                        format!("spawn_linked under node {target} succeeded although it was {sup_status_before:?} before the call"),
                                    );
                                }
                                new_nodes.lock().unwrap().push((target, spec, a, h));
                            }
                            Err(_) => {}
                        }
                    }
                }
            }
        }));
    }
    // ---- the exit
    for _ in 0..p.below(6) {
        tokio::task::yield_now().await;
    }
    if p.chance(1, 2) {
        settle_ms(p.range(1, 6)).await;
    }
    let vref = nodes[victim].actor.clone();
    let vname = nodes[victim].spec.name.clone().unwrap();
    trace.log(Ev::Call { client: 1, op: "exit", arg: nodes[victim].uid });
    match cause {
        Cause::Stop => vref.stop(Some("c05".into())),
        Cause::Kill => vref.kill(),
        Cause::Drain => {
            let _ = vref.drain();
        }
        Cause::Panic => {
            let _ = vref.send_message(PMsg::Work(Work::new(&trace, 999, 0, vec![Step::PanicString])));
        }
        Cause::Err => {
            let _ = vref.send_message(PMsg::Work(Work::new(&trace, 999, 0, vec![Step::Err])));
        }
        Cause::Abort => {
            if threaded {
                if let Some(h) = &nodes[victim].handle {
                    h.abort();
                }
            } else {
                let c = crate::ctl::ctl();
                let already = c.polls_of(&vname);
                c.register_abort(&vname, nodes[victim].handle.as_ref().unwrap().abort_handle());
                c.set_abort_at(&vname, already + p.range(1, 6));
                // make sure the task gets polled again so the abort lands
                let _ = vref.send_message(PMsg::Work(Work::new(&trace, 998, 0, vec![Step::Yield, Step::Yield, Step::Yield, Step::Yield, Step::Yield, Step::Yield])));
                let _ = vref.send_message(PMsg::Work(Work::new(&trace, 998, 1, vec![Step::Yield, Step::Yield, Step::Yield])));
            }
        }
    }
    trace.log(Ev::Ret { client: 1, op: "exit", arg: nodes[victim].uid, res: 0 });
    let waited = tokio::time::timeout(std::time::Duration::from_secs(if threaded { 20 } else { 50_000 }), vref.wait(None)).await;
    let t_exit = crate::trace::stamp();
    trace.note(format!("victim wait() returned: {:?}", waited.is_ok()));
    if waited.is_err() {
        if threaded {
            stop_flag.store(true, Ordering::SeqCst);
            return Outcome { violations: vec![], recs: trace.snapshot(), nontrivial: false, sig: 0, desc: vec!["INCONCLUSIVE".into()], snapshots: 0, link_ops: 0 };
        }
        // abort that never landed: finish with a kill
        if cause == Cause::Abort {
            vref.kill();
            let _ = vref.wait(None).await;
        } else {
            v.push(("stuck".into(), format!("victim never stopped after cause {cause:?}")));
        }
    }
    for t in tasks {
        let _ = t.await;
    }
    stop_flag.store(true, Ordering::SeqCst);
    if threaded {
        settle_ms(60).await;
    } else {
        vt::quiesce(2).await;
    }
    let snapshots = obs.await.unwrap_or(0);
    // ---- quiescent oracle
    let mut all_cells = cells.clone();
    let news = std::mem::take(&mut *new_nodes.lock().unwrap());
    for (_, _, a, _) in &news {
        all_cells.push(a.get_cell());
    }
    let snap = ActorCell::verif_tree_snapshot(&all_cells);
    v.extend(check_snapshot(&all_cells, &snap, true));
    // model-based: every strict descendant of the victim is Stopped
    let movable_set: HashSet<usize> = movable.iter().copied().collect();
    let recs = trace.snapshot();
    if waited.is_ok() {
        for &i in &d {
            if movable_set.contains(&i) {
                continue;
            }
            let st = nodes[i].actor.get_status();
            if st != ActorStatus::Stopped {
                v.push((
                    "descendant-alive".into(),
                    format!("node {i} (uid {}) was beneath the exiting node {victim} but is {st:?} at quiescence (was_draining={})", nodes[i].uid, drained.contains(&i)),
                ));
            }
            // behavioural: killed = no callback starts after the victim's wait() returned
            let mut allowance = if threaded { 1 } else { 0 };
            for r in &recs {
                if let Ev::Enter { uid, cb, .. } = &r.ev {
                    if *uid == nodes[i].uid && r.ts > t_exit {
                        // (thread engine: the one callback start that may be in flight when the kill lands can be post_stop
                        // too - a draining descendant that reached its marker polls the still-empty signal port and begins
                        // post_stop just as the ancestor's kill arrives; the virtual-time engine allows nothing)
                        if allowance == 0 {
                            v.push((
                                "descendant-not-killed".into(),
                                format!(
                                    "node {i} (uid {uid}) started {cb:?} at #{} after wait() of its exiting ancestor returned at #{t_exit} (was_draining={})",
                                    r.ts,
                                    drained.contains(&i)
                                ),
                            ));
                            break;
                        }
                        allowance -= 1;
                    }
                }
            }
            if !nodes[i].actor.get_cell().verif_signal_sent() && st != ActorStatus::Stopped {
                v.push(("descendant-not-signalled".into(), format!("node {i} never received a kill signal")));
            }
        }
        // a spawn_linked that succeeded under the victim or one of its strict descendants must be dead too
        for (target, spec, a, _) in &news {
            let under = *target == victim || (d.contains(target) && !movable_set.contains(target));
            if under && a.get_status() != ActorStatus::Stopped {
                v.push(("late-child-alive".into(), format!("child uid {} spawned under exiting subtree node {target} is {:?}", spec.uid, a.get_status())));
            }
        }
    }
    for (c, dd) in trace.online_violations.lock().unwrap().iter() {
        v.push((c.clone(), dd.clone()));
    }
    crate::ctl::ctl().set_tap(None);
    {
        let log = tap_log.lock().unwrap().clone();
        for (k, x, a, s2) in log.iter().filter(|e| e.0 == 0) {
            let _ = k;
            for (kind, who, _, s1) in log.iter().filter(|e| e.0 != 0) {
                if s1 < s2 && who == a {
                    v.push(("link-after-exit-began".into(), format!("a link of child pid {x} under supervisor pid {a} reached its mutation step (stamp #{s2}) after the supervisor had published {} and the tree lock had since been taken (stamp #{s1})", if *kind == 1 { "Draining" } else { "Stopping" })));
                }
                if s1 < s2 && who == x && *kind == 2 {
                    v.push(("link-after-exit-began".into(), format!("a link of child pid {x} under supervisor pid {a} reached its mutation step (stamp #{s2}) after the child had published Stopping and the tree lock had since been taken (stamp #{s1})")));
                }
            }
        }
    }
    // ---- an actor that linked a child during pre_start and then fails to start takes that child down too
    if p.chance(1, 3) {
        let child_name = format!("c05-{seed:x}-sfchild");
        let cspec = Arc::new(ProbeSpec::new(2001, Some(child_name.clone()), trace.clone()));
        let mut f = ProbeSpec::new(2000, Some(format!("c05-{seed:x}-sf")), trace.clone());
        f.child_spawner = Some(std_child_spawner());
        let fail = if p.chance(1, 2) { Step::Err } else { Step::PanicString };
        f.pre_start = vec![Step::SpawnChild(cspec), Step::Yield, fail];
        let sup = if p.chance(1, 2) { nodes.iter().find(|n| n.actor.get_status() == ActorStatus::Running).map(|n| n.actor.get_cell()) } else { None };
        let f = Arc::new(f);
        let r = spawn_probe(&f, sup).await;
        if r.is_ok() {
            v.push(("setup".into(), "a probe whose pre_start fails was spawned successfully".into()));
        }
        let mut child = ractor::registry::where_is(child_name.clone());
        for _ in 0..200 {
            if child.as_ref().map_or(true, |c| c.get_status() == ActorStatus::Stopped) {
                break;
            }
            settle_ms(5).await;
            child = ractor::registry::where_is(child_name.clone()).or(child);
        }
        if let Some(c) = child {
            if c.get_status() != ActorStatus::Stopped {
                v.push(("startup-failure-child-alive".into(), format!("an actor linked child {} in pre_start and then failed to start; 1 s later the child is {:?} (supervisor {:?})", c.get_id(), c.get_status(), c.try_get_supervisor().map(|s| (s.get_id(), s.get_status())))));
                c.kill();
                for _ in 0..200 {
                    if c.get_status() == ActorStatus::Stopped {
                        break;
                    }
                    settle_ms(5).await;
                }
            }
        }
    }
    // ---- teardown
    for nd in nodes.iter() {
        nd.actor.kill();
    }
    for (_, _, a, _) in &news {
        a.kill();
    }
    for nd in nodes.iter_mut() {
        if let Some(h) = nd.handle.take() {
            let _ = h.await;
        }
    }
    for (_, _, _, h) in news {
        let _ = h.await;
    }
    let lops = link_ops.load(Ordering::Relaxed);
    let sig = hash_words(&[
        n as u64,
        victim as u64,
        cause as u64,
        d.len() as u64,
        drained.len() as u64,
        lops,
        crate::prng::hash_str(&format!("{:?}", nodes.iter().map(|x| x.parent).collect::<Vec<_>>())),
    ]);
    Outcome { violations: v, recs, nontrivial: !d.is_empty() || lops > 0, sig, desc, snapshots, link_ops: lops }
}

pub fn run_one(seed: u64, rt: Option<&tokio::runtime::Runtime>) -> Outcome {
    let mut pr = Prng::new(seed ^ 0x55);
    let mut o = match rt {
        None => {
            let defer = *pr.pick(&[0u64, 20, 40]);
            let cell: std::sync::Mutex<Option<Outcome>> = std::sync::Mutex::new(None);
            let r = vt::run(seed, defer, async {
                let trace = Arc::new(Trace::new());
                let o = body(seed, trace, false).await;
                vt::quiesce(1).await;
                *cell.lock().unwrap() = Some(o);
            });
            let mut o = cell.lock().unwrap().take().unwrap_or(Outcome {
                violations: vec![],
                recs: vec![],
                nontrivial: false,
                sig: 0,
                desc: vec![],
                snapshots: 0,
                link_ops: 0,
            });
            if r.is_none() {
                o.violations.push(("stuck".into(), "scenario pending at the virtual-time horizon".into()));
            }
            o.desc.push(format!("defer={defer}"));
            o
        }
        Some(rt) => {
            let intensity = *pr.pick(&[0u32, 30, 60, 90]);
            crate::th::begin(seed, intensity);
            if Prng::new(seed ^ 0x7a9).chance(1, 2) {
                crate::ctl::ctl().set_rendezvous(ractor::verif::pt::LINK_BEFORE_LOCK, ractor::verif::pt::CLEANUP_AFTER_STOPPING);
            } else {
                // (these are the scenarios without the tap) a linker that has passed link's status check waits, under the tree lock and
                // for a bounded spin, for the exiting actor to get past its own child sweep: the real exit path needs that lock for the
                // sweep, so the wait simply times out; an exit path that skips the lock sails through and the child is linked too late
                crate::ctl::ctl().set_rendezvous(ractor::verif::pt::LINK_IN_LOCK, ractor::verif::pt::CLEANUP_AFTER_TERMINATE);
            }
            crate::ctl::ctl().rdv_spins.store(30_000, std::sync::atomic::Ordering::SeqCst);
            let trace = Arc::new(Trace::new());
            let mut o = rt.block_on(body(seed, trace, true));
            crate::th::end();
            o.desc.push(format!("intensity={intensity}"));
            let _ = crate::th::settle_leaks();
            o
        }
    };
    crate::ctl::ctl().set_tap(None);
    for l in vt::global_leaks() {
        o.violations.push(("leak".into(), l));
    }
    for (loc, msg) in crate::take_foreign_panics() {
        o.violations.push(("foreign-panic".into(), format!("{loc}: {msg}")));
    }
    o
}

pub fn run(args: &Args, rep: &mut Report) {
    let seeds: Vec<u64> = match args.replay {
        Some(s) => vec![s],
        None => args.indices().map(|i| args.scenario_seed(i)).collect(),
    };
    let rt = if args.engine == "th" { Some(crate::th::runtime(4)) } else { None };
    for seed in seeds {
        crate::watch_begin(seed);
        let o = run_one(seed, rt.as_ref());
        crate::watch_end();
        if o.desc.first().map(|s| s == "INCONCLUSIVE").unwrap_or(false) {
            rep.inconclusive.push(format!("seed {seed}: victim wait() exceeded the wall-clock bound on the thread engine"));
            continue;
        }
        rep.scenario(o.nontrivial, o.sig);
        rep.count("events_observed", o.recs.len() as u64);
        rep.count("tree_snapshots_checked", o.snapshots);
        rep.count("concurrent_link_ops", o.link_ops);
        if o.nontrivial && rep.samples.len() < 3 {
            rep.sample(J::obj().set("scenario_seed", format!("{seed}")).set("desc", o.desc.clone()).set("trace_excerpt", Trace::render(&o.recs, 16)));
        }
        for (clause, detail) in o.violations {
            let sig = if detail.contains("was_draining=true") { format!("{clause} draining-descendant") } else { clause.clone() };
            rep.violation(Violation { clause, detail, scenario_seed: seed, scenario: o.desc.join("; "), signature: sig, trace: Trace::render(&o.recs, 60) });
        }
    }
    let hits = crate::ctl::ctl().hit_snapshot();
    rep.count("hits_link_before_lock", hits[ractor::verif::pt::LINK_BEFORE_LOCK as usize]);
    rep.count("hits_take_children_before_lock", hits[ractor::verif::pt::TAKE_CHILDREN_BEFORE_LOCK as usize]);
    rep.count("hits_cleanup_after_stopping", hits[ractor::verif::pt::CLEANUP_AFTER_STOPPING as usize]);
    rep.count("rendezvous_met", crate::ctl::ctl().rdv_met.load(std::sync::atomic::Ordering::Relaxed));
}
