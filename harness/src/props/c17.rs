//! C17 — cluster: nothing from a peer takes effect before authentication.
//!
//! fsm : every message sequence of length <= 5 over a template alphabet (right digest / digest from a
//!       wrong cookie / garbage / empty / wrong-direction messages / driver steps) on both authentication
//!       state machines (H5 steppers): Ok only by the honest order with the real cookie, Close absorbing.
//! vt  : a real NodeServer + NodeSession over an in-memory duplex stream; an adversarial peer writes seeded
//!       sequences of auth / control / node frames and garbage without ever proving the cookie (or, in the
//!       authenticated variant, completes the handshake and then targets unadvertised / non-remotable pids).
#![cfg(feature = "cluster")]
use std::sync::atomic::Ordering;
use std::sync::{Arc, Mutex};
use std::time::Duration;

use ractor::{Actor, ActorProcessingErr, ActorRef, ActorStatus};
use ractor_cluster::verif::{auth, control, meta, node, ClientFsm, FrameReader, NetworkMessage, ServerFsm};
use ractor_cluster::{NodeEventSubscription, NodeServerMessage, NodeSessionMessage};
use tokio::io::AsyncWriteExt;

use crate::json::J;
use crate::prng::{hash_words, Prng};
use crate::probe::*;
use crate::report::{Report, Violation};
use crate::trace::Trace;
use crate::{vt, Args};

// long cookies that differ only in their tail: whatever the digest construction does with its input (buffers, blocks), a
// peer holding the wrong one must not pass
pub const COOKIE: &str = "cookie-0123456789abcdefghijklmnopqrstuvwxyz-0123456789abcdefghijklmnopqrstuvwxyz-REAL-tail";
pub const WRONG_COOKIE: &str = "cookie-0123456789abcdefghijklmnopqrstuvwxyz-0123456789abcdefghijklmnopqrstuvwxyz-FAKE-tail";

fn amsg(m: auth::authentication_message::Msg) -> auth::AuthenticationMessage {
    auth::AuthenticationMessage { msg: Some(m) }
}
fn name_msg(n: &str, nonce: u64) -> auth::AuthenticationMessage {
    amsg(auth::authentication_message::Msg::Name(auth::NameMessage {
        name: n.to_string(),
        flags: Some(auth::NodeFlags { version: 1 }),
        connection_string: format!("{n}:1"),
        connection_id: nonce,
    }))
}

// ------------------------------------------------------------------ level 1: the two state machines

const S_TEMPLATES: usize = 14;
const C_TEMPLATES: usize = 12;

/// Apply server-side template `t` to the machine. Returns (next, was this the honest next step?)
fn server_step(m: &ServerFsm, t: usize) -> ServerFsm {
    use auth::authentication_message::Msg;
    let chal = m.challenge().unwrap_or(7);
    match t {
        0 => m.next(name_msg("evil@x", 5), COOKIE),
        1 => m.next(amsg(Msg::ClientStatus(auth::ClientStatus { status: true })), COOKIE),
        2 => m.next(amsg(Msg::ClientStatus(auth::ClientStatus { status: false })), COOKIE),
        3 => m.next(amsg(Msg::ClientChallenge(auth::ChallengeReply { challenge: 99, digest: ractor_cluster::verif::challenge_digest(COOKIE, chal).to_vec() })), COOKIE),
        4 => m.next(amsg(Msg::ClientChallenge(auth::ChallengeReply { challenge: 99, digest: ractor_cluster::verif::challenge_digest(WRONG_COOKIE, chal).to_vec() })), COOKIE),
        5 => m.next(amsg(Msg::ClientChallenge(auth::ChallengeReply { challenge: 99, digest: vec![0xAB; 32] })), COOKIE),
        6 => m.next(amsg(Msg::ClientChallenge(auth::ChallengeReply { challenge: 0, digest: vec![] })), COOKIE),
        7 => m.next(amsg(Msg::ServerStatus(auth::ServerStatus { status: 0 })), COOKIE),
        8 => m.next(amsg(Msg::ServerChallenge(auth::Challenge { name: "x".into(), flags: None, challenge: chal, connection_string: String::new() })), COOKIE),
        9 => m.next(amsg(Msg::ServerAck(auth::ChallengeAck { digest: ractor_cluster::verif::challenge_digest(COOKIE, chal).to_vec() })), COOKIE),
        10 => m.next(auth::AuthenticationMessage { msg: None }, COOKIE),
        // a digest for a *different* challenge value computed with the real cookie (replay)
        11 => m.next(amsg(Msg::ClientChallenge(auth::ChallengeReply { challenge: 1, digest: ractor_cluster::verif::challenge_digest(COOKIE, chal.wrapping_add(1)).to_vec() })), COOKIE),
        // driver steps performed by NodeSession after HavePeerName
        12 => m.start_challenge(COOKIE),
        _ => {
            if m.name() == "HavePeerName" {
                ServerFsm::waiting_on_client_status()
            } else {
                m.next(auth::AuthenticationMessage { msg: None }, COOKIE)
            }
        }
    }
}

/// Honest = the peer-controlled messages are exactly Name [, ClientStatus(true)], ClientChallenge(digest of the issued
/// challenge under the real cookie). Templates 12/13 are steps of the local driver (NodeSession), not peer input.
fn server_peer_honest(seq: &[usize]) -> bool {
    let peer: Vec<usize> = seq.iter().copied().filter(|t| *t != 12 && *t != 13).collect();
    peer == [0, 3] || peer == [0, 1, 3]
}
fn server_honest(seq: &[usize]) -> bool {
    // Name, start_challenge, ClientChallenge(right)   |   Name, ->WaitingOnClientStatus, ClientStatus(true), ClientChallenge(right)
    seq == [0, 12, 3] || seq == [0, 13, 1, 3]
}

fn client_step(m: &ClientFsm, t: usize) -> ClientFsm {
    use auth::authentication_message::Msg;
    let my_chal = m.challenge().unwrap_or(3);
    match t {
        0..=4 => m.next(amsg(Msg::ServerStatus(auth::ServerStatus { status: t as i32 })), COOKIE),
        5 => m.next(amsg(Msg::ServerChallenge(auth::Challenge { name: "srv@y".into(), flags: Some(auth::NodeFlags { version: 1 }), challenge: 77, connection_string: "y:1".into() })), COOKIE),
        6 => m.next(amsg(Msg::ServerAck(auth::ChallengeAck { digest: ractor_cluster::verif::challenge_digest(COOKIE, my_chal).to_vec() })), COOKIE),
        7 => m.next(amsg(Msg::ServerAck(auth::ChallengeAck { digest: ractor_cluster::verif::challenge_digest(WRONG_COOKIE, my_chal).to_vec() })), COOKIE),
        8 => m.next(amsg(Msg::ServerAck(auth::ChallengeAck { digest: vec![] })), COOKIE),
        9 => m.next(name_msg("evil@x", 1), COOKIE),
        10 => m.next(amsg(Msg::ClientChallenge(auth::ChallengeReply { challenge: 1, digest: ractor_cluster::verif::challenge_digest(COOKIE, my_chal).to_vec() })), COOKIE),
        _ => m.next(auth::AuthenticationMessage { msg: None }, COOKIE),
    }
}

fn client_honest(seq: &[usize]) -> bool {
    seq.len() == 3 && seq[0] <= 4 && seq[1] == 5 && seq[2] == 6
}

pub fn run_fsm(rep: &mut Report, shard: u64, nshards: u64) {
    // enumerate all sequences of length 1..=5; shard on the first symbol
    fn rec_s(prefix: &mut Vec<usize>, m: &ServerFsm, was_closed: bool, rep: &mut Report, depth: usize) {
        for t in 0..S_TEMPLATES {
            let next = server_step(m, t);
            prefix.push(t);
            rep.evaluations += 1;
            if next.is_ok() && !server_peer_honest(prefix) {
                rep.violation(Violation {
                    clause: "auth-bypass".into(),
                    detail: format!("server state machine reached Ok through the non-honest sequence {prefix:?}"),
                    scenario_seed: 0,
                    scenario: "fsm server".into(),
                    signature: "auth-bypass".into(),
                    trace: vec![],
                });
            }
            if server_honest(prefix) && !next.is_ok() {
                rep.violation(Violation { clause: "honest-rejected".into(), detail: format!("honest server sequence {prefix:?} ended in {}", next.name()), scenario_seed: 0, scenario: "fsm server".into(), signature: "honest-rejected".into(), trace: vec![] });
            }
            if was_closed && !next.is_close() {
                rep.violation(Violation { clause: "close-not-absorbing".into(), detail: format!("server machine left Close through {prefix:?} -> {}", next.name()), scenario_seed: 0, scenario: "fsm server".into(), signature: "close-not-absorbing".into(), trace: vec![] });
            }
            *rep.counters.entry(format!("server_final_{}", next.name())).or_insert(0) += 1;
            if depth < 5 {
                let closed = next.is_close();
                rec_s(prefix, &next, closed, rep, depth + 1);
            }
            prefix.pop();
        }
    }
    fn rec_c(prefix: &mut Vec<usize>, m: &ClientFsm, was_closed: bool, rep: &mut Report, depth: usize) {
        for t in 0..C_TEMPLATES {
            let next = client_step(m, t);
            prefix.push(t);
            rep.evaluations += 1;
            if next.is_ok() && !client_honest(prefix) {
                rep.violation(Violation { clause: "auth-bypass".into(), detail: format!("client state machine reached Ok through the non-honest sequence {prefix:?}"), scenario_seed: 0, scenario: "fsm client".into(), signature: "auth-bypass".into(), trace: vec![] });
            }
            if client_honest(prefix) && !next.is_ok() {
                rep.violation(Violation { clause: "honest-rejected".into(), detail: format!("honest client sequence {prefix:?} ended in {}", next.name()), scenario_seed: 0, scenario: "fsm client".into(), signature: "honest-rejected".into(), trace: vec![] });
            }
            if was_closed && !next.is_close() {
                rep.violation(Violation { clause: "close-not-absorbing".into(), detail: format!("client machine left Close through {prefix:?} -> {}", next.name()), scenario_seed: 0, scenario: "fsm client".into(), signature: "close-not-absorbing".into(), trace: vec![] });
            }
            *rep.counters.entry(format!("client_final_{}", next.name())).or_insert(0) += 1;
            if depth < 5 {
                let closed = next.is_close();
                rec_c(prefix, &next, closed, rep, depth + 1);
            }
            prefix.pop();
        }
    }
    // shard over the first template
    for first in 0..S_TEMPLATES {
        if first as u64 % nshards != shard {
            continue;
        }
        let m0 = ServerFsm::init();
        let next = server_step(&m0, first);
        let mut prefix = vec![first];
        rep.evaluations += 1;
        if next.is_ok() {
            rep.violation(Violation { clause: "auth-bypass".into(), detail: format!("server Ok after {prefix:?}"), scenario_seed: 0, scenario: "fsm server".into(), signature: "auth-bypass".into(), trace: vec![] });
        }
        let closed = next.is_close();
        rec_s(&mut prefix, &next, closed, rep, 2);
    }
    for first in 0..C_TEMPLATES {
        if first as u64 % nshards != shard {
            continue;
        }
        let m0 = ClientFsm::init();
        let next = client_step(&m0, first);
        let mut prefix = vec![first];
        rep.evaluations += 1;
        if next.is_ok() {
            rep.violation(Violation { clause: "auth-bypass".into(), detail: format!("client Ok after {prefix:?}"), scenario_seed: 0, scenario: "fsm client".into(), signature: "auth-bypass".into(), trace: vec![] });
        }
        let closed = next.is_close();
        rec_c(&mut prefix, &next, closed, rep, 2);
    }
    // every enumerated sequence is a distinct case
    rep.nontrivial = rep.evaluations;
    for i in 0..rep.evaluations.min(100_000) {
        rep.signatures.insert(hash_words(&[shard, i]));
    }
    rep.exhaustive = Some(true);
    rep.sample(J::obj().set("alphabet", "server: Name, ClientStatus(t/f), ClientChallenge{right, wrong-cookie, garbage, empty, replay}, ServerStatus, ServerChallenge, ServerAck, empty, start_challenge, ->WaitingOnClientStatus; client: ServerStatus x5, ServerChallenge, ServerAck{right, wrong-cookie, empty}, Name, ClientChallenge, empty").set("max_length", 5));
}

// ------------------------------------------------------------------ level 2: real NodeServer, adversarial peer

/// A remotable actor (u64 messages are serializable through the BytesConvertable blanket impl)
pub struct Rem {
    pub handled: Arc<Mutex<Vec<u64>>>,
}
impl Actor for Rem {
    type Msg = u64;
    type State = ();
    type Arguments = ();
    async fn pre_start(&self, _: ActorRef<u64>, _: ()) -> Result<(), ActorProcessingErr> {
        Ok(())
    }
    async fn handle(&self, _: ActorRef<u64>, m: u64, _: &mut ()) -> Result<(), ActorProcessingErr> {
        self.handled.lock().unwrap().push(m);
        Ok(())
    }
}

pub struct Duplex(pub tokio::io::DuplexStream, pub String);
impl ractor_cluster::ClusterBidiStream for Duplex {
    fn split(self: Box<Self>) -> (ractor_cluster::BoxRead, ractor_cluster::BoxWrite) {
        let (r, w) = tokio::io::split(self.0);
        (Box::new(r), Box::new(w))
    }
    fn peer_label(&self) -> Option<String> {
        Some(self.1.clone())
    }
    fn local_label(&self) -> Option<String> {
        Some("local".into())
    }
}

#[derive(Default)]
pub struct Events {
    pub opened: Mutex<Vec<ActorRef<NodeSessionMessage>>>,
    pub authenticated: Mutex<Vec<u64>>,
    pub ready: Mutex<Vec<u64>>,
    pub disconnected: Mutex<Vec<u64>>,
}
pub struct Sub(pub Arc<Events>);
impl NodeEventSubscription for Sub {
    fn node_session_opened(&self, ses: ractor_cluster::node::NodeServerSessionInformation) {
        self.0.opened.lock().unwrap().push(ses.actor);
    }
    fn node_session_disconnected(&self, ses: ractor_cluster::node::NodeServerSessionInformation) {
        self.0.disconnected.lock().unwrap().push(ses.node_id);
    }
    fn node_session_authenticated(&self, ses: ractor_cluster::node::NodeServerSessionInformation) {
        self.0.authenticated.lock().unwrap().push(ses.node_id);
    }
    fn node_session_ready(&self, ses: ractor_cluster::node::NodeServerSessionInformation) {
        self.0.ready.lock().unwrap().push(ses.node_id);
    }
}

fn net_auth(m: auth::AuthenticationMessage) -> NetworkMessage {
    NetworkMessage { message: Some(meta::network_message::Message::Auth(m)) }
}
fn net_ctl(m: control::control_message::Msg) -> NetworkMessage {
    NetworkMessage { message: Some(meta::network_message::Message::Control(control::ControlMessage { msg: Some(m) })) }
}
fn net_node(m: node::node_message::Msg) -> NetworkMessage {
    NetworkMessage { message: Some(meta::network_message::Message::Node(node::NodeMessage { msg: Some(m) })) }
}

#[derive(Clone, Debug)]
pub enum Frame {
    Msg(&'static str, Vec<u8>),
    Raw(Vec<u8>),
}

pub fn enc(m: &NetworkMessage) -> Vec<u8> {
    let mut b = vec![];
    ractor_cluster::verif::encode_network_message(m, &mut b);
    b
}

/// The adversary's repertoire of non-authenticating frames. `is_auth` tells whether it is an auth frame.
pub fn adversary_frame(p: &mut Prng, rem_pid: u64, probe_pid: u64, as_client: bool) -> (Frame, bool, &'static str) {
    use auth::authentication_message::Msg as A;
    let pid = *p.pick(&[rem_pid, probe_pid, 0, 424242]);
    let actor = control::Actor { name: Some("ghost".into()), pid: 777 };
    match p.below(20) {
        0 => (Frame::Msg("Name", enc(&net_auth(name_msg("evil@x", p.below(3))))), true, "Name"),
        1 => (Frame::Msg("ClientStatus", enc(&net_auth(amsg(A::ClientStatus(auth::ClientStatus { status: p.chance(1, 2) }))))), true, "ClientStatus"),
        2 => (Frame::Msg("ClientChallenge(wrong cookie)", enc(&net_auth(amsg(A::ClientChallenge(auth::ChallengeReply { challenge: 5, digest: ractor_cluster::verif::challenge_digest(WRONG_COOKIE, p.next() as u32).to_vec() }))))), true, "ClientChallenge"),
        3 => (Frame::Msg("ClientChallenge(garbage)", enc(&net_auth(amsg(A::ClientChallenge(auth::ChallengeReply { challenge: 5, digest: vec![1; p.below(40) as usize] }))))), true, "ClientChallenge"),
        4 => (Frame::Msg("ServerStatus", enc(&net_auth(amsg(A::ServerStatus(auth::ServerStatus { status: p.below(5) as i32 }))))), true, "ServerStatus"),
        5 => (Frame::Msg("ServerChallenge", enc(&net_auth(amsg(A::ServerChallenge(auth::Challenge { name: "evil@x".into(), flags: Some(auth::NodeFlags { version: 1 }), challenge: 9, connection_string: "x:1".into() }))))), true, "ServerChallenge"),
        6 => (Frame::Msg("ServerAck(wrong)", enc(&net_auth(amsg(A::ServerAck(auth::ChallengeAck { digest: ractor_cluster::verif::challenge_digest(WRONG_COOKIE, 1).to_vec() }))))), true, "ServerAck"),
        7 => (Frame::Msg("auth(empty)", enc(&net_auth(auth::AuthenticationMessage { msg: None }))), true, "empty"),
        8 => (Frame::Msg("Cast", enc(&net_node(node::node_message::Msg::Cast(node::Cast { to: pid, what: 7u64.to_be_bytes().to_vec(), variant: String::new(), metadata: None })))), false, "Cast"),
        9 => (Frame::Msg("Call", enc(&net_node(node::node_message::Msg::Call(node::Call { to: pid, what: 7u64.to_be_bytes().to_vec(), tag: 1, timeout_ms: Some(5), variant: String::new(), metadata: None })))), false, "Call"),
        10 => (Frame::Msg("Reply", enc(&net_node(node::node_message::Msg::Reply(node::CallReply { to: pid, tag: 1, what: vec![1] })))), false, "Reply"),
        11 => (Frame::Msg("Spawn", enc(&net_ctl(control::control_message::Msg::Spawn(control::Spawn { actors: vec![actor.clone()] })))), false, "Spawn"),
        12 => (Frame::Msg("PgJoin", enc(&net_ctl(control::control_message::Msg::PgJoin(control::PgJoin { scope: "c17s".into(), group: "c17g".into(), actors: vec![actor.clone()] })))), false, "PgJoin"),
        13 => (Frame::Msg("PgLeave", enc(&net_ctl(control::control_message::Msg::PgLeave(control::PgLeave { scope: "c17s".into(), group: "c17g".into(), actors: vec![control::Actor { name: None, pid: rem_pid }] })))), false, "PgLeave"),
        14 => (Frame::Msg("Terminate", enc(&net_ctl(control::control_message::Msg::Terminate(control::Terminate { ids: vec![rem_pid, 777] })))), false, "Terminate"),
        15 => (Frame::Msg("Ready", enc(&net_ctl(control::control_message::Msg::Ready(control::Ready {})))), false, "Ready"),
        16 => (Frame::Msg("EnumerateNodeSessions", enc(&net_ctl(control::control_message::Msg::EnumerateNodeSessions(auth::NameMessage { name: "evil@x".into(), flags: None, connection_string: "x:1".into(), connection_id: 0 })))), false, "Enumerate"),
        17 => (Frame::Msg("Ping", enc(&net_ctl(control::control_message::Msg::Ping(control::Ping { timestamp: None })))), false, "Ping"),
        18 => (Frame::Msg("envelope(empty)", enc(&NetworkMessage { message: None })), false, "empty-envelope"),
        _ => {
            let _ = as_client;
            (Frame::Msg("Ready", enc(&net_ctl(control::control_message::Msg::Ready(control::Ready {})))), false, "Ready")
        }
    }
}

pub struct Outcome {
    pub violations: Vec<(String, String)>,
    pub nontrivial: bool,
    pub sig: u64,
    pub desc: Vec<String>,
    pub frames: u64,
}

async fn body(seed: u64) -> Outcome {
    let mut p = Prng::new(seed);
    let mut v: Vec<(String, String)> = vec![];
    let trace = Arc::new(Trace::new());
    let hits0 = crate::ctl::ctl().hit_snapshot();
    let server = ractor_cluster::NodeServer::new(0, COOKIE.to_string(), format!("a{seed:x}"), "h".to_string(), None, Some(ractor_cluster::node::NodeConnectionMode::Isolated));
    let (node, node_h) = Actor::spawn(None, server, ()).await.expect("node server");
    let events = Arc::new(Events::default());
    let _ = node.cast(NodeServerMessage::SubscribeToEvents { id: "c17".into(), subscription: Box::new(Sub(events.clone())) });
    // local actors: one remotable (in a group), one not
    let handled = Arc::new(Mutex::new(vec![]));
    let (rem, rem_h) = Actor::spawn(Some(format!("c17-rem-{seed:x}")), Rem { handled: handled.clone() }, ()).await.expect("rem");
    ractor::pg::join_scoped("c17s".into(), format!("c17g-{seed:x}"), vec![rem.get_cell()]);
    let probe_spec = Arc::new(ProbeSpec::new(2, Some(format!("c17-probe-{seed:x}")), trace.clone()));
    let (probe, probe_h) = spawn_probe(&probe_spec, None).await.expect("probe");
    let rem_pid = rem.get_id().pid();
    let probe_pid = probe.get_id().pid();
    // the adversary's connection
    let session_is_server = p.chance(2, 3); // the node accepted the connection (adversary = client) or dialled out
    let authenticate = p.chance(1, 4);
    let (mine, theirs) = tokio::io::duplex(1 << 16);
    let _ = node.cast(NodeServerMessage::ConnectionOpenedExternal { stream: Box::new(Duplex(theirs, "adversary".into())), is_server: session_is_server });
    let (rd, mut wr) = tokio::io::split(mine);
    let mut reader = FrameReader::new(Box::new(rd));
    vt::settle().await;
    let session = events.opened.lock().unwrap().first().cloned();
    let mut desc = vec![format!("session_is_server={session_is_server} authenticate={authenticate}")];
    let mut sent: Vec<String> = vec![];
    let mut auth_frames: Vec<&'static str> = vec![];
    let mut authed = false;
    if authenticate && session_is_server {
        // honest client handshake by an adversary that knows the cookie
        let _ = wr.write_all(&enc(&net_auth(name_msg("peer@x", 11)))).await;
        let mut challenge = None;
        for _ in 0..2 {
            if let Ok(Ok(m)) = tokio::time::timeout(Duration::from_secs(5), reader.read(1 << 20)).await {
                if let Some(meta::network_message::Message::Auth(a)) = m.message {
                    if let Some(auth::authentication_message::Msg::ServerChallenge(c)) = a.msg {
                        challenge = Some(c.challenge);
                    }
                }
            }
        }
        if let Some(c) = challenge {
            let reply = auth::ChallengeReply { challenge: 1234, digest: ractor_cluster::verif::challenge_digest(COOKIE, c).to_vec() };
            let _ = wr.write_all(&enc(&net_auth(amsg(auth::authentication_message::Msg::ClientChallenge(reply))))).await;
            // ServerAck
            let _ = tokio::time::timeout(Duration::from_secs(5), reader.read(1 << 20)).await;
            authed = true;
        } else {
            v.push(("harness".into(), "the honest handshake did not receive a server challenge".into()));
        }
        vt::settle().await;
        // drain what the node sends after authentication (Spawn / PgJoin / Ready) and remember the advertised pids
        let mut advertised: Vec<u64> = vec![];
        while let Ok(Ok(m)) = tokio::time::timeout(Duration::from_millis(50), reader.read(1 << 20)).await {
            if let Some(meta::network_message::Message::Control(c)) = m.message {
                if let Some(control::control_message::Msg::Spawn(s)) = c.msg {
                    advertised.extend(s.actors.iter().map(|a| a.pid));
                }
            }
        }
        desc.push(format!("advertised={advertised:?} rem={rem_pid} probe={probe_pid}"));
        if authed && !advertised.contains(&rem_pid) {
            v.push(("not-advertised".into(), "the remotable actor was not advertised to the authenticated peer".into()));
        }
        if advertised.contains(&probe_pid) {
            v.push(("non-remotable-advertised".into(), "a non-remotable actor was advertised".into()));
        }
        // now target advertised, non-remotable and unknown pids
        for (i, to) in [rem_pid, probe_pid, 424242, rem_pid].iter().enumerate() {
            let f = net_node(node::node_message::Msg::Cast(node::Cast { to: *to, what: (100 + i as u64).to_be_bytes().to_vec(), variant: String::new(), metadata: None }));
            let _ = wr.write_all(&enc(&f)).await;
            sent.push(format!("Cast(to={to})"));
        }
        vt::settle().await;
        let got = handled.lock().unwrap().clone();
        if got != vec![100, 103] {
            v.push(("authorized-delivery".into(), format!("after authenticating, casts to [advertised, non-remotable, unknown, advertised] were handled as {got:?}, expected [100, 103]")));
        }
        let log = crate::ctl::ctl().take_point_log();
        for (id, a, _) in log {
            if id == ractor::verif::pt::CL_DELIVER_LOCAL && a != rem_pid {
                v.push(("unauthorized-delivery".into(), format!("a frame was delivered to local pid {a} which is not an advertised remotable actor")));
            }
        }
    } else {
        // never proves the cookie
        let n = p.range(1, 14);
        for _ in 0..n {
            let (f, is_auth, kind) = adversary_frame(&mut p, rem_pid, probe_pid, session_is_server);
            let bytes = match &f {
                Frame::Msg(_, b) => b.clone(),
                Frame::Raw(b) => b.clone(),
            };
            // sometimes fragment / delay
            if p.chance(1, 3) && bytes.len() > 2 {
                let cut = p.range(1, bytes.len() as u64 - 1) as usize;
                let _ = wr.write_all(&bytes[..cut]).await;
                tokio::task::yield_now().await;
                let _ = wr.write_all(&bytes[cut..]).await;
            } else {
                let _ = wr.write_all(&bytes).await;
            }
            if let Frame::Msg(n, _) = &f {
                sent.push(n.to_string());
            }
            if is_auth {
                auth_frames.push(kind);
            }
            if p.chance(1, 2) {
                vt::settle().await;
            }
            // sample: never authenticated
            if let Some(s) = &session {
                if s.get_status() == ActorStatus::Running {
                    if let Ok(ractor::rpc::CallResult::Success(true)) = s.call(NodeSessionMessage::GetAuthenticationState, Some(Duration::from_millis(200))).await {
                        v.push(("authenticated-without-cookie".into(), format!("GetAuthenticationState == true after {sent:?}")));
                    }
                }
            }
        }
        if p.chance(1, 5) {
            // garbage tail
            let g: Vec<u8> = (0..p.range(1, 30)).map(|_| p.next() as u8).collect();
            let _ = wr.write_all(&g).await;
            sent.push(format!("garbage({} bytes)", g.len()));
        }
    }
    vt::quiesce(60).await;
    // ---- oracle at quiescence
    let hits1 = crate::ctl::ctl().hit_snapshot();
    use ractor::verif::pt;
    if !authed {
        for (name, id) in [("deliver-local", pt::CL_DELIVER_LOCAL), ("spawn-proxy", pt::CL_SPAWN_PROXY), ("pg-join", pt::CL_PG_JOIN)] {
            let d = hits1[id as usize] - hits0[id as usize];
            if d != 0 {
                v.push(("effect-before-auth".into(), format!("{name} happened {d} times on a session that never authenticated; frames sent: {sent:?}")));
            }
        }
        if !handled.lock().unwrap().is_empty() {
            v.push(("effect-before-auth".into(), format!("the local actor handled {:?} from an unauthenticated peer", handled.lock().unwrap())));
        }
        let sessions = node.call(NodeServerMessage::GetSessions, None).await;
        if let Ok(ractor::rpc::CallResult::Success(m)) = sessions {
            if !m.is_empty() {
                v.push(("listed-before-auth".into(), format!("GetSessions lists {} sessions although none authenticated", m.len())));
            }
        }
        if !events.authenticated.lock().unwrap().is_empty() || !events.ready.lock().unwrap().is_empty() {
            v.push(("event-before-auth".into(), "node events reported an authenticated/ready session".into()));
        }
        for m in ractor::pg::get_scoped_members(&"c17s".to_string(), &"c17g".to_string()) {
            if !m.get_id().is_local() {
                v.push(("effect-before-auth".into(), "a remote-id member appeared in a process group".into()));
            }
        }
        if let Some(s) = &session {
            let kids = s.get_children();
            if kids.len() > 1 {
                v.push(("effect-before-auth".into(), format!("the unauthenticated session has {} children (expected only its transport)", kids.len())));
            }
            // any deviating auth frame closes the session for good
            let honest_prefix: &[&str] = if session_is_server { &["Name"] } else { &["ServerStatus", "ServerChallenge"] };
            let deviates = auth_frames.len() > honest_prefix.len() || auth_frames.iter().zip(honest_prefix.iter()).any(|(a, b)| a != b);
            if deviates && s.get_status() != ActorStatus::Stopped {
                v.push(("bad-auth-not-closed".into(), format!("auth frames {auth_frames:?} deviate from the handshake but the session is still {:?}", s.get_status())));
            }
        } else {
            v.push(("harness".into(), "the node never opened a session for the connection".into()));
        }
    }
    // ---- teardown
    drop(wr);
    drop(reader);
    ractor::pg::leave_scoped("c17s".into(), format!("c17g-{seed:x}"), vec![rem.get_cell()]);
    rem.stop(None);
    let _ = rem_h.await;
    probe.stop(None);
    let _ = probe_h.await;
    node.stop(None);
    let _ = node_h.await;
    vt::quiesce(1).await;
    let _ = probe_spec.pid.load(Ordering::SeqCst);
    let frames = sent.len() as u64;
    desc.push(format!("frames={sent:?}"));
    Outcome { violations: v, nontrivial: frames >= 1, sig: hash_words(&[crate::prng::hash_str(&format!("{sent:?}")), session_is_server as u64, authed as u64]), desc, frames }
}

pub fn run(args: &Args, rep: &mut Report) {
    if args.engine == "fsm" {
        run_fsm(rep, args.shard, args.nshards);
        return;
    }
    let seeds: Vec<u64> = match args.replay {
        Some(s) => vec![s],
        None => args.indices().map(|i| args.scenario_seed(i)).collect(),
    };
    for seed in seeds {
        crate::watch_begin(seed);
        let cell: Mutex<Option<Outcome>> = Mutex::new(None);
        let r = vt::run(seed, 0, async {
            crate::ctl::ctl().set_log_points(true);
            let o = body(seed).await;
            *cell.lock().unwrap() = Some(o);
        });
        crate::watch_end();
        let got = cell.lock().unwrap().take();
        let mut o = got.unwrap_or(Outcome { violations: vec![], nontrivial: false, sig: 0, desc: vec![], frames: 0 });
        if r.is_none() {
            o.violations.push(("stuck".into(), "scenario pending at the virtual-time horizon".into()));
        }
        for l in vt::global_leaks() {
            o.violations.push(("leak".into(), l));
        }
        for (loc, msg) in crate::take_foreign_panics() {
            o.violations.push(("foreign-panic".into(), format!("{loc}: {msg}")));
        }
        rep.scenario(o.nontrivial, o.sig);
        rep.count("adversarial_frames_sent", o.frames);
        if o.nontrivial && rep.samples.len() < 3 {
            rep.sample(J::obj().set("scenario_seed", format!("{seed}")).set("desc", o.desc.clone()));
        }
        for (clause, detail) in o.violations {
            rep.violation(Violation { signature: clause.clone(), clause, detail, scenario_seed: seed, scenario: o.desc.join("; "), trace: vec![] });
        }
    }
    let hits = crate::ctl::ctl().hit_snapshot();
    rep.count("hits_cl_deliver_local", hits[ractor::verif::pt::CL_DELIVER_LOCAL as usize]);
    rep.count("hits_cl_spawn_proxy", hits[ractor::verif::pt::CL_SPAWN_PROXY as usize]);
}
