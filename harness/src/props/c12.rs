//! C12 — timers fire once, never early, and die with their target. (virtual clock)
use std::sync::atomic::{AtomicU64, Ordering};
use std::sync::{Arc, Mutex};
use std::time::Duration;

use ractor::{Actor, ActorProcessingErr, ActorRef, ActorStatus};
use tokio::time::Instant;

use crate::json::J;
use crate::prng::{hash_words, Prng};
use crate::probe::*;
use crate::report::{Report, Violation};
use crate::trace::{Ev, Rec, SupKind, Trace};
use crate::{vt, Args};

pub enum TMsg {
    Tick { timer: u32, k: u64 },
    Slow(u64),
}
#[cfg(feature = "cluster")]
impl ractor::Message for TMsg {}

pub struct DTick(pub u32, pub u64);
#[cfg(feature = "cluster")]
impl ractor::Message for DTick {}
impl From<DTick> for TMsg {
    fn from(d: DTick) -> TMsg {
        TMsg::Tick { timer: d.0, k: d.1 }
    }
}
impl TryFrom<TMsg> for DTick {
    type Error = ();
    fn try_from(m: TMsg) -> Result<DTick, ()> {
        match m {
            TMsg::Tick { timer, k } => Ok(DTick(timer, k)),
            _ => Err(()),
        }
    }
}

struct Target {
    trace: Arc<Trace>,
}
#[cfg_attr(feature = "alt", ractor::async_trait)]
impl Actor for Target {
    type Msg = TMsg;
    type State = ();
    type Arguments = ();
    async fn pre_start(&self, _: ActorRef<TMsg>, _: ()) -> Result<(), ActorProcessingErr> {
        Ok(())
    }
    async fn handle(&self, _me: ActorRef<TMsg>, msg: TMsg, _: &mut ()) -> Result<(), ActorProcessingErr> {
        match msg {
            TMsg::Tick { timer, k } => {
                self.trace.log(Ev::Handled { uid: 50, sender: timer, seq: k });
            }
            TMsg::Slow(ms) => tokio::time::sleep(Duration::from_millis(ms)).await,
        }
        Ok(())
    }
}

#[derive(Clone, Copy, Debug, PartialEq, Eq)]
enum Kind {
    After,
    Interval,
    ExitAfter,
    KillAfter,
}

#[derive(Clone, Debug)]
struct Plan {
    id: u32,
    kind: Kind,
    derived: bool,
    period: Duration,
    create_at: u64,
    abort_at: Option<u64>,
    /// abort right after creation, with no await in between: the timer task cannot have been polled yet
    abort_now: bool,
}

#[derive(Clone)]
struct Fired {
    timer: u32,
    k: u64,
    at_ms: u64,
}

pub struct Outcome {
    pub violations: Vec<(String, String)>,
    pub recs: Vec<Rec>,
    pub nontrivial: bool,
    pub sig: u64,
    pub desc: Vec<String>,
    pub fires: u64,
}

fn period_ms_ceil(p: Duration) -> u64 {
    let ns = p.as_nanos();
    ((ns + 999_999) / 1_000_000) as u64
}

/// Late polls on the virtual clock: the clock is moved forward by several periods in one step (`tokio::time::advance`),
/// so the interval tasks are polled after their deadlines. The schedule must stay anchored on the creation time: ticks
/// whose slot fell inside the jump arrive at its end, every later tick exactly on its slot `created + k * period`.
async fn jump_body(seed: u64, trace: Arc<Trace>) -> (Vec<String>, Vec<(String, String)>, u64, bool) {
    let mut p = Prng::new(seed ^ 0x6a);
    let mut v: Vec<(String, String)> = vec![];
    let t0 = Instant::now();
    let now_ms = move || Instant::now().duration_since(t0).as_millis() as u64;
    let (target, target_h) = Actor::spawn(Some(format!("c12-jt-{seed:x}")), Target { trace: trace.clone() }, ()).await.expect("target");
    let ntimers = p.range(1, 3);
    let fired: Arc<Mutex<Vec<Fired>>> = Arc::new(Mutex::new(vec![]));
    let mut timers = vec![]; // (id, period_ms, created_ms, handle)
    for id in 0..ntimers as u32 {
        tokio::time::sleep(Duration::from_millis(p.below(5))).await;
        let pm = *p.pick(&[1u64, 2, 7, 10, 1000]);
        let c_ms = now_ms();
        let (f2, ctr) = (fired.clone(), Arc::new(AtomicU64::new(0)));
        let derived = p.chance(1, 3);
        let fire = move || -> (u32, u64) {
            let k = ctr.fetch_add(1, Ordering::SeqCst) + 1;
            f2.lock().unwrap().push(Fired { timer: id, k, at_ms: Instant::now().duration_since(t0).as_millis() as u64 });
            (id, k)
        };
        let h = if derived {
            target.get_derived::<DTick>().send_interval(Duration::from_millis(pm), move || {
                let (t, k) = fire();
                DTick(t, k)
            })
        } else {
            target.send_interval(Duration::from_millis(pm), move || {
                let (timer, k) = fire();
                TMsg::Tick { timer, k }
            })
        };
        timers.push((id, pm, c_ms, h));
    }
    let unit = timers.iter().map(|t| t.1).max().unwrap_or(1);
    let mut jumps = vec![];
    for _ in 0..p.range(1, 3) {
        tokio::time::sleep(Duration::from_millis(p.below(4 * unit) + 1)).await;
        let j0 = now_ms();
        let by = p.range(2, 9) * unit + p.below(unit);
        tokio::time::advance(Duration::from_millis(by)).await;
        let j1 = now_ms();
        // let the burst of overdue ticks be produced
        vt::settle().await;
        jumps.push((j0, j1));
    }
    tokio::time::sleep(Duration::from_millis(6 * unit + 3)).await;
    let t_end = now_ms();
    for t in &timers {
        t.3.abort();
    }
    target.stop(None);
    let _ = target_h.await;
    vt::quiesce(1).await;
    let fired: Vec<Fired> = fired.lock().unwrap().clone();
    let desc = vec![format!("clock jumps {jumps:?} (ms) over interval timers (id, period_ms, created_ms) {:?}", timers.iter().map(|t| (t.0, t.1, t.2)).collect::<Vec<_>>())];
    for (id, pm, c_ms, _) in &timers {
        let fs: Vec<&Fired> = fired.iter().filter(|f| f.timer == *id).collect();
        for f in &fs {
            let slot = c_ms + f.k * pm;
            let in_jump = jumps.iter().find(|(a, b)| slot > *a && slot <= *b);
            let want = in_jump.map(|j| j.1).unwrap_or(slot);
            // a slot at the very instant the jump starts may be served before or after it
            if let Some((_, b)) = jumps.iter().find(|(a, _)| slot == *a) {
                if f.at_ms == slot || f.at_ms == *b {
                    continue;
                }
            }
            if f.at_ms < slot {
                v.push(("early".into(), format!("interval timer {id} (period {pm}ms, created {c_ms}ms): tick {} at {}ms, before its slot {slot}ms", f.k, f.at_ms)));
            } else if f.at_ms != want {
                v.push(("interval-drift".into(), format!("interval timer {id} (period {pm}ms, created {c_ms}ms): tick {} at {}ms, expected {want}ms (slot {slot}ms; the clock jumped over {jumps:?})", f.k, f.at_ms)));
            }
        }
        let want_n = (t_end - c_ms) / pm;
        if (fs.len() as u64) + 1 < want_n {
            v.push(("missing-tick".into(), format!("interval timer {id} (period {pm}ms, created {c_ms}ms) produced {} ticks by {t_end}ms, a timer that does not drift produces {want_n}", fs.len())));
        }
    }
    (desc, v, fired.len() as u64, true)
}

async fn body(seed: u64, trace: Arc<Trace>) -> (Vec<String>, Vec<(String, String)>, u64, bool) {
    if seed % 5 == 2 {
        return jump_body(seed, trace).await;
    }
    let mut p = Prng::new(seed);
    let mut v: Vec<(String, String)> = vec![];
    let t0 = Instant::now();
    let now_ms = move || Instant::now().duration_since(t0).as_millis() as u64;
    let sup = Arc::new(ProbeSpec::new(1, Some(format!("c12-sup-{seed:x}")), trace.clone()));
    let (sup_ref, sup_h) = spawn_probe(&sup, None).await.expect("sup");
    let (target, target_h) = Actor::spawn_linked(Some(format!("c12-target-{seed:x}")), Target { trace: trace.clone() }, (), sup_ref.get_cell()).await.expect("target");
    // time scale of this scenario
    let (unit, horizon) = *p.pick(&[(1u64, 60u64), (1, 60), (1000, 30_000), (3_600_000, 4 * 3_600_000)]);
    let periods: Vec<Duration> = vec![
        Duration::ZERO,
        Duration::from_nanos(1),
        Duration::from_millis(1),
        Duration::from_millis(7),
        Duration::from_secs(1),
        Duration::from_secs(3600),
    ];
    let grid = |p: &mut Prng| -> u64 { *p.pick(&[0u64, 0, 1, 2, 7, 7, 14, 21]) * unit / if unit == 1 { 1 } else { 7 } };
    let ntimers = p.range(1, 12);
    let mut plans = vec![];
    let mut has_exit_timer = false;
    for id in 0..ntimers {
        let mut kind = match p.below(10) {
            0..=4 => Kind::After,
            5..=7 => Kind::Interval,
            8 => Kind::ExitAfter,
            _ => Kind::KillAfter,
        };
        if matches!(kind, Kind::ExitAfter | Kind::KillAfter) {
            if has_exit_timer {
                kind = Kind::After;
            } else {
                has_exit_timer = true;
            }
        }
        let mut period = *p.pick(&periods);
        if kind == Kind::Interval && period < Duration::from_millis(1) {
            period = Duration::from_millis(1); // sub-millisecond intervals never let a paused clock advance (documented bound)
        }
        if kind == Kind::Interval && unit > 1 && period < Duration::from_millis(unit / 10 + 1) {
            period = Duration::from_millis(unit); // keep the number of ticks of a scenario bounded
        }
        let create_at = grid(&mut p);
        let abort_now = p.chance(1, 8);
        let abort_at = if abort_now {
            Some(create_at)
        } else if p.chance(1, 3) {
            Some(create_at + grid(&mut p))
        } else {
            None
        };
        plans.push(Plan { id: id as u32, kind, derived: p.chance(1, 3), period, create_at, abort_at, abort_now });
    }
    let exit_at = if p.chance(1, 2) { Some((grid(&mut p) + p.below(2), p.below(3))) } else { None };
    // slow handlers make the target busy (must not influence firing times)
    let nslow = p.below(4);
    for _ in 0..nslow {
        let _ = target.cast(TMsg::Slow(p.range(1, 9) * unit.min(1000)));
    }
    let desc = vec![format!("unit={unit}ms horizon={horizon}ms timers={plans:?} exit_at={exit_at:?} slow={nslow}")];
    let fired: Arc<Mutex<Vec<Fired>>> = Arc::new(Mutex::new(vec![]));
    let created: Arc<Mutex<Vec<(u32, u64, Instant)>>> = Arc::new(Mutex::new(vec![]));
    type AfterHandle = tokio::task::JoinHandle<Result<(), ractor::MessagingErr<TMsg>>>;
    let handles_after: Arc<Mutex<Vec<(u32, AfterHandle)>>> = Arc::new(Mutex::new(vec![]));
    type DAfterHandle = tokio::task::JoinHandle<Result<(), ractor::MessagingErr<DTick>>>;
    let handles_dafter: Arc<Mutex<Vec<(u32, DAfterHandle)>>> = Arc::new(Mutex::new(vec![]));
    let handles_unit: Arc<Mutex<Vec<(u32, tokio::task::JoinHandle<()>)>>> = Arc::new(Mutex::new(vec![]));
    let aborted: Arc<Mutex<Vec<(u32, u64)>>> = Arc::new(Mutex::new(vec![]));
    let mut tasks = vec![];
    for pl in plans.clone() {
        let (target, fired, created, ha, hd, hu, aborted, tr) =
            (target.clone(), fired.clone(), created.clone(), handles_after.clone(), handles_dafter.clone(), handles_unit.clone(), aborted.clone(), trace.clone());
        tasks.push(vt::spawn_h(&format!("c12-creator{}", pl.id), async move {
            tokio::time::sleep(Duration::from_millis(pl.create_at)).await;
            let c_inst = Instant::now();
            let c_ms = c_inst.duration_since(t0).as_millis() as u64;
            created.lock().unwrap().push((pl.id, c_ms, c_inst));
            let ctr = Arc::new(AtomicU64::new(0));
            let mk_fire = {
                let (fired, ctr, tr) = (fired.clone(), ctr.clone(), tr.clone());
                let period = pl.period;
                let id = pl.id;
                move || -> (u32, u64) {
                    let k = ctr.fetch_add(1, Ordering::SeqCst) + 1;
                    let now = Instant::now();
                    let at_ms = now.duration_since(t0).as_millis() as u64;
                    // never early, to the nanosecond
                    let need = period.checked_mul(k as u32).unwrap_or(Duration::MAX);
                    if now.duration_since(c_inst) < need {
                        tr.online_violation("early", format!("timer {id} fired (k={k}) {:?} after creation, period {:?}", now.duration_since(c_inst), period));
                    }
                    fired.lock().unwrap().push(Fired { timer: id, k, at_ms });
                    (id, k)
                }
            };
            match (pl.kind, pl.derived) {
                (Kind::After, false) => {
                    let f = mk_fire.clone();
                    let h = target.send_after(pl.period, move || {
                        let (timer, k) = f();
                        TMsg::Tick { timer, k }
                    });
                    ha.lock().unwrap().push((pl.id, h));
                }
                (Kind::After, true) => {
                    let f = mk_fire.clone();
                    let d = target.get_derived::<DTick>();
                    let h = d.send_after(pl.period, move || {
                        let (timer, k) = f();
                        DTick(timer, k)
                    });
                    hd.lock().unwrap().push((pl.id, h));
                }
                (Kind::Interval, false) => {
                    let f = mk_fire.clone();
                    let h = target.send_interval(pl.period, move || {
                        let (timer, k) = f();
                        TMsg::Tick { timer, k }
                    });
                    hu.lock().unwrap().push((pl.id, h));
                }
                (Kind::Interval, true) => {
                    let f = mk_fire.clone();
                    let d = target.get_derived::<DTick>();
                    let h = d.send_interval(pl.period, move || {
                        let (timer, k) = f();
                        DTick(timer, k)
                    });
                    hu.lock().unwrap().push((pl.id, h));
                }
                (Kind::ExitAfter, d) => {
                    let h = if d { target.get_derived::<DTick>().exit_after(pl.period) } else { target.exit_after(pl.period) };
                    hu.lock().unwrap().push((pl.id, h));
                }
                (Kind::KillAfter, d) => {
                    let h = if d { target.get_derived::<DTick>().kill_after(pl.period) } else { target.kill_after(pl.period) };
                    hu.lock().unwrap().push((pl.id, h));
                }
            }
            if let Some(a) = pl.abort_at {
                if !pl.abort_now {
                    tokio::time::sleep(Duration::from_millis(a - pl.create_at)).await;
                }
                let at = Instant::now().duration_since(t0).as_millis() as u64;
                for (id, h) in ha.lock().unwrap().iter() {
                    if *id == pl.id {
                        h.abort();
                    }
                }
                for (id, h) in hd.lock().unwrap().iter() {
                    if *id == pl.id {
                        h.abort();
                    }
                }
                for (id, h) in hu.lock().unwrap().iter() {
                    if *id == pl.id {
                        h.abort();
                    }
                }
                aborted.lock().unwrap().push((pl.id, at));
            }
        }));
    }
    let mut exit_req_ms = None;
    if let Some((at, kind)) = exit_at {
        tokio::time::sleep(Duration::from_millis(at)).await;
        exit_req_ms = Some(now_ms());
        match kind {
            0 => target.stop(Some("by-harness".into())),
            1 => target.kill(),
            _ => {
                let _ = target.drain();
            }
        }
    }
    for t in tasks {
        let _ = t.await;
    }
    let elapsed = now_ms();
    if elapsed < horizon {
        tokio::time::sleep(Duration::from_millis(horizon - elapsed)).await;
    }
    // ---- end of observation window: stop the target if it is still alive and look at everything
    let alive_at_horizon = target.get_status() == ActorStatus::Running;
    let t_end = now_ms();
    target.stop(Some("end".into()));
    let _ = target_h.await;
    let t_dead = now_ms();
    // interval tasks must end within one period of the target leaving the running states
    let max_period = plans.iter().filter(|p| p.kind == Kind::Interval && p.abort_at.is_none()).map(|p| period_ms_ceil(p.period)).max();
    if let Some(mp) = max_period {
        tokio::time::sleep(Duration::from_millis(mp + 1)).await;
    }
    for (id, h) in handles_unit.lock().unwrap().iter() {
        let pl = plans.iter().find(|p| p.id == *id).unwrap();
        if pl.kind == Kind::Interval && !h.is_finished() {
            v.push(("interval-outlives-target".into(), format!("interval timer {id} (period {:?}) still running {}ms after its target stopped", pl.period, now_ms() - t_dead)));
        }
    }
    vt::quiesce(1).await;
    let recs = trace.snapshot();
    // copies: no lock may be held across the awaits below (timer tasks still take these locks)
    let fired: Vec<Fired> = fired.lock().unwrap().clone();
    let created: Vec<(u32, u64, Instant)> = created.lock().unwrap().clone();
    let aborted: Vec<(u32, u64)> = aborted.lock().unwrap().clone();
    // status timeline of the target: time it left the running states
    let left_running_ms = {
        // the supervisor's terminal event time is an upper bound; the exit request time a lower bound
        recs.iter().find_map(|r| match &r.ev {
            Ev::Sup { uid: 1, kind: SupKind::Terminated | SupKind::Failed, .. } => Some(r.ms),
            _ => None,
        })
    };
    for pl in &plans {
        let Some((_, c_ms, _)) = created.iter().find(|c| c.0 == pl.id) else { continue };
        let pm = period_ms_ceil(pl.period);
        let fires: Vec<&Fired> = fired.iter().filter(|f| f.timer == pl.id).collect();
        let handled: Vec<u64> = recs.iter().filter_map(|r| match &r.ev {
            Ev::Handled { uid: 50, sender, seq } if *sender == pl.id => Some(*seq),
            _ => None,
        }).collect();
        let ab = aborted.iter().find(|a| a.0 == pl.id).map(|a| a.1);
        match pl.kind {
            Kind::After => {
                let due = c_ms + pm;
                if fires.len() > 1 {
                    v.push(("fires-twice".into(), format!("send_after timer {} fired {} times", pl.id, fires.len())));
                }
                for f in &fires {
                    if f.at_ms != due {
                        v.push(("fire-time".into(), format!("send_after timer {} (period {:?}, created {c_ms}ms) fired at {}ms, due {due}ms", pl.id, pl.period, f.at_ms)));
                    }
                }
                let expect_fire = match ab {
                    _ if pl.abort_now => Some(false), // aborted before its task was ever polled: whatever the period, nothing is sent
                    Some(a) if a < due => Some(false),
                    Some(a) if a == due => None, // same instant: 0 or 1
                    _ => {
                        if due <= t_end {
                            Some(true)
                        } else {
                            None // due after the observation window: it may or may not fire while the harness winds down
                        }
                    }
                };
                if let Some(e) = expect_fire {
                    if e != (fires.len() == 1) && !(e && fires.is_empty() && due == t_end) {
                        v.push((
                            if e { "missing-fire" } else { "fire-after-abort" }.into(),
                            format!("send_after timer {} (created {c_ms}ms, period {:?}, abort {ab:?}) fired {} times, expected {}", pl.id, pl.period, fires.len(), e as u8),
                        ));
                    }
                }
                let dups = handled.len();
                if dups > 1 {
                    v.push(("delivered-twice".into(), format!("send_after timer {} was handled {dups} times", pl.id)));
                }
                if handled.len() > fires.len() {
                    v.push(("phantom-delivery".into(), format!("timer {} handled {} times but fired {}", pl.id, handled.len(), fires.len())));
                }
                // the handle reports the send result
                if !pl.derived {
                    let h = {
                        let mut g = handles_after.lock().unwrap();
                        let pos = g.iter().position(|(id, _)| *id == pl.id);
                        pos.map(|i| g.remove(i).1)
                    };
                    if let Some(h) = h {
                        match h.await {
                            Ok(Ok(())) => {
                                if fires.len() != 1 {
                                    v.push(("handle-result".into(), format!("send_after handle {} says Ok but the timer never fired", pl.id)));
                                }
                            }
                            Ok(Err(_)) => {
                                if !handled.is_empty() {
                                    v.push(("handle-result".into(), format!("send_after handle {} says the send failed but the message was handled", pl.id)));
                                }
                            }
                            Err(e) if e.is_cancelled() => {
                                if ab.is_none() {
                                    v.push(("handle-result".into(), format!("send_after handle {} was cancelled without an abort", pl.id)));
                                }
                            }
                            Err(_) => v.push(("handle-result".into(), format!("send_after task {} panicked", pl.id))),
                        }
                    }
                }
                // a target that had stopped before the due time must not get the message
                if let (Some(lr), true) = (left_running_ms, !handled.is_empty()) {
                    if lr < due {
                        v.push(("delivered-to-dead".into(), format!("timer {} due {due}ms was handled although the target's terminal event was seen at {lr}ms", pl.id)));
                    }
                }
            }
            Kind::Interval => {
                for f in &fires {
                    let due = c_ms + f.k * pm;
                    if f.at_ms != due {
                        v.push(("interval-drift".into(), format!("interval timer {} (period {:?}, created {c_ms}ms): tick {} at {}ms, due {due}ms", pl.id, pl.period, f.k, f.at_ms)));
                    }
                }
                // no gaps while the target was running and the timer not aborted
                let until = [ab, exit_req_ms, left_running_ms, Some(t_end)].iter().flatten().min().copied().unwrap_or(t_end);
                if until > *c_ms {
                    let want = (until - c_ms) / pm.max(1);
                    let want = if (until - c_ms) % pm.max(1) == 0 && want > 0 { want - 1 } else { want }; // boundary tick may go either way
                    if (fires.len() as u64) < want {
                        v.push(("missing-tick".into(), format!("interval timer {} fired {} times in [{c_ms}, {until})ms with period {pm}ms, expected at least {want}", pl.id, fires.len())));
                    }
                }
                if let Some(a) = ab {
                    if let Some(f) = fires.iter().find(|f| f.at_ms > a) {
                        v.push(("fire-after-abort".into(), format!("interval timer {} fired at {}ms after its abort at {a}ms", pl.id, f.at_ms)));
                    }
                }
                let mut hs = handled.clone();
                hs.sort();
                hs.dedup();
                if hs.len() != handled.len() {
                    v.push(("delivered-twice".into(), format!("interval timer {}: some tick handled twice", pl.id)));
                }
                if handled.windows(2).any(|w| w[0] >= w[1]) {
                    v.push(("tick-order".into(), format!("interval timer {}: ticks handled out of order {handled:?}", pl.id)));
                }
            }
            Kind::ExitAfter | Kind::KillAfter => {
                // the target must not stop earlier than due because of this timer; check the reason at the supervisor
                let due = c_ms + pm;
                let reason_want = if pl.kind == Kind::ExitAfter { format!("Exit after {}ms", pl.period.as_millis()) } else { "killed".to_string() };
                let term: Option<(u64, String)> = recs.iter().find_map(|r| match &r.ev {
                    Ev::Sup { uid: 1, kind: SupKind::Terminated, detail, .. } => Some((r.ms, detail.clone())),
                    _ => None,
                });
                if let Some((ms, reason)) = &term {
                    let by_this_timer = *reason == reason_want && (pl.kind == Kind::ExitAfter || exit_at.map(|e| e.1 != 1).unwrap_or(true));
                    if by_this_timer && *ms < due && pl.kind == Kind::ExitAfter {
                        v.push(("exit-early".into(), format!("target terminated with '{reason}' at {ms}ms, before the timer's due time {due}ms")));
                    }
                    let should_fire = ab.map(|a| a > due).unwrap_or(true) && due < t_end && exit_req_ms.map(|x| x > due).unwrap_or(true);
                    if should_fire && *reason != reason_want && pl.kind == Kind::ExitAfter && nslow == 0 {
                        // another cause may legitimately win only if it was requested earlier; we required exit_req > due above
                        v.push(("exit-reason".into(), format!("exit_after({:?}) created at {c_ms}ms should have stopped the target at {due}ms with '{reason_want}', supervisor saw '{reason}' at {ms}ms", pl.period)));
                    }
                    if should_fire && *ms != due && *reason == reason_want && nslow == 0 {
                        v.push(("exit-time".into(), format!("{:?} due at {due}ms took effect at {ms}ms", pl.kind)));
                    }
                }
                // a kill timer that was not aborted takes the target down at its due time whatever the target is doing then
                // (idle, in a slow handler, draining a backlog, already asked to stop): the target cannot outlive it
                if pl.kind == Kind::KillAfter && ab.map(|a| a > due).unwrap_or(true) && due < t_end {
                    match &term {
                        Some((ms, reason)) if *ms > due => {
                            v.push(("kill-after-ignored".into(), format!("kill_after({:?}) created at {c_ms}ms was due at {due}ms, but the target lived until {ms}ms (exit reason '{reason}')", pl.period)));
                        }
                        _ => {}
                    }
                }
            }
        }
    }
    let nfires = fired.len() as u64;
    let boundary = plans.iter().any(|p| p.abort_at.is_some()) || exit_at.is_some();
    sup_ref.stop(None);
    let _ = sup_h.await;
    let _ = alive_at_horizon;
    vt::quiesce(1).await;
    (desc, v, nfires, boundary)
}

pub fn run_one(seed: u64) -> Outcome {
    let mut pr = Prng::new(seed ^ 0x12);
    let defer = *pr.pick(&[0u64, 20, 40]);
    let cell: Mutex<Option<(Arc<Trace>, Vec<String>, Vec<(String, String)>, u64, bool)>> = Mutex::new(None);
    let r = vt::run(seed, defer, async {
        let trace = Arc::new(Trace::new());
        let (d, v, n, b) = body(seed, trace.clone()).await;
        *cell.lock().unwrap() = Some((trace, d, v, n, b));
    });
    let mut v = vec![];
    if r.is_none() {
        v.push(("stuck".to_string(), "scenario pending at the virtual-time horizon".to_string()));
    }
    let got = cell.lock().unwrap().take();
    let (recs, mut desc, fires, boundary) = match got {
        Some((t, d, vv, n, b)) => {
            v.extend(vv);
            for (c, dd) in t.online_violations.lock().unwrap().iter() {
                v.push((c.clone(), dd.clone()));
            }
            (t.snapshot(), d, n, b)
        }
        None => (vec![], vec![], 0, false),
    };
    for l in vt::global_leaks() {
        v.push(("leak".into(), l));
    }
    for (loc, msg) in crate::take_foreign_panics() {
        v.push(("foreign-panic".into(), format!("{loc}: {msg}")));
    }
    desc.push(format!("defer={defer}"));
    let handled = recs.iter().filter(|r| matches!(&r.ev, Ev::Handled { uid: 50, .. })).count() as u64;
    Outcome { violations: v, nontrivial: fires >= 1 && boundary, sig: hash_words(&[fires, handled, crate::prng::hash_str(&desc[0])]), recs, desc, fires }
}

/// Real-clock smoke: drift cannot show under a paused clock (executing the loop body takes no virtual time), so the
/// "k-th message at k periods" clause is also observed on the real clock: a non-drifting interval catches up after
/// scheduling delays, a drifting one loses ticks for good. Oracle: never early; #ticks >= elapsed/period - 3.
pub fn run_one_rt(seed: u64, rt: &tokio::runtime::Runtime) -> Outcome {
    let mut p = Prng::new(seed);
    let period_ms = p.range(2, 4);
    let window_ms = 300;
    let derived = p.chance(1, 2);
    let trace = Arc::new(Trace::new());
    let mut v = vec![];
    let (fires, elapsed_ms) = rt.block_on(async {
        let (target, target_h) = Actor::spawn(Some(format!("c12rt-{seed:x}")), Target { trace: trace.clone() }, ()).await.expect("target");
        let fired: Arc<Mutex<Vec<Duration>>> = Arc::new(Mutex::new(vec![]));
        let c = Instant::now();
        let ctr = Arc::new(AtomicU64::new(0));
        let (f2, c2) = (fired.clone(), ctr.clone());
        let fire = move || -> (u32, u64) {
            let k = c2.fetch_add(1, Ordering::SeqCst) + 1;
            f2.lock().unwrap().push(Instant::now().duration_since(c));
            (0, k)
        };
        let period = Duration::from_millis(period_ms);
        let h = if derived {
            let f = fire.clone();
            target.get_derived::<DTick>().send_interval(period, move || {
                let (t, k) = f();
                DTick(t, k)
            })
        } else {
            let f = fire.clone();
            target.send_interval(period, move || {
                let (timer, k) = f();
                TMsg::Tick { timer, k }
            })
        };
        // a busy target must not slow the timer down
        for _ in 0..5 {
            let _ = target.cast(TMsg::Slow(20));
        }
        tokio::time::sleep(Duration::from_millis(window_ms)).await;
        tokio::task::yield_now().await;
        let fires = fired.lock().unwrap().clone();
        let elapsed = Instant::now().duration_since(c);
        h.abort();
        target.stop(None);
        let _ = target_h.await;
        (fires, elapsed.as_millis() as u64)
    });
    for (i, at) in fires.iter().enumerate() {
        let need = Duration::from_millis(period_ms * (i as u64 + 1));
        if *at < need {
            v.push(("early".to_string(), format!("real clock: tick {} at {:?}, before {} periods of {period_ms}ms", i + 1, at, i + 1)));
        }
    }
    let want = elapsed_ms / period_ms;
    if (fires.len() as u64) + 3 < want {
        v.push(("interval-drift".to_string(), format!("real clock: {} ticks of a {period_ms}ms interval in {elapsed_ms}ms, a non-drifting timer delivers at least {}", fires.len(), want - 3)));
    }
    let _ = crate::th::settle_leaks();
    for l in vt::global_leaks() {
        v.push(("leak".into(), l));
    }
    Outcome {
        violations: v,
        recs: trace.snapshot(),
        nontrivial: fires.len() >= 10,
        sig: hash_words(&[period_ms, fires.len() as u64 / 4, derived as u64]),
        desc: vec![format!("real-clock interval period={period_ms}ms window={window_ms}ms derived={derived} ticks={} elapsed={elapsed_ms}ms", fires.len())],
        fires: fires.len() as u64,
    }
}

pub fn run(args: &Args, rep: &mut Report) {
    let rt = if args.engine == "rt" { Some(crate::th::runtime(2)) } else { None };
    let seeds: Vec<u64> = match args.replay {
        Some(s) => vec![s],
        None => args.indices().map(|i| args.scenario_seed(i)).collect(),
    };
    for seed in seeds {
        crate::watch_begin(seed);
        let o = match &rt {
            Some(rt) => run_one_rt(seed, rt),
            None => run_one(seed),
        };
        crate::watch_end();
        rep.scenario(o.nontrivial, o.sig);
        rep.count("timer_firings_observed", o.fires);
        rep.count("events_observed", o.recs.len() as u64);
        if o.nontrivial && rep.samples.len() < 3 {
            rep.sample(J::obj().set("scenario_seed", format!("{seed}")).set("desc", o.desc.clone()).set("trace_excerpt", Trace::render(&o.recs, 10)));
        }
        for (clause, detail) in o.violations {
            rep.violation(Violation { signature: clause.clone(), clause, detail, scenario_seed: seed, scenario: o.desc.join("; "), trace: Trace::render(&o.recs, 40) });
        }
    }
}
