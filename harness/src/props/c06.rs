//! C06 — shutdown waits are accurate and never miss the wake-up.
//!
//! vt : real actors on the virtual clock; waiters use every API (+/- timeouts landing before / at /
//!      after the exit); at each Ok return an immediate snapshot of everything that must be gone.
//! th : (a) detached cell (H4): an exiter thread publishes Stopping -> Stopped through the real
//!      `set_status` while waiter threads create and hand-poll `wait()` futures at random instants;
//!      after all threads joined every waiter future is polled once more and must be Ready
//!      (deterministic lost-wake-up oracle, no deadline). (b) the same with a live actor.
use std::sync::atomic::{AtomicU8, Ordering};
use std::sync::Arc;
use std::time::Duration;

use ractor::{ActorCell, ActorRef, ActorStatus};

use crate::json::J;
use crate::prng::{hash_words, Prng};
use crate::probe::*;
use crate::report::{Report, Violation};
use crate::trace::{Cb, Ev, How, Rec, SupKind, Trace};
use crate::{th, vt, Args};

const SUBJ: u64 = 2;
const SUP: u64 = 1;

/// Everything that must already be true the instant a wait returned Ok.
fn snapshot_at_return(
    trace: &Arc<Trace>,
    who: &str,
    cell: &ActorCell,
    name: &str,
    groups: &[(String, String)],
    children: &[ActorCell],
) {
    let st = cell.get_status();
    if st != ActorStatus::Stopped {
        trace.online_violation("early-return", format!("{who}: returned Ok while status is {st:?}"));
    }
    if let Some(c) = ractor::registry::where_is(name) {
        if c.get_id() == cell.get_id() {
            trace.online_violation("name-still-registered", format!("{who}: returned Ok but where_is({name}) still yields the actor"));
        }
    }
    #[cfg(feature = "cluster")]
    if ractor::registry::where_is_pid(cell.get_id()).is_some() {
        trace.online_violation("pid-still-registered", format!("{who}: returned Ok but where_is_pid still yields the actor"));
    }
    for (s, g) in groups {
        if ractor::pg::get_scoped_members(s, g).iter().any(|m| m.get_id() == cell.get_id()) {
            trace.online_violation("still-in-group", format!("{who}: returned Ok but the actor is still a member of {s}/{g}"));
        }
    }
    if !cell.get_children().is_empty() {
        trace.online_violation("children-attached", format!("{who}: returned Ok but get_children() is not empty"));
    }
    for ch in children {
        if !ch.verif_signal_sent() && ch.get_status() < ActorStatus::Stopping {
            trace.online_violation("child-not-signalled", format!("{who}: returned Ok but child {} has not been signalled", ch.get_id()));
        }
    }
    trace.log(Ev::Note(format!("{who} returned Ok; snapshot taken")));
}

pub struct Outcome {
    pub violations: Vec<(String, String)>,
    pub recs: Vec<Rec>,
    pub nontrivial: bool,
    pub sig: u64,
    pub desc: Vec<String>,
}

// ------------------------------------------------------------------------------------------ vt

async fn vt_body(seed: u64, trace: Arc<Trace>) -> (Vec<String>, bool, u64) {
    let mut p = Prng::new(seed);
    let mut desc = vec![];
    let name = format!("c06-subj-{seed:x}");
    let groups = vec![("c06s".to_string(), format!("g1-{seed:x}")), ("c06s".to_string(), format!("g2-{seed:x}"))];
    let sup = Arc::new(ProbeSpec::new(SUP, Some(format!("c06-sup-{seed:x}")), trace.clone()));
    let (sup_ref, sup_h) = spawn_probe(&sup, None).await.expect("sup");
    #[cfg(feature = "cluster")]
    let pidmon = {
        let mut s = ProbeSpec::new(5, Some(format!("c06-pidmon-{seed:x}")), trace.clone());
        s.pre_start = vec![Step::PidMonitor];
        let s = Arc::new(s);
        spawn_probe(&s, None).await.expect("pidmon")
    };
    let mut subj = ProbeSpec::new(SUBJ, Some(name.clone()), trace.clone());
    subj.child_spawner = Some(std_child_spawner());
    for (s, g) in &groups {
        subj.pre_start.push(Step::Join(s.clone(), g.clone()));
    }
    let nchildren = p.below(3);
    let mut child_specs = vec![];
    for i in 0..nchildren {
        let c = Arc::new(ProbeSpec::new(20 + i, Some(format!("c06-child{i}-{seed:x}")), trace.clone()));
        subj.post_start.push(Step::SpawnChild(c.clone()));
        child_specs.push(c);
    }
    let post_stop_ms = p.below(4) * 5;
    if post_stop_ms > 0 {
        subj.post_stop = vec![Step::Sleep(post_stop_ms), Step::Yield];
    }
    let subj = Arc::new(subj);
    let (actor, handle) = spawn_probe(&subj, Some(sup_ref.get_cell())).await.expect("subject");
    vt::settle().await;
    let children: Vec<ActorCell> = actor.get_children();
    // backlog so that a graceful exit takes a while
    let nbacklog = p.below(4);
    for j in 0..nbacklog {
        let _ = actor.send_message(PMsg::Work(Work::new(&trace, 1, j, vec![Step::Sleep(p.range(1, 10))])));
    }
    // the exit: cause + virtual time at which it is requested
    let cause = p.below(5); // 0 stop,1 kill,2 drain,3 panic,4 none-of-these-but-waiter-does-it
    let t_req = p.below(30);
    desc.push(format!("children={nchildren} backlog={nbacklog} post_stop_ms={post_stop_ms} cause={cause} t_req={t_req}ms"));
    let sampler_stop = Arc::new(AtomicU8::new(0));
    let sampler = {
        let (c, tr, stop) = (actor.get_cell(), trace.clone(), sampler_stop.clone());
        vt::spawn_h("c06-sampler", async move {
            let mut last = ActorStatus::Unstarted;
            let mut n = 0u64;
            while stop.load(Ordering::SeqCst) == 0 && n < 20_000 {
                let s = c.get_status();
                if s < last {
                    tr.online_violation("status-backwards", format!("status moved from {last:?} to {s:?}"));
                }
                last = s;
                n += 1;
                tokio::task::yield_now().await;
                tokio::time::sleep(Duration::from_millis(1)).await;
            }
            n
        })
    };
    // a successor takes the subject's name as soon as the subject has begun to exit (the name is released at Stopping, the
    // subject may still be in post_stop): exit cleanup runs once, so the successor's entry must survive the rest of the exit
    let successor = if Prng::new(seed ^ 0x5c).chance(1, 2) {
        let (c, tr, nm) = (actor.get_cell(), trace.clone(), name.clone());
        Some(vt::spawn_h("c06-successor", async move {
            for _ in 0..3000 {
                if c.get_status() >= ActorStatus::Stopping {
                    break;
                }
                tokio::time::sleep(Duration::from_millis(1)).await;
            }
            if c.get_status() < ActorStatus::Stopping {
                return None;
            }
            let spec = Arc::new(ProbeSpec::new(30, Some(nm), tr));
            spawn_probe(&spec, None).await.ok()
        }))
    } else {
        None
    };
    // waiters (planned up front: if nobody will request an exit, every wait carries a timeout)
    let nwaiters = p.range(1, 8);
    let mut plans = vec![];
    for _ in 0..nwaiters {
        let mut sp = p.fork();
        let api = sp.below(6);
        let start_at = sp.below(60); // before / during / after the exit
        let timeout_ms = if sp.chance(1, 2) { Some(sp.range(1, 50)) } else { None };
        plans.push((api, start_at, timeout_ms));
    }
    let will_exit = cause <= 3 || plans.iter().any(|(api, _, _)| (1..=3).contains(api));
    if !will_exit {
        for pl in plans.iter_mut() {
            if pl.2.is_none() {
                pl.2 = Some(10 + pl.1 % 30);
            }
            if pl.0 == 5 {
                pl.0 = 0;
            }
        }
    }
    // a child that is spawned with spawn_instant and linked by hand just before the exit is requested: it may still be Unstarted
    // (its start task not yet polled) when the subject exits; it counts among the children that must have been signalled
    let late: Arc<std::sync::Mutex<Vec<ActorCell>>> = Default::default();
    let mut tasks = vec![];
    let mut join_handle = Some(handle);
    let mut nontrivial = false;
    for w in 0..nwaiters {
        let (api, start_at, timeout_ms) = plans[w as usize];
        if start_at <= t_req + 15 && start_at + 2 >= t_req {
            nontrivial = true;
        }
        let (tr, a, nm, gs, chs, sr) = (trace.clone(), actor.clone(), name.clone(), groups.clone(), children.clone(), sup_ref.clone());
        let late_w = late.clone();
        let jh = if api == 5 { join_handle.take() } else { None };
        desc.push(format!("w{w}: api={api} start={start_at}ms timeout={timeout_ms:?}"));
        tasks.push(vt::spawn_h(&format!("c06-w{w}"), async move {
            tokio::time::sleep(Duration::from_millis(start_at)).await;
            let who = format!("waiter{w}(api{api})");
            let to = timeout_ms.map(Duration::from_millis);
            let t0 = tr.now_ms();
            tr.log(Ev::Call { client: w as u32, op: "wait", arg: api });
            // res: 1 = Ok, 0 = timeout, -1 = other error
            let res: i64 = match api {
                0 => match a.wait(to).await {
                    Ok(()) => 1,
                    Err(_) => 0,
                },
                1 => match a.stop_and_wait(Some("by-waiter".into()), to).await {
                    Ok(()) => 1,
                    Err(ractor::RactorErr::Timeout) => 0,
                    Err(_) => -1,
                },
                2 => match a.kill_and_wait(to).await {
                    Ok(()) => 1,
                    Err(ractor::RactorErr::Timeout) => 0,
                    Err(_) => -1,
                },
                3 => match a.drain_and_wait(to).await {
                    Ok(()) => 1,
                    Err(ractor::RactorErr::Timeout) => 0,
                    Err(_) => -1,
                },
                4 => match a.get_cell().wait(to).await {
                    Ok(()) => 1,
                    Err(_) => 0,
                },
                _ => match jh {
                    Some(h) => match h.await {
                        Ok(()) => 1,
                        Err(_) => -2,
                    },
                    None => match a.wait(None).await {
                        Ok(()) => 1,
                        Err(_) => 0,
                    },
                },
            };
            if res == 1 {
                let chs: Vec<ActorCell> = chs.iter().cloned().chain(late_w.lock().unwrap().iter().cloned()).collect();
                snapshot_at_return(&tr, &who, &a.get_cell(), &nm, &gs, &chs);
            }
            let t1 = tr.now_ms();
            tr.log(Ev::Ret { client: w as u32, op: "wait", arg: api, res });
            if res == 1 {
                // the supervisor must already have been sent the terminal event: supervision outranks messages
                let before = tr.len();
                let _ = sr.call(PMsg::Flush, None).await;
                let recs = tr.snapshot();
                let subj_pid = pid_of(&a.get_cell());
                let seen = recs.iter().any(|r| matches!(&r.ev, Ev::Sup { uid, kind, who, .. } if *uid == SUP && *who == subj_pid && matches!(kind, SupKind::Terminated | SupKind::Failed)));
                if !seen {
                    tr.online_violation("supervisor-not-notified", format!("{who}: returned Ok but the supervisor had not been sent the terminal event (trace len {before})"));
                }
            }
            if let Some(tms) = timeout_ms {
                if api != 5 {
                    if res == 0 && t1 != t0 + tms {
                        tr.online_violation("timeout-time", format!("{who}: reported Timeout at {t1}ms, issued at {t0}ms with timeout {tms}ms"));
                    }
                    if res == 1 && t1 > t0 + tms {
                        tr.online_violation("timeout-late", format!("{who}: Ok at {t1}ms, after its deadline {}ms", t0 + tms));
                    }
                }
            }
            (api, res, timeout_ms)
        }));
    }
    // requester
    tokio::time::sleep(Duration::from_millis(t_req)).await;
    let mut instant = None;
    if cause <= 2 && Prng::new(seed ^ 0x1257).chance(1, 3) {
        let ispec = Arc::new(ProbeSpec::new(40, Some(format!("c06-instant-{seed:x}")), trace.clone()));
        if let Ok((c, outer)) = ractor::ActorRuntime::<Probe>::spawn_instant(ispec.name.clone(), Probe { spec: ispec.clone() }, ()) {
            c.get_cell().link(actor.get_cell());
            // the link is refused when a waiter has already asked the subject to exit (an exiting actor gains no children)
            if c.get_cell().try_get_supervisor().map(|s| s.get_id()) == Some(actor.get_id()) {
                late.lock().unwrap().push(c.get_cell());
            }
            instant = Some((c, outer));
        }
    }
    trace.log(Ev::Call { client: 100, op: "exit", arg: cause });
    match cause {
        0 => actor.stop(Some("requested".into())),
        1 => actor.kill(),
        2 => {
            let _ = actor.drain();
        }
        3 => {
            let _ = actor.send_message(PMsg::Work(Work::new(&trace, 9, 0, vec![Step::PanicString])));
        }
        _ => {}
    }
    trace.log(Ev::Ret { client: 100, op: "exit", arg: cause, res: 0 });
    // a wait that timed out must have no effect on the actor: it still processes messages (checked below through the trace)
    let mut results = vec![];
    for t in tasks {
        match t.await {
            Ok(r) => results.push(r),
            Err(_) => trace.online_violation("waiter-task", "a waiter task panicked".into()),
        }
    }
    // if nothing caused an exit yet, the actor must still be alive and serving after all those timed-out waits
    let exit_requested = cause <= 3 || results.iter().any(|(api, _, _)| (1..=3).contains(api));
    if !exit_requested {
        if actor.get_status() != ActorStatus::Running {
            trace.online_violation("wait-had-effect", format!("no exit was requested, yet the actor is {:?} after the waits", actor.get_status()));
        }
        let r = actor.call(PMsg::Flush, None).await;
        if !matches!(r, Ok(ractor::rpc::CallResult::Success(_))) {
            trace.online_violation("wait-had-effect", "actor no longer answers after timed-out waits".into());
        }
        actor.stop(None);
    }
    let _ = actor.wait(None).await;
    // late waiters: any API, after the exit, must return at once
    for api in 0..5u64 {
        let r: bool = match api {
            0 => actor.wait(None).await.is_ok(),
            1 => actor.stop_and_wait(None, None).await.is_ok() || true,
            2 => actor.kill_and_wait(None).await.is_ok(),
            3 => actor.drain_and_wait(None).await.is_ok() || true,
            _ => actor.wait(Some(Duration::from_millis(5))).await.is_ok(),
        };
        if !r {
            trace.online_violation("late-waiter", format!("late waiter api {api} did not return Ok after the actor had stopped"));
        }
    }
    if let Some((c, outer)) = instant {
        // (whatever became of it, do not leave it behind for the next scenario)
        vt::settle().await;
        c.kill();
        if let Ok(Ok(h)) = outer.await {
            let _ = h.await;
        }
    }
    sampler_stop.store(1, Ordering::SeqCst);
    let samples = sampler.await.unwrap_or(0);
    if let Some(h) = join_handle {
        let _ = h.await;
    }
    vt::quiesce(1).await;
    if let Some(t) = successor {
        if let Ok(Some((succ, succ_h))) = t.await {
            let found = ractor::registry::where_is(name.clone()).map(|c| c.get_id());
            if succ.get_status() == ActorStatus::Running && found != Some(succ.get_id()) {
                trace.online_violation(
                    "cleanup-ran-twice",
                    format!("a successor took the name {name} while the subject was exiting; after the subject has fully stopped where_is yields {found:?} instead of the running successor {}", succ.get_id()),
                );
            }
            succ.stop(None);
            let _ = succ_h.await;
        }
    }
    sup_ref.stop(None);
    let _ = sup_h.await;
    #[cfg(feature = "cluster")]
    {
        // exactly one pid Terminate event for the subject
        let subj_pid = pid_of(&actor.get_cell());
        let n = trace
            .snapshot()
            .iter()
            .filter(|r| matches!(&r.ev, Ev::Sup { uid: 5, kind: SupKind::PidTerminate, who, .. } if *who == subj_pid))
            .count();
        if n != 1 {
            trace.online_violation("pid-terminate-count", format!("pid monitor saw {n} Terminate events for the subject"));
        }
        pidmon.0.stop(None);
        let _ = pidmon.1.await;
    }
    vt::quiesce(1).await;
    (desc, nontrivial, samples)
}

/// post_stop must have returned before any waiter returned Ok (graceful exits)
fn check_post_stop_before_return(recs: &[Rec]) -> Vec<(String, String)> {
    let mut v = vec![];
    let mut post_stop_enter = None;
    let mut post_stop_exit = None;
    for r in recs {
        match &r.ev {
            Ev::Enter { uid: SUBJ, cb: Cb::PostStop, .. } => post_stop_enter = Some(r.ts),
            Ev::Exit { uid: SUBJ, cb: Cb::PostStop, .. } => post_stop_exit = Some(r.ts),
            Ev::Ret { op, res: 1, client, .. } if *op == "wait" => {
                if let Some(e) = post_stop_enter {
                    if post_stop_exit.map(|x| x > r.ts).unwrap_or(true) && e < r.ts {
                        v.push(("return-before-post_stop".into(), format!("waiter {client} returned Ok at #{} while post_stop (entered #{e}) had not returned", r.ts)));
                    }
                }
            }
            _ => {}
        }
    }
    // and a post_stop that starts after a waiter returned
    let first_ok = recs.iter().find(|r| matches!(&r.ev, Ev::Ret { op, res: 1, .. } if *op == "wait")).map(|r| r.ts);
    if let (Some(f), Some(e)) = (first_ok, post_stop_enter) {
        if e > f {
            v.push(("return-before-post_stop".into(), format!("post_stop entered at #{e} after a waiter had returned Ok at #{f}")));
        }
    }
    let _ = How::Ok;
    v
}

pub fn run_one_vt(seed: u64) -> Outcome {
    let mut pr = Prng::new(seed ^ 0x66);
    let defer = *pr.pick(&[0u64, 20, 40]);
    let cell: std::sync::Mutex<Option<(Arc<Trace>, Vec<String>, bool, u64)>> = std::sync::Mutex::new(None);
    let r = vt::run(seed, defer, async {
        let trace = Arc::new(Trace::new());
        let (desc, nontrivial, samples) = vt_body(seed, trace.clone()).await;
        *cell.lock().unwrap() = Some((trace, desc, nontrivial, samples));
    });
    let got = cell.lock().unwrap().take();
    let mut v = vec![];
    if r.is_none() {
        v.push(("stuck-waiter".to_string(), "a waiter (or the scenario) was still pending at the virtual-time horizon".to_string()));
    }
    let (recs, mut desc, nontrivial) = match got {
        Some((trace, desc, nt, _)) => {
            for (c, d) in trace.online_violations.lock().unwrap().iter() {
                v.push((c.clone(), d.clone()));
            }
            (trace.snapshot(), desc, nt)
        }
        None => (vec![], vec![], false),
    };
    v.extend(check_post_stop_before_return(&recs));
    for l in vt::global_leaks() {
        v.push(("leak".into(), l));
    }
    for (loc, msg) in crate::take_foreign_panics() {
        v.push(("foreign-panic".into(), format!("{loc}: {msg}")));
    }
    desc.push(format!("defer={defer}"));
    let mut words: Vec<u64> = vec![];
    for r in &recs {
        if let Ev::Ret { op, arg, res, .. } = &r.ev {
            if *op == "wait" {
                words.push(arg * 10 + (*res + 2) as u64);
            }
        }
    }
    Outcome { violations: v, recs, nontrivial, sig: hash_words(&words) ^ crate::prng::hash_str(&desc[0]), desc }
}

// ------------------------------------------------------------------------------------------ th

struct Dummy;
#[cfg_attr(feature = "alt", ractor::async_trait)]
impl ractor::Actor for Dummy {
    type Msg = PMsg;
    type State = ();
    type Arguments = ();
    async fn pre_start(&self, _: ActorRef<PMsg>, _: ()) -> Result<(), ractor::ActorProcessingErr> {
        Ok(())
    }
}

/// Detached cell: exiter thread + waiter threads hand-polling `wait()`.
pub fn run_one_detached(seed: u64, yield_only: bool) -> Outcome {
    let mut p = Prng::new(seed);
    let intensity = *p.pick(&[0u32, 40, 80]);
    if yield_only {
        crate::ctl::ctl().begin(crate::ctl::MODE_YIELD, seed);
    } else {
        th::begin(seed, intensity);
    }
    if p.chance(1, 2) {
        crate::ctl::ctl().set_rendezvous(ractor::verif::pt::WAIT_AFTER_NOTIFIED, ractor::verif::pt::STATUS_BEFORE_NOTIFY);
    }
    let trace = Arc::new(Trace::new());
    let (cell, ports) = ActorCell::verif_detached::<Dummy>(None, None).expect("detached");
    let nwaiters = p.range(2, if yield_only { 2 } else { 5 });
    let mut clients: Vec<Box<dyn FnOnce() -> Vec<(u32, bool, bool)> + Send>> = vec![];
    for w in 0..nwaiters {
        let (c, tr, mut sp) = (cell.clone(), trace.clone(), p.fork());
        clients.push(Box::new(move || {
            // each waiter thread creates 1-3 wait futures at random instants and polls them once
            let mut out = vec![];
            let k = sp.range(1, if yield_only { 1 } else { 3 });
            let mut futs = vec![];
            for i in 0..k {
                for _ in 0..sp.below(if yield_only { 2 } else { 300 }) {
                    std::hint::spin_loop();
                }
                let c2 = c.clone();
                let mut m = th::Manual::new(async move { c2.wait(None).await });
                tr.log(Ev::Call { client: w as u32, op: "wait", arg: i });
                let ready = m.poll();
                if ready {
                    let st = c.get_status();
                    tr.log(Ev::Ret { client: w as u32, op: "wait", arg: i, res: 1 });
                    if st != ActorStatus::Stopped {
                        tr.online_violation("early-return", format!("wait() was Ready while status {st:?}"));
                    }
                }
                futs.push((i, m, ready));
            }
            for (i, mut m, ready_first) in futs {
                let _ = i;
                // second phase happens in the caller after join: hand the future back through `out`
                let woken = m.woken();
                let ready_now = ready_first || false;
                out.push((w as u32, ready_now, woken));
                WAITERS.lock().unwrap().push(m_box(m));
            }
            out
        }));
    }
    {
        let (c, mut sp) = (cell.clone(), p.fork());
        clients.push(Box::new(move || {
            for _ in 0..sp.below(if yield_only { 2 } else { 300 }) {
                std::hint::spin_loop();
            }
            c.verif_set_status(ActorStatus::Stopping);
            for _ in 0..sp.below(if yield_only { 2 } else { 100 }) {
                std::hint::spin_loop();
            }
            c.verif_set_status(ActorStatus::Stopped);
            vec![]
        }));
    }
    WAITERS.lock().unwrap().clear();
    if yield_only {
        clients = th::stagger(clients, &mut p.fork());
    }
    let _ = th::run_clients(clients);
    if yield_only {
        crate::ctl::ctl().end();
    } else {
        th::end();
    }
    // all threads joined, the status is Stopped and notify has returned: every waiter must be Ready now
    let mut v = vec![];
    let mut pending_before = 0;
    let ws: Vec<Box<dyn FnMut() -> (bool, bool) + Send>> = std::mem::take(&mut *WAITERS.lock().unwrap());
    let total = ws.len();
    for mut w in ws {
        let (ready, woken) = w();
        if !ready {
            v.push(("lost-wakeup".to_string(), format!("a wait() future created before/during the exit is still Pending after the actor stopped (woken flag={woken})")));
        } else {
            pending_before += 1;
        }
    }
    // a brand-new waiter after the stop returns immediately
    for _ in 0..2 {
        let c2 = cell.clone();
        let mut m = th::Manual::new(async move { c2.wait(None).await });
        if !m.poll() {
            v.push(("late-waiter".to_string(), "a wait() started after the actor stopped did not return immediately".to_string()));
        }
    }
    for (c, d) in trace.online_violations.lock().unwrap().iter() {
        v.push((c.clone(), d.clone()));
    }
    drop(ports);
    drop(cell);
    let recs = trace.snapshot();
    let immediate = recs.iter().filter(|r| matches!(&r.ev, Ev::Ret { op, .. } if *op == "wait")).count();
    Outcome {
        violations: v,
        nontrivial: immediate < total, // at least one waiter registered before the final transition
        sig: hash_words(&[total as u64, immediate as u64, pending_before as u64, nwaiters, intensity as u64]),
        recs,
        desc: vec![format!("detached waiters={nwaiters} futures={total} ready_at_first_poll={immediate} intensity={intensity}")],
    }
}

static WAITERS: std::sync::Mutex<Vec<Box<dyn FnMut() -> (bool, bool) + Send>>> = std::sync::Mutex::new(Vec::new());

fn m_box<F: std::future::Future + Send + 'static>(mut m: th::Manual<F>) -> Box<dyn FnMut() -> (bool, bool) + Send>
where
    F::Output: Send,
{
    Box::new(move || {
        let r = m.poll();
        (r, m.woken())
    })
}

/// Live actor on the multi-thread runtime, hand-polled waiters of every API.
pub fn run_one_live(seed: u64, rt: &tokio::runtime::Runtime) -> Outcome {
    let mut p = Prng::new(seed);
    let intensity = *p.pick(&[0u32, 40, 80]);
    th::begin(seed, intensity);
    let trace = Arc::new(Trace::new());
    let name = format!("c06t-{seed:x}");
    let groups = vec![("c06t".to_string(), format!("g-{seed:x}"))];
    let mut spec = ProbeSpec::new(SUBJ, Some(name.clone()), trace.clone());
    spec.child_spawner = Some(std_child_spawner());
    spec.pre_start.push(Step::Join(groups[0].0.clone(), groups[0].1.clone()));
    let child = Arc::new(ProbeSpec::new(20, Some(format!("c06t-child-{seed:x}")), trace.clone()));
    spec.post_start.push(Step::SpawnChild(child));
    let spec = Arc::new(spec);
    // a supervisor that logs what it is told (its log is the observable for "has been sent the terminal event")
    let sup_spec = Arc::new(ProbeSpec::new(SUP, Some(format!("c06t-sup-{seed:x}")), trace.clone()));
    let (sup_ref, sup_handle) = rt.block_on(spawn_probe(&sup_spec, None)).expect("spawn sup");
    let (actor, handle) = rt.block_on(spawn_probe(&spec, Some(sup_ref.get_cell()))).expect("spawn");
    th::wait_until(2000, || actor.get_status() == ActorStatus::Running && !actor.get_children().is_empty());
    let children = actor.get_children();
    let nwaiters = p.range(2, 5);
    WAITERS.lock().unwrap().clear();
    let mut clients: Vec<Box<dyn FnOnce() + Send>> = vec![];
    for w in 0..nwaiters {
        let (a, tr, mut sp, nm, gs, chs) = (actor.clone(), trace.clone(), p.fork(), name.clone(), groups.clone(), children.clone());
        clients.push(Box::new(move || {
            for _ in 0..sp.below(2000) {
                std::hint::spin_loop();
            }
            let api = sp.below(4);
            let a2 = a.clone();
            let fut: std::pin::Pin<Box<dyn std::future::Future<Output = bool> + Send>> = match api {
                0 => Box::pin(async move { a2.wait(None).await.is_ok() }),
                1 => Box::pin(async move { a2.stop_and_wait(None, None).await.is_ok() }),
                2 => Box::pin(async move { a2.kill_and_wait(None).await.is_ok() }),
                _ => Box::pin(async move { a2.drain_and_wait(None).await.is_ok() }),
            };
            let mut m = th::Manual::new(fut);
            tr.log(Ev::Call { client: w as u32, op: "wait", arg: api });
            let cellc = a.get_cell();
            let who = format!("waiter{w}(api{api})");
            if m.poll() {
                if m.done == Some(true) {
                    snapshot_at_return(&tr, &who, &cellc, &nm, &gs, &chs);
                }
                tr.log(Ev::Ret { client: w as u32, op: "wait", arg: api, res: 1 });
            }
            let (tr2, nm2, gs2, chs2) = (tr.clone(), nm.clone(), gs.clone(), chs.clone());
            WAITERS.lock().unwrap().push(Box::new(move || {
                let was_done = m.done.is_some();
                let r = m.poll();
                if r && !was_done && m.done == Some(true) {
                    snapshot_at_return(&tr2, &who, &cellc, &nm2, &gs2, &chs2);
                }
                (r, m.woken())
            }));
        }));
    }
    // blocking waiters: each drives its own runtime, so it runs the instant it is woken and looks at the world right then
    for w in 0..p.range(1, 2) {
        let (a, tr, mut sp, nm, gs, chs, sr) = (actor.clone(), trace.clone(), p.fork(), name.clone(), groups.clone(), children.clone(), sup_ref.clone());
        clients.push(Box::new(move || {
            for _ in 0..sp.below(2000) {
                std::hint::spin_loop();
            }
            let lrt = tokio::runtime::Builder::new_current_thread().enable_time().build().expect("waiter runtime");
            let who = format!("blocking-waiter{w}");
            tr.log(Ev::Call { client: 50 + w as u32, op: "wait", arg: 9 });
            let ok = lrt.block_on(async { tokio::time::timeout(Duration::from_secs(20), a.wait(None)).await });
            let Ok(Ok(())) = ok else {
                if ok.is_err() {
                    tr.online_violation("lost-wakeup", format!("{who}: wait() did not return within 20 s of the stop"));
                }
                return;
            };
            snapshot_at_return(&tr, &who, &a.get_cell(), &nm, &gs, &chs);
            // supervision outranks messages: if the terminal event was sent before this Flush, it is handled before it
            let _ = lrt.block_on(async { tokio::time::timeout(Duration::from_secs(20), sr.call(PMsg::Flush, None)).await });
            let subj_pid = pid_of(&a.get_cell());
            let seen = tr.snapshot().iter().any(|r| matches!(&r.ev, Ev::Sup { uid, kind, who, .. } if *uid == SUP && *who == subj_pid && matches!(kind, SupKind::Terminated | SupKind::Failed)));
            if !seen {
                tr.online_violation("supervisor-not-notified", format!("{who}: wait() returned Ok but the supervisor had not been sent the terminal event"));
            }
            tr.log(Ev::Ret { client: 50 + w as u32, op: "wait", arg: 9, res: 1 });
        }));
    }
    {
        let (a, mut sp) = (actor.clone(), p.fork());
        clients.push(Box::new(move || {
            for _ in 0..sp.below(2000) {
                std::hint::spin_loop();
            }
            a.stop(Some("th".into()));
        }));
    }
    th::run_clients(clients);
    let jr = rt.block_on(handle);
    sup_ref.stop(None);
    let _ = rt.block_on(sup_handle);
    th::end();
    let mut v = vec![];
    if jr.is_err() {
        v.push(("join".to_string(), format!("{jr:?}")));
    }
    // the join handle completed: everything must be gone right now
    snapshot_at_return(&trace, "join-handle", &actor.get_cell(), &name, &groups, &children);
    let ws: Vec<Box<dyn FnMut() -> (bool, bool) + Send>> = std::mem::take(&mut *WAITERS.lock().unwrap());
    let total = ws.len();
    let mut late_ready = 0;
    for mut w in ws {
        let (ready, woken) = w();
        if !ready {
            v.push(("lost-wakeup".to_string(), format!("a waiter is still Pending after the join handle completed (woken flag={woken})")));
        } else {
            late_ready += 1;
        }
    }
    for (c, d) in trace.online_violations.lock().unwrap().iter() {
        v.push((c.clone(), d.clone()));
    }
    let _ = crate::th::settle_leaks();
    for l in vt::global_leaks() {
        v.push(("leak".into(), l));
    }
    let recs = trace.snapshot();
    let immediate = recs.iter().filter(|r| matches!(&r.ev, Ev::Ret { op, .. } if *op == "wait")).count();
    Outcome {
        violations: v,
        nontrivial: immediate < total,
        sig: hash_words(&[1, total as u64, immediate as u64, late_ready, intensity as u64, nwaiters]),
        recs,
        desc: vec![format!("live waiters={nwaiters} ready_at_first_poll={immediate} intensity={intensity}")],
    }
}

pub fn run(args: &Args, rep: &mut Report) {
    let seeds: Vec<u64> = match args.replay {
        Some(s) => vec![s],
        None => args.indices().map(|i| args.scenario_seed(i)).collect(),
    };
    let rt = if args.engine == "th" { Some(th::runtime(3)) } else { None };
    for seed in seeds {
        crate::watch_begin(seed);
        let o = match args.engine.as_str() {
            "vt" => run_one_vt(seed),
            "th" => {
                if seed % 4 == 0 {
                    run_one_live(seed, rt.as_ref().unwrap())
                } else {
                    run_one_detached(seed, false)
                }
            }
            "miri" => run_one_detached(seed, true),
            e => panic!("engine {e} not supported by C06"),
        };
        crate::watch_end();
        rep.scenario(o.nontrivial, o.sig);
        rep.count("events_observed", o.recs.len() as u64);
        let rets = o.recs.iter().filter(|r| matches!(&r.ev, Ev::Ret { op, res: 1, .. } if *op == "wait")).count() as u64;
        rep.count("waiter_ok_returns_snapshotted", rets);
        if o.nontrivial && rep.samples.len() < 3 {
            rep.sample(J::obj().set("scenario_seed", format!("{seed}")).set("desc", o.desc.clone()).set("trace_excerpt", Trace::render(&o.recs, 14)));
        }
        for (clause, detail) in o.violations {
            rep.violation(Violation { signature: clause.clone(), clause, detail, scenario_seed: seed, scenario: o.desc.join("; "), trace: Trace::render(&o.recs, 70) });
        }
    }
    let hits = crate::ctl::ctl().hit_snapshot();
    rep.count("hits_wait_after_notified", hits[ractor::verif::pt::WAIT_AFTER_NOTIFIED as usize]);
    rep.count("hits_status_before_notify", hits[ractor::verif::pt::STATUS_BEFORE_NOTIFY as usize]);
    rep.count("hits_notify_between", hits[ractor::verif::pt::NOTIFY_BETWEEN as usize]);
    rep.count("rendezvous_met", crate::ctl::ctl().rdv_met.load(Ordering::Relaxed));
}
