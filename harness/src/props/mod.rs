use crate::report::Report;
use crate::Args;

pub mod c01;
pub mod c02;
pub mod c03;
pub mod c04;
pub mod c05;
pub mod c06;
pub mod c07;
pub mod c08;
pub mod c09;
pub mod c10;
pub mod c11;
pub mod c12;
pub mod c13;
pub mod c14;
pub mod c15;
pub mod c16;
#[cfg(feature = "cluster")]
pub mod c17;
#[cfg(feature = "cluster")]
pub mod c18;
pub mod c19;
pub mod c20;
pub mod fac;
pub mod san;
pub mod mtab;
#[cfg(feature = "cluster")]
pub mod ser;
#[cfg(feature = "cluster")]
pub mod tcp;

pub fn dispatch(args: &Args, rep: &mut Report) {
    if args.engine == "san" {
        return san::run(args, rep);
    }
    if args.engine == "dtab" || (args.engine == "miri" && (args.prop == "C10" || args.prop == "C11")) {
        return mtab::run(args, rep);
    }
    #[cfg(feature = "cluster")]
    if args.engine == "ser" {
        return ser::run(args, rep);
    }
    #[cfg(feature = "cluster")]
    if args.engine == "tcp" {
        return tcp::run(args, rep);
    }
    match args.prop.as_str() {
        "C01" => c01::run(args, rep),
        "C02" => c02::run(args, rep),
        "C03" => c03::run(args, rep),
        "C04" => c04::run(args, rep),
        "C05" => c05::run(args, rep),
        "C06" => c06::run(args, rep),
        "C07" => c07::run(args, rep),
        "C08" => c08::run(args, rep),
        "C09" => c09::run(args, rep),
        "C10" => c10::run(args, rep),
        "C11" => c11::run(args, rep),
        "C12" => c12::run(args, rep),
        "C13" => c13::run(args, rep),
        "C14" => c14::run(args, rep),
        "C15" => c15::run(args, rep),
        "C16" => c16::run(args, rep),
        #[cfg(feature = "cluster")]
        "C17" => c17::run(args, rep),
        #[cfg(feature = "cluster")]
        "C18" => c18::run(args, rep),
        #[cfg(feature = "cluster")]
        "C19" => c19::run(args, rep),
        #[cfg(feature = "cluster")]
        "C20" => c20::run(args, rep),
        p => {
            eprintln!("unknown property {p}");
            std::process::exit(2);
        }
    }
}
