//! C14 — factory routing keeps its promises about where a job runs.
use std::collections::{BTreeMap, HashMap, HashSet};

use crate::json::J;
use crate::prng::hash_words;
use crate::report::{Report, Violation};
use crate::Args;

use super::fac::*;

pub struct Checked {
    pub violations: Vec<(String, String, String)>,
    pub nontrivial: bool,
    pub sig: u64,
    pub starts: u64,
    pub same_key_pairs: u64,
    pub rr_windows: u64,
    pub barriers: u64,
}

#[derive(Clone, Debug)]
struct Run {
    id: u64,
    key: u64,
    wid: usize,
    inc: u64,
    start: u64,
    end: u64, // u64::MAX when it never ended
}

pub fn check(o: &FOutcome) -> Checked {
    let mut v: Vec<(String, String, String)> = vec![];
    let mut runs: Vec<Run> = vec![];
    let mut gone: Vec<(u64, usize, u64, Option<u64>, bool)> = vec![];
    let mut dispatch: BTreeMap<u64, (u64, u64, bool)> = BTreeMap::new(); // id -> (ts, key, sent)
    let mut discarded: HashSet<u64> = HashSet::new();
    let mut disturb: Vec<u64> = vec![]; // stamps of resize / kill / drain / worker exits
    let mut resizes: Vec<(u64, usize)> = vec![];
    let mut barriers: Vec<(u64, usize, usize, usize, usize)> = vec![];
    let mut first_exit_op: Option<u64> = None;
    for (ts, _ms, e) in &o.evs {
        match e {
            FEv::Dispatch { id, key, sent, .. } => {
                dispatch.insert(*id, (*ts, *key, *sent));
            }
            FEv::Start { id, key, wid, inc } => runs.push(Run { id: *id, key: *key, wid: *wid, inc: *inc, start: *ts, end: u64::MAX }),
            FEv::End { id, .. } => {
                if let Some(r) = runs.iter_mut().find(|r| r.id == *id && r.end == u64::MAX) {
                    r.end = *ts;
                }
            }
            FEv::Discard { id, .. } => {
                discarded.insert(*id);
            }
            FEv::WorkerGone { wid, inc, inflight, reported_inflight } => {
                gone.push((*ts, *wid, *inc, *inflight, *reported_inflight));
                disturb.push(*ts);
                for r in runs.iter_mut().filter(|r| r.wid == *wid && r.inc == *inc && r.end == u64::MAX) {
                    r.end = *ts;
                }
            }
            FEv::Op(s) => {
                if s.starts_with("resize") || s.starts_with("kill") || s.starts_with("set discard") {
                    disturb.push(*ts);
                }
                if let Some(n) = s.strip_prefix("resize ").and_then(|x| x.parse::<usize>().ok()) {
                    resizes.push((*ts, n));
                }
                if (s == "stop" || s == "drain") && first_exit_op.is_none() {
                    first_exit_op = Some(*ts);
                    disturb.push(*ts);
                }
            }
            FEv::Barrier { depth, active, live_children, expect_pool, .. } => barriers.push((*ts, *depth, *active, *live_children, *expect_pool)),
            _ => {}
        }
    }
    let router = o.cfg.router;
    // --- a worker handles one job at a time
    let mut by_worker: HashMap<(usize, u64), Vec<&Run>> = HashMap::new();
    for r in &runs {
        by_worker.entry((r.wid, r.inc)).or_default().push(r);
    }
    for ((wid, inc), rs) in &by_worker {
        for w in rs.windows(2) {
            if w[1].start < w[0].end {
                v.push(("worker-overlap".into(), format!("worker {wid}#{inc} started job {} at #{} before job {} ended (#{})", w[1].id, w[1].start, w[0].id, w[0].end), "worker-overlap".into()));
            }
        }
    }
    // --- same key never in progress on two different workers (key-persistent, sticky)
    let mut pairs = 0;
    if matches!(router, RouterKind::KeyPersistent | RouterKind::Sticky) {
        let mut by_key: HashMap<u64, Vec<&Run>> = HashMap::new();
        for r in &runs {
            by_key.entry(r.key).or_default().push(r);
        }
        for (key, rs) in &by_key {
            for i in 0..rs.len() {
                for j in (i + 1)..rs.len() {
                    let (a, b) = (rs[i], rs[j]);
                    if a.wid == b.wid {
                        continue;
                    }
                    pairs += 1;
                    if a.start < b.end && b.start < a.end {
                        // discriminating fact for the recorded finding: an incarnation of one of the two workers died
                        // after casting Finished (the factory handled the supervision event before that stale report)
                        let stale = gone.iter().any(|g| (g.1 == a.wid || g.1 == b.wid) && g.4 && g.0 < a.start.max(b.start));
                        let sig = if stale { "key-overlap stale-finished-of-dead-incarnation" } else { "key-overlap" };
                        v.push((
                            "key-overlap".into(),
                            format!("key {key}: job {} ran on worker {}#{} during [#{}, #{}] while job {} ran on worker {}#{} during [#{}, #{}]", a.id, a.wid, a.inc, a.start, a.end, b.id, b.wid, b.inc, b.start, b.end),
                            sig.into(),
                        ));
                    }
                }
            }
        }
    }
    // --- key-persistent: per key, handling order = submission order
    if router == RouterKind::KeyPersistent {
        let mut last: HashMap<u64, u64> = HashMap::new();
        for r in &runs {
            if let Some(prev) = last.get(&r.key) {
                if *prev > r.id {
                    let backlog = o.cfg.pool == 0 || o.evs.iter().any(|(_, _, e)| matches!(e, FEv::Op(s) if s.starts_with("kill")));
                    let _ = backlog;
                    let sig = if o.cfg.pool == 0 { "key-order factory-backlog-with-empty-pool" } else { "key-order" };
                    v.push(("key-order".into(), format!("key {}: job {} was handled after the later-submitted job {prev}", r.key, r.id), sig.into()));
                }
            }
            let e = last.entry(r.key).or_insert(0);
            *e = (*e).max(r.id);
        }
    }
    // --- the factory must survive whatever the hash function returns / whatever happens to workers
    if let Some((id, _)) = dispatch.iter().find(|(_, (ts, _, sent))| !*sent && first_exit_op.map(|x| *ts < x).unwrap_or(true)) {
        v.push(("factory-died".into(), format!("dispatch of job {id} failed although no stop/drain had been requested: the factory is gone ({:?})", o.factory_final), "factory-died".into()));
    }
    // --- custom / round-robin: jobs dispatched in a stable period land inside the requested pool
    let stable_after = |ts: u64| -> Option<(u64, usize)> {
        // the latest barrier before ts with no disturbance between it and ts
        let b = barriers.iter().filter(|b| b.0 < ts).last()?;
        if disturb.iter().any(|d| *d > b.0 && *d < ts) || b.3 != b.4 || b.4 == 0 {
            return None;
        }
        // also require that nothing disturbing happened shortly before the barrier (replacements still in flight)
        Some((b.0, b.4))
    };
    if matches!(router, RouterKind::Custom(_) | RouterKind::RoundRobin) {
        for r in &runs {
            if let Some((dts, _, _)) = dispatch.get(&r.id) {
                if let Some((_, pool)) = stable_after(*dts) {
                    if r.wid >= pool {
                        v.push(("outside-pool".into(), format!("job {} ran on worker {} although the pool has {pool} workers", r.id, r.wid), "outside-pool".into()));
                    }
                }
            }
        }
    }
    // --- custom hash: once a resize request has been processed (a later query was answered) and no other resize follows
    // before the job starts, the job runs on a worker inside the *requested* pool - also while workers beyond it are still
    // finishing what they had (draining after a shrink)
    if matches!(router, RouterKind::Custom(_)) {
        for r in &runs {
            let Some((dts, _, _)) = dispatch.get(&r.id) else { continue };
            let Some(b) = barriers.iter().filter(|b| b.0 < *dts).last() else { continue };
            if resizes.iter().any(|(ts, _)| *ts > b.0 && *ts < r.start) || first_exit_op.map_or(false, |x| x < r.start) {
                continue;
            }
            let pool = resizes.iter().filter(|(ts, _)| *ts < b.0).last().map(|x| x.1).unwrap_or(o.cfg.pool);
            if pool > 0 && r.wid >= pool {
                v.push(("outside-pool".into(), format!("job {} (dispatched after the pool was set to {pool} and that request had been processed) ran on worker {}", r.id, r.wid), "outside-pool".into()));
            }
        }
    }
    // --- round-robin: pool-size consecutive dispatches in a stable period hit every worker
    let mut rr_windows = 0;
    if router == RouterKind::RoundRobin && o.cfg.rate.is_none() {
        let ids: Vec<u64> = dispatch.keys().copied().collect();
        let wid_of: HashMap<u64, usize> = runs.iter().map(|r| (r.id, r.wid)).collect();
        let mut i = 0;
        while i < ids.len() {
            let (ts, _, _) = dispatch[&ids[i]];
            if let Some((_, pool)) = stable_after(ts) {
                if pool >= 2 && i + pool <= ids.len() {
                    let window = &ids[i..i + pool];
                    let last_ts = dispatch[&window[pool - 1]].0;
                    let undisturbed = !disturb.iter().any(|d| *d >= ts && *d <= last_ts) && window.iter().all(|id| wid_of.contains_key(id) && !discarded.contains(id));
                    if undisturbed {
                        rr_windows += 1;
                        let set: HashSet<usize> = window.iter().map(|id| wid_of[id]).collect();
                        if set.len() != pool {
                            v.push(("round-robin".into(), format!("{pool} consecutive jobs {window:?} on a stable pool of {pool} ran on workers {:?}", window.iter().map(|id| wid_of[id]).collect::<Vec<_>>()), "round-robin".into()));
                        }
                    }
                }
            }
            i += 1;
        }
    }
    // --- queuer / sticky: nothing waits in the factory queue while a worker sits idle
    // (sticky routing is excluded: queued jobs whose key is in progress elsewhere legitimately wait in the factory queue for that
    // worker — e.g. 30 same-key jobs behind one busy worker while two others idle; tried again after wave 3, still so)
    // (scenarios with workers that retire by themselves are left out: a worker in post_stop is alive but takes nothing)
    let retiring = o.cfg.ops.iter().any(|(_, op)| matches!(op, Op::Dispatch { beh: JBeh::StopSelfAfter, .. }));
    if router == RouterKind::Queuer && o.cfg.rate.is_none() && !retiring {
        for (ts, depth, active, live, expect) in &barriers {
            if *depth > 0 && *active < (*live).min(*expect) {
                let stale = gone.iter().any(|g| g.4 && g.0 < *ts);
                let sig = if stale { "idle-while-queued stale-finished-of-dead-incarnation" } else { "idle-while-queued" };
                v.push(("idle-while-queued".into(), format!("at #{ts}: {depth} jobs wait in the factory queue while only {active} of {live} workers (pool {expect}) are busy"), sig.into()));
            }
        }
    }
    // --- sticky routing: a queued job whose key is in nobody's hands does not wait while a worker has nothing at all.
    // Judged only at *quiet* barriers (no job started or ended between sending the barrier's queries and their answers), from the
    // factory's own numbers: U = accepted jobs neither started nor discarded; F = keys with a started, unfinished job; a job of U
    // with a key outside F is either in the factory queue or was just handed to a worker that has not begun it - and such a worker
    // counts as active without a started job. If there are more distinct free keys in U than such workers, some free key sits in
    // the factory queue; with an idle worker in the factory's own count that is a violation.
    if router == RouterKind::Sticky && o.cfg.rate.is_none() && !retiring && !o.cfg.priority_queue {
        let mut sent_ts: Option<u64> = None;
        for (ts, _ms, e) in &o.evs {
            match e {
                FEv::Op(s) if s == "barrier-sent" => sent_ts = Some(*ts),
                FEv::Barrier { depth, active, live_children, expect_pool, .. } => {
                    let Some(s0) = sent_ts.take() else { continue };
                    let quiet = !o.evs.iter().any(|(t, _, e2)| *t > s0 && *t < *ts && matches!(e2, FEv::Start { .. } | FEv::End { .. } | FEv::WorkerGone { .. } | FEv::WorkerUp { .. } | FEv::Discard { .. }));
                    let undisturbed = !gone.iter().any(|g| g.0 < *ts) && first_exit_op.map(|x| x > *ts).unwrap_or(true) && !o.evs.iter().any(|(t, _, e2)| *t < *ts && matches!(e2, FEv::Op(s) if s.starts_with("kill")));
                    let pool = (*live_children).min(*expect_pool);
                    if std::env::var("C14_DEBUG").is_ok() {
                        eprintln!("barrier #{ts} s0={s0} quiet={quiet} undisturbed={undisturbed} depth={depth} active={active} pool={pool}");
                    }
                    if !quiet || !undisturbed || *depth == 0 || *active >= pool || o.cfg.pool == 0 {
                        continue;
                    }
                    let in_flight: Vec<&Run> = runs.iter().filter(|r| r.start < s0 && r.end > s0).collect();
                    let busy_keys: HashSet<K> = in_flight.iter().map(|r| r.key).collect();
                    let started_workers: HashSet<usize> = in_flight.iter().map(|r| r.wid).collect();
                    let unstarted: Vec<(u64, K)> = dispatch
                        .iter()
                        .filter(|(id, (dts, _, sent))| *sent && *dts < s0 && !discarded.contains(*id) && !runs.iter().any(|r| r.id == **id && r.start < *ts))
                        .map(|(id, (_, k, _))| (*id, *k))
                        .collect();
                    let free_keys: HashSet<K> = unstarted.iter().map(|x| x.1).filter(|k| !busy_keys.contains(k)).collect();
                    let handed_over = active.saturating_sub(started_workers.len());
                    if std::env::var("C14_DEBUG").is_ok() {
                        eprintln!("  eval #{ts}: busy={busy_keys:?} started_workers={started_workers:?} unstarted={unstarted:?} free={free_keys:?} handed_over={handed_over}");
                    }
                    if free_keys.len() > handed_over {
                        v.push(("idle-while-queued".into(), format!("sticky routing, quiet barrier at #{ts}: {depth} jobs wait in the factory queue, {active} of {pool} workers are busy ({} of them with a started job), yet {} distinct keys among the waiting jobs ({:?}) are in no worker's hands", started_workers.len(), free_keys.len(), free_keys), "idle-while-queued sticky".into()));
                    }
                }
                _ => {}
            }
        }
    }
    if o.stuck {
        v.push(("stuck".into(), "factory scenario pending at the virtual-time horizon".into(), "stuck".into()));
    }
    for (loc, msg) in &o.foreign_panics {
        v.push(("foreign-panic".into(), format!("{loc}: {msg}"), format!("foreign-panic {loc}")));
    }
    let keys: HashSet<u64> = runs.iter().map(|r| r.key).collect();
    Checked {
        nontrivial: runs.len() >= 5 && (pairs > 0 || rr_windows > 0 || !barriers.is_empty()),
        sig: hash_words(&[crate::prng::hash_str(&format!("{router:?}")), runs.len() as u64, keys.len() as u64, gone.len() as u64, pairs.min(50), rr_windows]),
        violations: v,
        starts: runs.len() as u64,
        same_key_pairs: pairs,
        rr_windows,
        barriers: barriers.len() as u64,
    }
}

pub fn run(args: &Args, rep: &mut Report) {
    let seeds: Vec<u64> = match args.replay {
        Some(s) => vec![s],
        None => args.indices().map(|i| args.scenario_seed(i)).collect(),
    };
    for seed in seeds {
        crate::watch_begin(seed);
        let cfg = if seed % 4 == 0 { gen_cfg_stale_report(seed) } else if seed % 4 == 1 { gen_cfg_settings(seed) } else if seed % 8 == 2 { gen_cfg_sticky_grow(seed) } else { gen_cfg(seed, 14) };
        let o = run_scenario(seed, cfg);
        crate::watch_end();
        let c = check(&o);
        rep.scenario(c.nontrivial, c.sig);
        rep.count("job_starts_observed", c.starts);
        rep.count("same_key_cross_worker_pairs_checked", c.same_key_pairs);
        rep.count("round_robin_windows_checked", c.rr_windows);
        rep.count("barriers_checked", c.barriers);
        rep.count(&format!("router_{:?}", o.cfg.router).replace(['(', ')'], "_"), 1);
        if c.nontrivial && rep.samples.len() < 3 {
            rep.sample(J::obj().set("scenario_seed", format!("{seed}")).set("config", format!("router={:?} pool={} ops={}", o.cfg.router, o.cfg.pool, o.cfg.ops.len())).set("trace_excerpt", render(&o.evs, 14)));
        }
        for (clause, detail, sig) in c.violations {
            rep.violation(Violation {
                clause,
                detail,
                signature: sig,
                scenario_seed: seed,
                scenario: format!("router={:?} prio_queue={} discard={:?} rate={:?} dead_man={:?} pool={}", o.cfg.router, o.cfg.priority_queue, o.cfg.discard, o.cfg.rate, o.cfg.dead_man, o.cfg.pool),
                trace: render(&o.evs, 400),
            });
        }
    }
}
