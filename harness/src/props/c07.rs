//! C07 — drain processes everything accepted and admits nothing afterwards.
//!
//! th  : (a) detached mailbox (H4): sender threads race drainer threads at every atomic step of the
//!       send path (H1 noise + rendezvous); after all threads joined the raw mailbox is read and
//!       compared with the client-side history — no waiting involved. Includes re-entrant sends
//!       issued while a message is being boxed (remote-id cell, serializable message).
//!       (b) live actor: accepted == handled, exactly one "Drained" exit, stops by itself.
//! vt  : live actor drained at every lifecycle stage (before the start task of an instant spawn ran,
//!       during pre_start / post_start / a handler / a supervision handler, idle, after stop, after exit).
use std::collections::{HashMap, HashSet};
use std::sync::Arc;

use ractor::actor::actor_cell::VerifItem;
use ractor::{ActorCell, ActorRef, ActorStatus, Message, MessagingErr};

use crate::json::J;
use crate::prng::{hash_words, Prng};
use crate::probe::*;
use crate::report::{Report, Violation};
use crate::trace::{Cb, Ev, Rec, SupKind, Trace};
use crate::{th, vt, Args};

pub struct Outcome {
    pub violations: Vec<(String, String)>,
    pub recs: Vec<Rec>,
    pub nontrivial: bool,
    pub sig: u64,
    pub desc: Vec<String>,
}

// ------------------------------------------------------------------ re-entrant serializable message

#[cfg(feature = "cluster")]
pub struct RMsg {
    pub client: u32,
    pub seq: u64,
    /// while being boxed, send this nested message to the same cell
    pub nested: Option<(ActorCell, Arc<Trace>)>,
}

#[cfg(feature = "cluster")]
impl Message for RMsg {
    fn serializable() -> bool {
        true
    }
    fn serialize(self) -> Result<ractor::message::SerializedMessage, ractor::message::BoxedDowncastErr> {
        if let Some((cell, trace)) = &self.nested {
            // re-entrant send issued while the outer send holds its admission ticket
            let nclient = self.client + 1000;
            trace.log(Ev::Call { client: nclient, op: "send", arg: self.seq });
            let r = cell.send_message::<RMsg>(RMsg { client: nclient, seq: self.seq, nested: None });
            let res = match r {
                Ok(()) => 1,
                Err(MessagingErr::SendErr(back)) => {
                    if back.client == nclient && back.seq == self.seq {
                        0
                    } else {
                        -1
                    }
                }
                Err(_) => -2,
            };
            trace.log(Ev::Ret { client: nclient, op: "send", arg: self.seq, res });
        }
        let mut args = (self.client as u64).to_be_bytes().to_vec();
        args.extend(self.seq.to_be_bytes());
        Ok(ractor::message::SerializedMessage::Cast { variant: "r".into(), args, metadata: None })
    }
}

pub struct Dummy;
#[cfg_attr(feature = "alt", ractor::async_trait)]
impl ractor::Actor for Dummy {
    type Msg = PMsg;
    type State = ();
    type Arguments = ();
    async fn pre_start(&self, _: ActorRef<PMsg>, _: ()) -> Result<(), ractor::ActorProcessingErr> {
        Ok(())
    }
}
#[cfg(feature = "cluster")]
pub struct RDummy;
#[cfg(feature = "cluster")]
impl ractor::Actor for RDummy {
    type Msg = RMsg;
    type State = ();
    type Arguments = ();
    async fn pre_start(&self, _: ActorRef<RMsg>, _: ()) -> Result<(), ractor::ActorProcessingErr> {
        Ok(())
    }
}

// ------------------------------------------------------------------ detached mailbox oracle

/// Compare the raw mailbox content with the client history.
pub fn check_mailbox(recs: &[Rec], mailbox: &[Option<(u32, u64)>]) -> (Vec<(String, String)>, bool, u64) {
    let mut v = vec![];
    let mut call: HashMap<(u32, u64), u64> = HashMap::new();
    let mut ret: HashMap<(u32, u64), (u64, i64)> = HashMap::new();
    let mut drain_call: Vec<u64> = vec![];
    let mut drain_ret: Vec<u64> = vec![];
    for r in recs {
        match &r.ev {
            Ev::Call { client, op, arg } if *op == "send" => {
                call.insert((*client, *arg), r.ts);
            }
            Ev::Ret { client, op, arg, res } if *op == "send" => {
                ret.insert((*client, *arg), (r.ts, *res));
            }
            Ev::Call { op, .. } if *op == "drain" => drain_call.push(r.ts),
            Ev::Ret { op, .. } if *op == "drain" => drain_ret.push(r.ts),
            _ => {}
        }
    }
    let markers = mailbox.iter().filter(|m| m.is_none()).count();
    let want = if drain_ret.is_empty() { 0 } else { 1 };
    if markers != want {
        v.push(("marker-count".to_string(), format!("{markers} drain markers in the mailbox, expected {want} ({} drain calls returned)", drain_ret.len())));
    }
    if let Some(pos) = mailbox.iter().position(|m| m.is_none()) {
        if pos + 1 != mailbox.len() {
            v.push(("after-marker".to_string(), format!("{} items follow the drain marker: {:?}", mailbox.len() - pos - 1, &mailbox[pos + 1..])));
        }
    }
    let in_box: Vec<(u32, u64)> = mailbox.iter().flatten().copied().collect();
    let set_box: HashSet<(u32, u64)> = in_box.iter().copied().collect();
    if set_box.len() != in_box.len() {
        v.push(("duplicate".to_string(), "a message appears twice in the mailbox".to_string()));
    }
    let accepted: HashSet<(u32, u64)> = ret.iter().filter(|(_, (_, res))| *res == 1).map(|(k, _)| *k).collect();
    for k in accepted.difference(&set_box) {
        v.push(("lost".to_string(), format!("send {k:?} returned Ok but the message is not in the mailbox")));
    }
    for k in set_box.difference(&accepted) {
        v.push(("rejected-but-enqueued".to_string(), format!("message {k:?} is in the mailbox but its send did not return Ok ({:?})", ret.get(k))));
    }
    for (k, (_, res)) in &ret {
        if *res < 0 {
            v.push(("wrong-error".to_string(), format!("send {k:?} returned error code {res} (wrong message handed back / unexpected error)")));
        }
    }
    // every send called after some drain() returned must be rejected
    if let Some(first_drain_ret) = drain_ret.iter().min() {
        for (k, c) in &call {
            if c > first_drain_ret {
                if let Some((_, res)) = ret.get(k) {
                    if *res == 1 {
                        v.push(("admitted-after-drain".to_string(), format!("send {k:?} was called at #{c}, after drain() had returned at #{first_drain_ret}, and was accepted")));
                    }
                }
            }
        }
    }
    // per-sender order in the mailbox
    let mut last: HashMap<u32, u64> = HashMap::new();
    for (c, s) in &in_box {
        if let Some(prev) = last.get(c) {
            if prev >= s {
                v.push(("order".to_string(), format!("sender {c}: seq {s} is queued after seq {prev}")));
            }
        }
        last.insert(*c, *s);
    }
    // non-trivial: some send interval overlapped some drain interval
    let mut overlap = false;
    for (i, dc) in drain_call.iter().enumerate() {
        let dr = drain_ret.get(i).copied().unwrap_or(u64::MAX);
        for (k, c) in &call {
            let r = ret.get(k).map(|x| x.0).unwrap_or(u64::MAX);
            if *c < dr && r > *dc {
                overlap = true;
            }
        }
    }
    let rejected = ret.values().filter(|(_, r)| *r == 0).count() as u64;
    (v, overlap, hash_words(&[accepted.len() as u64, rejected, markers as u64, in_box.len() as u64, overlap as u64]))
}

fn drain_client(trace: &Arc<Trace>, cell: &ActorCell, client: u32, times: u64, sp: &mut Prng, spin: u64) {
    for i in 0..times {
        for _ in 0..sp.below(spin + 1) {
            std::hint::spin_loop();
        }
        trace.log(Ev::Call { client, op: "drain", arg: i });
        let r = cell.drain();
        trace.log(Ev::Ret { client, op: "drain", arg: i, res: r.is_ok() as i64 });
    }
}

pub fn run_detached(seed: u64, yield_only: bool) -> Outcome {
    let mut p = Prng::new(seed);
    let intensity = *p.pick(&[0u32, 30, 60, 90]);
    if yield_only {
        crate::ctl::ctl().begin(crate::ctl::MODE_YIELD, seed);
    } else {
        th::begin(seed, intensity);
    }
    {
        use ractor::verif::pt;
        match p.below(4) {
            0 => crate::ctl::ctl().set_rendezvous(pt::SEND_AFTER_ADMIT, pt::DRAIN_AFTER_CLOSE),
            1 => crate::ctl::ctl().set_rendezvous(pt::SEND_AFTER_STATUS, pt::DRAIN_AFTER_STATUS),
            2 => crate::ctl::ctl().set_rendezvous(pt::TICKET_AFTER_SUB, pt::MARKER_BEFORE_CAS),
            _ => {}
        }
    }
    let trace = Arc::new(Trace::new());
    let remote = cfg!(feature = "cluster") && p.chance(1, 3);
    let nsenders = p.range(1, if yield_only { 2 } else { 6 });
    let per = p.range(1, if yield_only { 2 } else { 30 });
    let ndrainers = p.range(1, if yield_only { 2 } else { 3 });
    let spin = if yield_only { 1 } else { p.range(0, 400) };
    let desc = vec![format!("detached remote={remote} senders={nsenders}x{per} drainers={ndrainers} intensity={intensity} spin={spin}")];
    let mut clients: Vec<Box<dyn FnOnce() + Send>> = vec![];
    let mailbox: Vec<Option<(u32, u64)>>;
    #[cfg(feature = "cluster")]
    let (cell, mut ports) = if remote {
        ActorCell::verif_detached::<RDummy>(None, Some(ractor::ActorId::Remote { node_id: 1, pid: seed & 0xffff })).expect("detached")
    } else {
        ActorCell::verif_detached::<Dummy>(None, None).expect("detached")
    };
    #[cfg(not(feature = "cluster"))]
    let (cell, mut ports) = ActorCell::verif_detached::<Dummy>(None, None).expect("detached");
    for s in 0..nsenders {
        let (c, tr, mut sp) = (cell.clone(), trace.clone(), p.fork());
        clients.push(Box::new(move || {
            for j in 0..per {
                for _ in 0..sp.below(spin / 4 + 1) {
                    std::hint::spin_loop();
                }
                #[cfg(feature = "cluster")]
                if remote {
                    let res = if sp.chance(1, 3) {
                        // the entry point the cluster uses to deliver a peer's bytes: already-serialized send
                        let mut args = (s as u64).to_be_bytes().to_vec();
                        args.extend(j.to_be_bytes());
                        tr.log(Ev::Call { client: s as u32, op: "send", arg: j });
                        match c.send_serialized(ractor::message::SerializedMessage::Cast { variant: "r".into(), args: args.clone(), metadata: None }) {
                            Ok(()) => 1,
                            Err(e) => match *e {
                                MessagingErr::SendErr(ractor::message::SerializedMessage::Cast { args: back, .. }) => (back == args) as i64 - 1,
                                _ => -2,
                            },
                        }
                    } else {
                        let nested = if sp.chance(1, 3) { Some((c.clone(), tr.clone())) } else { None };
                        tr.log(Ev::Call { client: s as u32, op: "send", arg: j });
                        let r = c.send_message::<RMsg>(RMsg { client: s as u32, seq: j, nested });
                        match r {
                            Ok(()) => 1,
                            Err(MessagingErr::SendErr(back)) => (back.client == s as u32 && back.seq == j) as i64 - 1,
                            Err(_) => -2,
                        }
                    };
                    tr.log(Ev::Ret { client: s as u32, op: "send", arg: j, res });
                    continue;
                }
                let a: ActorRef<PMsg> = c.clone().into();
                super::c02::do_send(&tr, &a, s as u32, j, vec![], *sp.pick(&[0u64, 1, 2, 4, 4]));
            }
        }));
    }
    for d in 0..ndrainers {
        let (c, tr, mut sp) = (cell.clone(), trace.clone(), p.fork());
        let times = sp.range(1, 3);
        clients.push(Box::new(move || drain_client(&tr, &c, 500 + d as u32, times, &mut sp, spin)));
    }
    if yield_only {
        clients = th::stagger(clients, &mut p.fork());
    }
    th::run_clients(clients);
    if yield_only {
        crate::ctl::ctl().end();
    } else {
        th::end();
    }
    // read the raw mailbox
    let mut mb = vec![];
    while let Some(item) = ports.try_pop() {
        match item {
            VerifItem::Drain => mb.push(None),
            VerifItem::Message(bm) => {
                #[cfg(feature = "cluster")]
                if remote {
                    if let Some(ractor::message::SerializedMessage::Cast { args, .. }) = bm.serialized_msg {
                        let c = u64::from_be_bytes(args[0..8].try_into().unwrap()) as u32;
                        let s = u64::from_be_bytes(args[8..16].try_into().unwrap());
                        mb.push(Some((c, s)));
                    }
                    continue;
                }
                match PMsg::from_boxed(bm) {
                    Ok(PMsg::Work(mut w)) => {
                        w.token.trace = None;
                        mb.push(Some((w.sender, w.seq)));
                    }
                    _ => mb.push(Some((u32::MAX, u64::MAX))),
                }
            }
        }
    }
    mailbox = mb;
    let word = cell.verif_admission_word();
    let recs = trace.snapshot();
    let (mut v, overlap, sig) = check_mailbox(&recs, &mailbox);
    let closed = word >> (usize::BITS - 1) & 1 == 1;
    let count = word & ((1usize << (usize::BITS - 2)) - 1);
    if count != 0 {
        v.push(("ticket-leak".into(), format!("admission word still counts {count} tickets after all threads joined (word {word:#x})")));
    }
    if !closed {
        v.push(("not-closed".into(), "admission is not closed although drain() was called".into()));
    }
    for (c, d) in trace.online_violations.lock().unwrap().iter() {
        v.push((c.clone(), d.clone()));
    }
    for (loc, msg) in crate::take_foreign_panics() {
        v.push(("foreign-panic".into(), format!("{loc}: {msg}")));
    }
    // detached local cells are registered in the pid registry: release them
    cell.verif_set_status(ActorStatus::Stopped);
    drop(ports);
    Outcome { violations: v, recs, nontrivial: overlap, sig, desc }
}

// ------------------------------------------------------------------ live actors

#[derive(Clone, Copy, Debug, PartialEq, Eq)]
pub enum Stage {
    BeforeStart,
    PreStart,
    PostStart,
    Idle,
    MidHandler,
    SupHandler,
    AfterStop,
    AfterExit,
}
const STAGES: [Stage; 8] = [
    Stage::BeforeStart,
    Stage::PreStart,
    Stage::PostStart,
    Stage::Idle,
    Stage::MidHandler,
    Stage::SupHandler,
    Stage::AfterStop,
    Stage::AfterExit,
];

const SUBJ: u64 = 2;
const SUP: u64 = 1;

async fn live_vt_body(seed: u64, trace: Arc<Trace>) -> (Vec<String>, Stage, bool) {
    let mut p = Prng::new(seed);
    let stage = *p.pick(&STAGES);
    let linked = p.chance(1, 2);
    let gate = Gate::new();
    let group = format!("c07-g-{seed:x}");
    let parked = vec![Step::Park(gate.clone()), Step::Yield];
    let sup = Arc::new(ProbeSpec::new(SUP, Some(format!("c07-sup-{seed:x}")), trace.clone()));
    let (sup_ref, sup_h) = spawn_probe(&sup, None).await.expect("sup");
    let member = Arc::new(ProbeSpec::new(3, Some(format!("c07-member-{seed:x}")), trace.clone()));
    let (member_ref, member_h) = spawn_probe(&member, None).await.expect("member");
    let mut subj = ProbeSpec::new(SUBJ, Some(format!("c07-subj-{seed:x}")), trace.clone());
    subj.pre_start.push(Step::PgMonitor(group.clone()));
    match stage {
        Stage::PreStart => subj.pre_start.extend(parked.clone()),
        Stage::PostStart => subj.post_start.extend(parked.clone()),
        Stage::SupHandler => subj.sup_evt.extend(parked.clone()),
        _ => {}
    }
    let subj = Arc::new(subj);
    let spawned = if linked {
        ractor::ActorRuntime::<Probe>::spawn_linked_instant(subj.name.clone(), Probe { spec: subj.clone() }, (), sup_ref.get_cell())
    } else {
        ractor::ActorRuntime::<Probe>::spawn_instant(subj.name.clone(), Probe { spec: subj.clone() }, ())
    };
    let (actor, outer) = spawned.expect("spawn_instant");
    let desc = vec![format!("live-vt stage={stage:?} linked={linked}")];
    // messages sent before the drain (accepted ones must all be handled)
    let nbefore = p.range(0, 4);
    let send_some = |from: u64, n: u64, trace: &Arc<Trace>, actor: &ActorRef<PMsg>, p: &mut Prng| {
        for j in 0..n {
            let script = if p.chance(1, 3) { vec![Step::Sleep(p.range(1, 4))] } else { vec![Step::Yield] };
            super::c02::do_send(trace, actor, from as u32, j, script, *p.pick(&[0u64, 1, 2, 4]));
        }
    };
    if stage == Stage::BeforeStart {
        send_some(1, nbefore, &trace, &actor, &mut p);
    } else {
        match stage {
            Stage::PreStart | Stage::PostStart => gate.wait_reached().await,
            Stage::MidHandler => {
                vt::settle().await;
                let _ = actor.send_message(PMsg::Work(Work::new(&trace, 77, 0, parked.clone())));
                // count the parked message as accepted traffic
                gate.wait_reached().await;
            }
            Stage::SupHandler => {
                vt::settle().await;
                ractor::pg::join(group.clone(), vec![member_ref.get_cell()]);
                gate.wait_reached().await;
            }
            Stage::AfterStop => {
                vt::settle().await;
            }
            Stage::AfterExit => {
                vt::settle().await;
                actor.stop(None);
                let _ = actor.wait(None).await;
            }
            _ => vt::settle().await,
        }
        send_some(1, nbefore, &trace, &actor, &mut p);
        if stage == Stage::AfterStop {
            actor.stop(Some("stopped-first".into()));
        }
    }
    // the drain(s)
    let ndrains = p.range(1, 3);
    for i in 0..ndrains {
        trace.log(Ev::Call { client: 500, op: "drain", arg: i });
        let r = actor.drain();
        trace.log(Ev::Ret { client: 500, op: "drain", arg: i, res: r.is_ok() as i64 });
    }
    // sends after the drain returned: all must be rejected
    send_some(2, p.range(1, 3), &trace, &actor, &mut p);
    gate.release();
    // no stop is requested by the harness: the actor must stop by itself
    let stopped_by_itself = tokio::time::timeout(std::time::Duration::from_secs(60), actor.wait(None)).await.is_ok();
    if !stopped_by_itself {
        actor.kill();
    }
    if let Ok(Ok(inner)) = outer.await {
        let _ = inner.await;
    }
    vt::quiesce(1).await;
    for (r, h) in [(sup_ref, sup_h), (member_ref, member_h)] {
        r.stop(None);
        let _ = h.await;
    }
    vt::quiesce(1).await;
    (desc, stage, stopped_by_itself && linked)
}

pub fn check_live(recs: &[Rec], stage: Option<Stage>, stopped_by_itself: bool, linked_sup: bool, subj_pid: u64) -> (Vec<(String, String)>, u64) {
    let mut v = vec![];
    let mut ret: HashMap<(u32, u64), (u64, i64)> = HashMap::new();
    let mut call: HashMap<(u32, u64), u64> = HashMap::new();
    let mut handled: HashSet<(u32, u64)> = HashSet::new();
    let mut first_drain_ret = None;
    let mut other_exit = false; // stop / kill / failure intervened
    for r in recs {
        match &r.ev {
            Ev::Call { client, op, arg } if *op == "send" => {
                call.insert((*client, *arg), r.ts);
            }
            Ev::Ret { client, op, arg, res } if *op == "send" => {
                ret.insert((*client, *arg), (r.ts, *res));
            }
            Ev::Handled { uid: SUBJ, sender, seq } => {
                if !handled.insert((*sender, *seq)) {
                    v.push(("duplicate".to_string(), format!("({sender},{seq}) handled twice")));
                }
            }
            Ev::Ret { op, res: 1, .. } if *op == "drain" => {
                first_drain_ret.get_or_insert(r.ts);
            }
            Ev::Ret { op, .. } if *op == "stop" || *op == "kill" => other_exit = true,
            _ => {}
        }
    }
    if matches!(stage, Some(Stage::AfterStop) | Some(Stage::AfterExit)) {
        other_exit = true;
    }
    if let Some(d) = first_drain_ret {
        for (k, c) in &call {
            if *c > d && ret.get(k).map(|x| x.1) == Some(1) {
                v.push(("admitted-after-drain".to_string(), format!("send {k:?} called at #{c} after drain() returned at #{d} was accepted")));
            }
        }
    }
    for (k, (_, res)) in &ret {
        if *res == 1 && !handled.contains(k) && !other_exit {
            v.push(("accepted-not-handled".to_string(), format!("send {k:?} returned Ok but the message was never handled although only a drain ended the actor")));
        }
        if *res == 0 && handled.contains(k) {
            v.push(("rejected-but-handled".to_string(), format!("send {k:?} was rejected but handled")));
        }
        if *res < 0 {
            v.push(("wrong-error".to_string(), format!("send {k:?} returned code {res}")));
        }
    }
    if !other_exit {
        if !stopped_by_itself {
            v.push(("never-stops".to_string(), "the drained actor did not stop by itself".to_string()));
        }
        if linked_sup {
            let drained: Vec<_> = recs
                .iter()
                .filter(|r| matches!(&r.ev, Ev::Sup { uid: SUP, kind: SupKind::Terminated, who, detail, .. } if *who == subj_pid && detail == "Drained"))
                .collect();
            if drained.len() != 1 {
                v.push(("drained-exit-count".to_string(), format!("supervisor saw {} ActorTerminated(.., \"Drained\") events, expected exactly 1", drained.len())));
            }
        }
        let post_stop = recs.iter().filter(|r| matches!(&r.ev, Ev::Enter { uid: SUBJ, cb: Cb::PostStop, .. })).count();
        if post_stop != 1 && stopped_by_itself {
            v.push(("post_stop".to_string(), format!("post_stop ran {post_stop} times after a drain exit")));
        }
    }
    let sig = hash_words(&[stage.map(|s| s as u64 + 1).unwrap_or(0), handled.len() as u64, ret.values().filter(|x| x.1 == 0).count() as u64, linked_sup as u64]);
    (v, sig)
}

pub fn run_live_vt(seed: u64) -> Outcome {
    let mut pr = Prng::new(seed ^ 0x7);
    let defer = *pr.pick(&[0u64, 25]);
    let cell: std::sync::Mutex<Option<(Arc<Trace>, Vec<String>, Stage, bool, bool)>> = std::sync::Mutex::new(None);
    let r = vt::run(seed, defer, async {
        let trace = Arc::new(Trace::new());
        let (desc, stage, linked_and_stopped) = live_vt_body(seed, trace.clone()).await;
        let stopped = !desc.is_empty();
        *cell.lock().unwrap() = Some((trace, desc, stage, linked_and_stopped, stopped));
    });
    let mut v = vec![];
    if r.is_none() {
        v.push(("stuck".to_string(), "scenario pending at the virtual-time horizon".to_string()));
    }
    let got = cell.lock().unwrap().take();
    let Some((trace, mut desc, stage, _las, _)) = got else {
        return Outcome { violations: v, recs: vec![], nontrivial: false, sig: 0, desc: vec![] };
    };
    let recs = trace.snapshot();
    let linked = desc[0].contains("linked=true");
    // subject pid from its Enter events is not needed: find via the supervisor's events (any event about a non-member)
    let subj_pid = recs
        .iter()
        .find_map(|r| match &r.ev {
            Ev::Sup { uid: SUP, who, .. } => Some(*who),
            _ => None,
        })
        .unwrap_or(u64::MAX);
    // stopped by itself = no kill fallback was needed: detect via absence of our fallback (actor.kill is not logged) -> use status trace
    let killed_fallback = recs.iter().any(|r| matches!(&r.ev, Ev::Exit { uid: SUBJ, how: crate::trace::How::Cancelled, .. }));
    let stopped_by_itself = !killed_fallback && r.is_some();
    let (lv, sig) = check_live(&recs, Some(stage), stopped_by_itself, linked && subj_pid != u64::MAX, subj_pid);
    v.extend(lv.into_iter().map(|(c, d)| (c, format!("{d} [stage {stage:?}]"))));
    if linked && subj_pid == u64::MAX && !matches!(stage, Stage::AfterStop | Stage::AfterExit) {
        v.push(("drained-exit-count".into(), format!("supervisor never heard of the subject [stage {stage:?}]")));
    }
    for (c, d) in trace.online_violations.lock().unwrap().iter() {
        v.push((c.clone(), d.clone()));
    }
    for l in vt::global_leaks() {
        v.push(("leak".into(), l));
    }
    for (loc, msg) in crate::take_foreign_panics() {
        v.push(("foreign-panic".into(), format!("{loc}: {msg}")));
    }
    desc.push(format!("defer={defer}"));
    Outcome { violations: v, recs, nontrivial: true, sig, desc }
}

pub fn run_live_th(seed: u64, rt: &tokio::runtime::Runtime) -> Outcome {
    let mut p = Prng::new(seed);
    let intensity = *p.pick(&[0u32, 30, 60]);
    th::begin(seed, intensity);
    let trace = Arc::new(Trace::new());
    let sup = Arc::new(ProbeSpec::new(SUP, Some(format!("c07t-sup-{seed:x}")), trace.clone()));
    let (sup_ref, sup_h) = rt.block_on(spawn_probe(&sup, None)).expect("sup");
    let spec = Arc::new(ProbeSpec::new(SUBJ, Some(format!("c07t-{seed:x}")), trace.clone()));
    let (actor, handle) = rt.block_on(spawn_probe(&spec, Some(sup_ref.get_cell()))).expect("spawn");
    let nsenders = p.range(1, 6);
    let per = p.range(1, 30);
    let ndrainers = p.range(1, 2);
    let spin = p.range(0, 3000);
    let desc = vec![format!("live-th senders={nsenders}x{per} drainers={ndrainers} intensity={intensity} spin={spin}")];
    let mut clients: Vec<Box<dyn FnOnce() + Send>> = vec![];
    for s in 0..nsenders {
        let (a, tr, mut sp) = (actor.clone(), trace.clone(), p.fork());
        clients.push(Box::new(move || {
            let mut self_seq = 1_000_000 * (s + 1);
            for j in 0..per {
                let script = if sp.chance(1, 6) {
                    self_seq += 1;
                    vec![Step::SendSelf { seq: self_seq }]
                } else {
                    vec![]
                };
                super::c02::do_send(&tr, &a, s as u32, j, script, *sp.pick(&[0u64, 1, 2, 4]));
            }
        }));
    }
    for d in 0..ndrainers {
        let (c, tr, mut sp) = (actor.get_cell(), trace.clone(), p.fork());
        clients.push(Box::new(move || drain_client(&tr, &c, 500 + d as u32, 2, &mut sp, spin)));
    }
    th::run_clients(clients);
    // the actor must stop by itself; the wall-clock bound only guards the harness (inconclusive if hit)
    let stopped = th::wait_until(20_000, || actor.get_status() == ActorStatus::Stopped);
    let mut v = vec![];
    if !stopped {
        // decide deterministically: is a drain marker still going to be processed? if the mailbox is empty and
        // admission shows no tickets and marker-sent, nothing will ever wake the actor: stuck
        let word = actor.get_cell().verif_admission_word();
        v.push(("never-stops".to_string(), format!("drained live actor still {:?} 20 s after all senders/drainers finished (admission word {word:#x})", actor.get_status())));
        actor.kill();
    }
    let _ = rt.block_on(handle);
    th::end();
    let subj_pid = pid_of(&actor.get_cell());
    let _ = rt.block_on(sup_ref.call(PMsg::Flush, None));
    let recs = trace.snapshot();
    let (lv, sig) = check_live(&recs, None, stopped, true, subj_pid);
    v.extend(lv);
    sup_ref.stop(None);
    let _ = rt.block_on(sup_h);
    for (c, d) in trace.online_violations.lock().unwrap().iter() {
        v.push((c.clone(), d.clone()));
    }
    drop(actor);
    let _ = crate::th::settle_leaks();
    for l in vt::global_leaks() {
        v.push(("leak".into(), l));
    }
    for (loc, msg) in crate::take_foreign_panics() {
        v.push(("foreign-panic".into(), format!("{loc}: {msg}")));
    }
    let overlap = {
        let dc = recs.iter().find(|r| matches!(&r.ev, Ev::Call { op, .. } if *op == "drain")).map(|r| r.ts).unwrap_or(u64::MAX);
        recs.iter().any(|r| matches!(&r.ev, Ev::Ret { op, .. } if *op == "send") && r.ts > dc)
    };
    Outcome { violations: v, recs, nontrivial: overlap, sig, desc }
}

/// E-T: a thread-local actor is spawned with `spawn_instant`, gets messages through the reference it has at once, and is
/// drained before its start has run (in half of the scenarios the spawner thread is provably held by a blocker actor until
/// the drain has returned). Everything accepted must be handled, then the actor stops by itself with a "Drained" exit.
pub fn run_tl_instant_drain(seed: u64, rt: &tokio::runtime::Runtime, spawner: ractor::thread_local::ThreadLocalActorSpawner) -> Outcome {
    let mut p = Prng::new(seed ^ 0x71d);
    let trace = Arc::new(Trace::new());
    let mut v: Vec<(String, String)> = vec![];
    let hold = p.chance(1, 2);
    let linked = p.chance(1, 2);
    let k = p.range(1, 6);
    let (tx, rxc) = std::sync::mpsc::channel::<()>();
    let rxc = Arc::new(std::sync::Mutex::new(rxc));
    let entered = Arc::new(std::sync::atomic::AtomicBool::new(false));
    rt.block_on(async {
        use ractor::thread_local::ThreadLocalActor;
        let sup = Arc::new(ProbeSpec::new(SUP, Some(format!("c07i-sup-{seed:x}")), trace.clone()));
        let (sup_ref, sup_h) = spawn_probe(&sup, None).await.expect("sup");
        let blocker = Arc::new(ProbeSpec::new(6, Some(format!("c07i-blocker-{seed:x}")), trace.clone()));
        let (blk, blk_h) = spawn_tl_probe(&blocker, None, spawner.clone()).await.expect("blocker");
        if hold {
            let (e2, r2) = (entered.clone(), rxc.clone());
            let f: Arc<dyn Fn(&ActorRef<PMsg>) + Send + Sync> = Arc::new(move |_| {
                e2.store(true, std::sync::atomic::Ordering::SeqCst);
                let _ = r2.lock().unwrap().recv_timeout(std::time::Duration::from_secs(20));
            });
            let _ = blk.send_message(PMsg::Work(Work::new(&trace, 9, 0, vec![Step::Do(f)])));
            for _ in 0..4000 {
                if entered.load(std::sync::atomic::Ordering::SeqCst) {
                    break;
                }
                tokio::time::sleep(std::time::Duration::from_micros(500)).await;
            }
        }
        let spec = Arc::new(ProbeSpec::new(SUBJ, Some(format!("c07i-{seed:x}")), trace.clone()));
        let spawned = if linked {
            TlProbe::spawn_linked_instant(spec.name.clone(), spec.clone(), sup_ref.get_cell(), spawner.clone())
        } else {
            TlProbe::spawn_instant(spec.name.clone(), spec.clone(), spawner.clone())
        };
        let (actor, outer) = match spawned {
            Ok(x) => x,
            Err(e) => {
                v.push(("setup".into(), format!("spawn_instant failed: {e}")));
                return;
            }
        };
        let mut accepted = 0u64;
        for j in 0..k {
            if super::c02::do_send(&trace, &actor, 1, j, vec![], p.below(3)) == 1 {
                accepted += 1;
            }
        }
        trace.log(Ev::Call { client: 500, op: "drain", arg: 0 });
        let dr = actor.drain();
        trace.log(Ev::Ret { client: 500, op: "drain", arg: 0, res: dr.is_ok() as i64 });
        let _ = tx.send(());
        let started = tokio::time::timeout(std::time::Duration::from_secs(10), outer).await;
        let waited = tokio::time::timeout(std::time::Duration::from_secs(10), actor.wait(None)).await;
        tokio::time::sleep(std::time::Duration::from_millis(5)).await;
        let recs = trace.snapshot();
        let handled = recs.iter().filter(|r| matches!(&r.ev, Ev::Handled { uid: SUBJ, .. })).count() as u64;
        let stage = if hold { "[stage BeforeStart, spawner held]" } else { "[stage around start]" };
        match &started {
            Ok(Ok(Ok(_))) => {}
            other => v.push(("start-failed".into(), format!("{stage} the instant-spawned thread-local actor did not start after a drain: {}", match other { Ok(Ok(Err(e))) => format!("{e}"), Ok(Err(e)) => format!("start task {e:?}"), _ => "start task pending".into() }))),
        }
        if waited.is_err() {
            v.push(("never-stops".into(), format!("{stage} drained thread-local actor did not stop by itself within 10 s (status {:?})", actor.get_status())));
            actor.kill();
            let _ = actor.wait(None).await;
        }
        if handled != accepted {
            v.push(("accepted-not-handled".into(), format!("{stage} {accepted} sends were accepted before the drain, {handled} were handled")));
        }
        if waited.is_ok() && !recs.iter().any(|r| matches!(&r.ev, Ev::Enter { uid: SUBJ, cb: crate::trace::Cb::PostStop, .. })) {
            v.push(("post_stop-missing".into(), format!("{stage} the drained actor exited without running post_stop")));
        }
        if linked {
            let _ = sup_ref.call(PMsg::Flush, None).await;
            let drained_evts = trace.snapshot().iter().filter(|r| matches!(&r.ev, Ev::Sup { uid: SUP, kind: crate::trace::SupKind::Terminated, detail, .. } if detail == "Drained")).count();
            if drained_evts != 1 {
                v.push(("drained-exit-count".into(), format!("{stage} the supervisor saw {drained_evts} ActorTerminated(\"Drained\") events")));
            }
        }
        blk.stop(None);
        let _ = blk_h.await;
        sup_ref.stop(None);
        let _ = sup_h.await;
    });
    let _ = crate::th::settle_leaks();
    for l in vt::global_leaks() {
        v.push(("leak".into(), l));
    }
    for (loc, msg) in crate::take_foreign_panics() {
        v.push(("foreign-panic".into(), format!("{loc}: {msg}")));
    }
    let recs = trace.snapshot();
    Outcome { violations: v, nontrivial: true, sig: hash_words(&[0x71d, hold as u64, linked as u64, k]), recs, desc: vec![format!("thread-local spawn_instant + {k} sends + drain before start; spawner held={hold} linked={linked}")] }
}

pub fn run(args: &Args, rep: &mut Report) {
    let seeds: Vec<u64> = match args.replay {
        Some(s) => vec![s],
        None => args.indices().map(|i| args.scenario_seed(i)).collect(),
    };
    let rt = if args.engine == "th" { Some(th::runtime(3)) } else { None };
    let tl = if args.engine == "th" { Some(ractor::thread_local::ThreadLocalActorSpawner::new()) } else { None };
    for seed in seeds {
        crate::watch_begin(seed);
        let o = match args.engine.as_str() {
            "vt" => run_live_vt(seed),
            "th" => {
                if seed % 40 == 7 {
                    run_tl_instant_drain(seed, rt.as_ref().unwrap(), tl.clone().unwrap())
                } else if seed % 5 == 0 {
                    run_live_th(seed, rt.as_ref().unwrap())
                } else {
                    run_detached(seed, false)
                }
            }
            "miri" => run_detached(seed, true),
            e => panic!("engine {e} not supported by C07"),
        };
        crate::watch_end();
        rep.scenario(o.nontrivial, o.sig);
        rep.count("events_observed", o.recs.len() as u64);
        if o.nontrivial && rep.samples.len() < 3 {
            rep.sample(J::obj().set("scenario_seed", format!("{seed}")).set("desc", o.desc.clone()).set("history_excerpt", Trace::render(&o.recs, 14)));
        }
        for (clause, detail) in o.violations {
            let sig = if detail.contains("[stage BeforeStart]") { format!("{clause} drain-before-start") } else { clause.clone() };
            rep.violation(Violation { signature: sig, clause, detail, scenario_seed: seed, scenario: o.desc.join("; "), trace: Trace::render(&o.recs, 70) });
        }
    }
    let hits = crate::ctl::ctl().hit_snapshot();
    use ractor::verif::pt;
    for (n, id) in [
        ("hits_send_after_admit", pt::SEND_AFTER_ADMIT),
        ("hits_ticket_after_sub", pt::TICKET_AFTER_SUB),
        ("hits_drain_after_close", pt::DRAIN_AFTER_CLOSE),
        ("hits_drain_after_status", pt::DRAIN_AFTER_STATUS),
        ("hits_marker_before_cas", pt::MARKER_BEFORE_CAS),
        ("hits_marker_after_cas", pt::MARKER_AFTER_CAS),
    ] {
        rep.count(n, hits[id as usize]);
    }
    rep.count("rendezvous_met", crate::ctl::ctl().rdv_met.load(std::sync::atomic::Ordering::Relaxed));
}
