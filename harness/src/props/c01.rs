//! C01 — one handler at a time, in lifecycle order.
//!
//! Engine E-A (`vt`): seeded scenarios on the paused-clock single-thread runtime with the poll
//! interposer choosing which ready task runs next. Engine E-T (`th`): the same scenarios on a
//! multi-thread runtime with noise at the H1 points (the overlap flag is checked on any thread).
use std::collections::HashMap;
use std::sync::Arc;

use crate::json::J;
use crate::prng::{hash_words, Prng};
use crate::probe::*;
use crate::report::{Report, Violation};
use crate::trace::{Cb, Ev, How, Rec, Trace};
use crate::{vt, Args};

#[derive(Clone, Debug, Default)]
pub struct Desc {
    pub lines: Vec<String>,
}

fn gen_body(p: &mut Prng, allow_self_send: bool, next_self_seq: &mut u64) -> Script {
    let mut s = vec![];
    let n = p.below(4);
    for _ in 0..n {
        match p.below(10) {
            0..=4 => s.push(Step::Yield),
            5..=6 => s.push(Step::Sleep(p.range(1, 20))),
            7..=8 if allow_self_send => {
                *next_self_seq += 1;
                s.push(Step::SendSelf { seq: *next_self_seq });
            }
            _ => s.push(Step::Yield),
        }
    }
    s
}

fn fail_step(p: &mut Prng) -> Step {
    match p.below(3) {
        0 => Step::PanicString,
        1 => Step::PanicStr,
        _ => Step::Err,
    }
}

pub struct Outcome {
    pub nontrivial: bool,
    pub sig: u64,
    pub violations: Vec<(String, String, String)>, // clause, detail, signature
    pub desc: Vec<String>,
    pub recs: Vec<Rec>,
}

/// What the harness did to each probe (needed by the oracle)
#[derive(Default, Clone)]
struct Facts {
    /// uid -> ts of the first returned explicit kill
    kill_ret: HashMap<u64, u64>,
    /// uid -> graceful exit expected (stop/drain delivered, never killed, no failing script)
    expect_post_stop: HashMap<u64, bool>,
    spawned_ok: HashMap<u64, bool>,
}

/// The per-actor lifecycle automaton over the trace.
pub fn check_lifecycle(recs: &[Rec], facts_kill_ret: &HashMap<u64, u64>, stop_ret: &HashMap<u64, u64>, single_thread: bool) -> Vec<(String, String, String)> {
    #[derive(Default)]
    struct St {
        pre_enter: u32,
        pre_ok: bool,
        post_start_enter: u32,
        post_start_ok: bool,
        post_stop_enter: u32,
        failed: bool, // some callback exited Err/Panic
        cancelled: bool,
        after_post_stop_enter: bool,
        active: Option<Cb>,
        allowance: u32,
        stop_allowance: u32,
    }
    let mut m: HashMap<u64, St> = HashMap::new();
    let mut v = vec![];
    let mut bad = |clause: &str, detail: String| v.push((clause.to_string(), detail, clause.to_string()));
    for r in recs {
        match &r.ev {
            Ev::Enter { uid, cb, .. } => {
                let st = m.entry(*uid).or_default();
                if st.active.is_some() {
                    bad("overlap", format!("uid {uid}: enter {cb:?} at #{} while {:?} active", r.ts, st.active));
                }
                st.active = Some(*cb);
                if st.after_post_stop_enter {
                    bad("order", format!("uid {uid}: {cb:?} entered after post_stop began (#{})", r.ts));
                }
                if let Some(kts) = facts_kill_ret.get(uid) {
                    if r.ts > *kts {
                        // thread engine: one pick may be in flight when kill() returns. That includes post_stop: the biased
                        // select in run_with_signal may have polled the (still empty) signal port just before the kill was
                        // sent from another thread, and start post_stop just after kill() returned there.
                        if single_thread || st.allowance >= 1 {
                            bad("after-kill", format!("uid {uid}: {cb:?} entered at #{} after kill() returned at #{kts}", r.ts));
                        }
                        st.allowance += 1;
                    }
                }
                if let Some(sts) = stop_ret.get(uid) {
                    if r.ts > *sts && matches!(cb, Cb::Handle | Cb::SupEvt) {
                        // thread engine: one pick may be in flight when stop() returns
                        if single_thread || st.stop_allowance >= 1 {
                            bad("after-stop", format!("uid {uid}: {cb:?} entered at #{} after stop() returned at #{sts}", r.ts));
                        }
                        st.stop_allowance += 1;
                    }
                }
                match cb {
                    Cb::PreStart => {
                        st.pre_enter += 1;
                        if st.pre_enter > 1 {
                            bad("pre_start-once", format!("uid {uid}: pre_start entered {} times", st.pre_enter));
                        }
                    }
                    Cb::PostStart => {
                        st.post_start_enter += 1;
                        if !st.pre_ok || st.post_start_enter > 1 {
                            bad("order", format!("uid {uid}: post_start entered (n={}) pre_ok={}", st.post_start_enter, st.pre_ok));
                        }
                    }
                    Cb::Handle | Cb::SupEvt => {
                        if !st.post_start_ok {
                            bad("order", format!("uid {uid}: {cb:?} entered before post_start returned Ok (#{})", r.ts));
                        }
                        if st.failed {
                            bad("order", format!("uid {uid}: {cb:?} entered after a callback failed (#{})", r.ts));
                        }
                    }
                    Cb::PostStop => {
                        st.post_stop_enter += 1;
                        st.after_post_stop_enter = true;
                        if st.post_stop_enter > 1 {
                            bad("post_stop-once", format!("uid {uid}: post_stop entered {} times", st.post_stop_enter));
                        }
                        if st.failed || st.cancelled {
                            bad(
                                "post_stop-after-failure",
                                format!("uid {uid}: post_stop ran after failed={} cancelled={}", st.failed, st.cancelled),
                            );
                        }
                        if !st.post_start_ok {
                            bad("order", format!("uid {uid}: post_stop entered but post_start never returned Ok"));
                        }
                    }
                }
            }
            Ev::Exit { uid, cb, how } => {
                let st = m.entry(*uid).or_default();
                if st.active != Some(*cb) {
                    bad("overlap", format!("uid {uid}: exit {cb:?} at #{} but active={:?}", r.ts, st.active));
                }
                st.active = None;
                match (cb, how) {
                    (Cb::PreStart, How::Ok) => st.pre_ok = true,
                    (Cb::PostStart, How::Ok) => st.post_start_ok = true,
                    _ => {}
                }
                match how {
                    How::Err | How::Panic => st.failed = true,
                    How::Cancelled => st.cancelled = true,
                    How::Ok => {}
                }
            }
            _ => {}
        }
    }
    v
}

fn sig_of(recs: &[Rec], subject: u64, picks: &[u64]) -> u64 {
    let mut words = vec![];
    for r in recs {
        match &r.ev {
            Ev::Enter { uid, cb, .. } if *uid == subject => words.push(*cb as u64),
            Ev::Exit { uid, cb, how } if *uid == subject => words.push(100 + (*cb as u64) * 10 + *how as u64),
            _ => {}
        }
    }
    words.extend(picks.iter().map(|k| 1000 + k));
    hash_words(&words)
}

pub async fn scenario_body(seed: u64, trace: Arc<Trace>, threaded: bool, tl: Option<ractor::thread_local::ThreadLocalActorSpawner>) -> (Facts2, Vec<String>) {
    let mut p = Prng::new(seed);
    let mut desc = vec![];
    let mut self_seq = 1_000_000u64;
    let spawner = std_child_spawner();

    // --- specs
    let mut sup_spec = ProbeSpec::new(1, Some(format!("c01-sup-{seed:x}")), trace.clone());
    sup_spec.sup_evt = gen_body(&mut p, false, &mut self_seq);
    let sup_spec = Arc::new(sup_spec);

    let mut subj = ProbeSpec::new(2, Some(format!("c01-subj-{seed:x}")), trace.clone());
    subj.child_spawner = Some(spawner.clone());
    subj.pre_start = gen_body(&mut p, true, &mut self_seq);
    subj.post_start = gen_body(&mut p, true, &mut self_seq);
    subj.post_stop = gen_body(&mut p, true, &mut self_seq);
    subj.sup_evt = gen_body(&mut p, true, &mut self_seq);
    subj.sup_policy = if p.chance(3, 10) { SupPolicy::StopOnChildExit } else { SupPolicy::Ignore };
    // children spawned from subject callbacks; they die by themselves to create supervision traffic
    let nchildren = p.below(3);
    let mut child_uid = 10;
    for _ in 0..nchildren {
        let mut c = ProbeSpec::new(child_uid, Some(format!("c01-child{child_uid}-{seed:x}")), trace.clone());
        child_uid += 1;
        c.pre_start = gen_body(&mut p, false, &mut self_seq);
        c.post_start = gen_body(&mut p, false, &mut self_seq);
        match p.below(4) {
            0 => c.post_start.push(Step::StopSelf),
            1 => c.post_start.push(fail_step(&mut p)),
            2 => {
                c.post_start.push(Step::Sleep(p.range(1, 30)));
                c.post_start.push(Step::StopSelf)
            }
            _ => {}
        }
        c.post_stop = gen_body(&mut p, false, &mut self_seq);
        let c = Arc::new(c);
        match p.below(3) {
            0 => subj.pre_start.push(Step::SpawnChild(c)),
            1 => subj.post_start.push(Step::SpawnChild(c)),
            _ => subj.post_start.insert(0, Step::SpawnChild(c)),
        }
    }
    // failure injection in one subject callback
    let mut subject_fails = false;
    let fail_cb = if p.chance(3, 10) { p.below(5) } else { 99 };
    match fail_cb {
        0 => {
            subj.pre_start.push(fail_step(&mut p));
            subject_fails = true;
        }
        1 => {
            subj.post_start.push(fail_step(&mut p));
            subject_fails = true;
        }
        3 if nchildren > 0 => {
            subj.sup_evt.push(fail_step(&mut p));
        }
        4 => {
            subj.post_stop.push(fail_step(&mut p));
        }
        _ => {}
    }
    let handle_fail_at = if fail_cb == 2 { Some(p.below(6)) } else { None };
    desc.push(format!(
        "subject: pre_start={} post_start={} post_stop={} sup_evt={} steps; children={nchildren}; fail_cb={fail_cb}; policy={:?}",
        subj.pre_start.len(),
        subj.post_start.len(),
        subj.post_stop.len(),
        subj.sup_evt.len(),
        subj.sup_policy
    ));
    let subj = Arc::new(subj);

    let mut facts = Facts2::default();
    let linked = p.chance(1, 2);
    let (sup_ref, sup_h) = match spawn_probe(&sup_spec, None).await {
        Ok(x) => x,
        Err(e) => {
            trace.note(format!("sup spawn failed: {e}"));
            return (facts, desc);
        }
    };
    // thread engine: one scenario in three runs the subject as a thread-local actor (own OS thread + local runtime)
    let use_tl = tl.is_some() && Prng::new(seed ^ 0x71).chance(1, 3);
    if use_tl {
        desc.push("subject is a thread-local actor".into());
    }
    let spawned = if use_tl && Prng::new(seed ^ 0x72).chance(1, 2) {
        // a Send actor driven through the thread-local API (ractor's blanket adapter)
        desc.push("(through the Send->thread-local adapter)".into());
        spawn_adapter_probe(&subj, if linked { Some(sup_ref.get_cell()) } else { None }, tl.clone().unwrap()).await
    } else if use_tl {
        spawn_tl_probe(&subj, if linked { Some(sup_ref.get_cell()) } else { None }, tl.clone().unwrap()).await
    } else {
        spawn_probe(&subj, if linked { Some(sup_ref.get_cell()) } else { None }).await
    };
    let (subj_ref, subj_h) = match spawned {
        Ok(x) => x,
        Err(e) => {
            trace.note(format!("subject spawn failed: {e}"));
            facts.spawn_failed = true;
            sup_ref.stop(None);
            let _ = sup_h.await;
            return (facts, desc);
        }
    };
    let _ = subject_fails;

    // --- concurrent requesters
    let nsenders = p.range(1, 4);
    let mut tasks = vec![];
    let mut total_msgs = 0;
    for s in 0..nsenders {
        let m = p.range(1, 6);
        let mut sp = p.fork();
        let tr = trace.clone();
        let r = subj_ref.clone();
        let fail_at = handle_fail_at;
        let base = total_msgs;
        total_msgs += m;
        let fut = async move {
            for j in 0..m {
                for _ in 0..sp.below(3) {
                    tokio::task::yield_now().await;
                }
                if sp.chance(1, 5) {
                    tokio::time::sleep(std::time::Duration::from_millis(sp.range(1, 15))).await;
                }
                let mut dummy = 2_000_000 + (s as u64) * 1000 + j * 10;
                let mut script = gen_body(&mut sp, true, &mut dummy);
                if fail_at == Some(base + j) {
                    script.push(fail_step(&mut sp));
                }
                if sp.chance(1, 25) {
                    script.push(Step::StopSelf);
                }
                tr.log(Ev::Call { client: s as u32, op: "send", arg: j });
                let res = r.send_message(PMsg::Work(Work::new(&tr, s as u32, j, script)));
                tr.log(Ev::Ret { client: s as u32, op: "send", arg: j, res: res.is_ok() as i64 });
            }
        };
        tasks.push(spawn_task(threaded, &format!("c01-sender{s}"), fut));
    }
    let nterm = p.below(3);
    for t in 0..nterm {
        let mut sp = p.fork();
        let tr = trace.clone();
        let r = subj_ref.clone();
        let kind = sp.below(3);
        let fut = async move {
            for _ in 0..sp.below(8) {
                tokio::task::yield_now().await;
            }
            if sp.chance(1, 2) {
                tokio::time::sleep(std::time::Duration::from_millis(sp.range(1, 40))).await;
            }
            let op = ["stop", "kill", "drain"][kind as usize];
            tr.log(Ev::Call { client: 100 + t as u32, op, arg: 2 });
            match kind {
                0 => r.stop(Some("requested".into())),
                1 => r.kill(),
                _ => {
                    let _ = r.drain();
                }
            }
            tr.log(Ev::Ret { client: 100 + t as u32, op, arg: 2, res: 0 });
        };
        tasks.push(spawn_task(threaded, &format!("c01-term{t}"), fut));
    }
    desc.push(format!("senders={nsenders} msgs={total_msgs} terminators={nterm} linked={linked}"));
    for t in tasks {
        let _ = t.await;
    }
    // final stop (graceful) if still alive
    trace.log(Ev::Call { client: 200, op: "stop", arg: 2 });
    subj_ref.stop(Some("final".into()));
    trace.log(Ev::Ret { client: 200, op: "stop", arg: 2, res: 0 });
    let jr = subj_h.await;
    if let Err(e) = jr {
        trace.online_violation("join", format!("subject join handle returned {e:?}"));
    }
    sup_ref.stop(None);
    let _ = sup_h.await;
    facts.completed = true;
    (facts, desc)
}

#[derive(Default)]
pub struct Facts2 {
    pub spawn_failed: bool,
    pub completed: bool,
}

fn spawn_task<F>(_threaded: bool, name: &str, fut: F) -> tokio::task::JoinHandle<()>
where
    F: std::future::Future<Output = ()> + Send + 'static,
{
    vt::spawn_h(name, fut)
}

/// Evaluate a finished scenario trace.
pub fn evaluate(recs: &[Rec], trace: &Trace, single_thread: bool, picks: &[u64], stuck: bool) -> Outcome {
    let mut kill_ret: HashMap<u64, u64> = HashMap::new();
    let mut stop_ret: HashMap<u64, u64> = HashMap::new();
    let mut graceful_req = false;
    for r in recs {
        if let Ev::Ret { op, arg, .. } = &r.ev {
            if *op == "kill" {
                kill_ret.entry(*arg).or_insert(r.ts);
            }
            if *op == "stop" {
                stop_ret.entry(*arg).or_insert(r.ts);
            }
            if *op == "stop" || *op == "drain" {
                graceful_req = true;
            }
        }
    }
    let mut violations = check_lifecycle(recs, &kill_ret, &stop_ret, single_thread);
    for (c, d) in trace.online_violations.lock().unwrap().iter() {
        violations.push((c.clone(), d.clone(), c.clone()));
    }
    if stuck {
        violations.push(("stuck".into(), "scenario body still pending at the virtual-time horizon".into(), "stuck".into()));
    }
    // graceful exit => post_stop exactly once (subject uid 2)
    let subj = 2u64;
    let mut failed_or_cancelled = false;
    let mut post_start_ok = false;
    let mut post_stop_enters = 0;
    let mut self_kill = false;
    let mut callbacks = 0;
    for r in recs {
        match &r.ev {
            Ev::Enter { uid, cb, .. } if *uid == subj => {
                callbacks += 1;
                if *cb == Cb::PostStop {
                    post_stop_enters += 1;
                }
            }
            Ev::Exit { uid, cb, how } if *uid == subj => {
                if *cb == Cb::PostStart && *how == How::Ok {
                    post_start_ok = true;
                }
                if *how != How::Ok && *cb != Cb::PostStop {
                    failed_or_cancelled = true;
                }
            }
            _ => {}
        }
    }
    let _ = self_kill;
    self_kill = false;
    if post_start_ok && !failed_or_cancelled && !kill_ret.contains_key(&subj) && graceful_req && !self_kill && !stuck && post_stop_enters != 1 {
        violations.push((
            "post_stop-missing".into(),
            format!("subject exited gracefully (stop/drain, no kill, no failure) but post_stop ran {post_stop_enters} times"),
            "post_stop-missing".into(),
        ));
    }
    let requesters = recs.iter().filter(|r| matches!(&r.ev, Ev::Call { .. })).count();
    Outcome {
        nontrivial: callbacks >= 2 && requesters >= 1,
        sig: sig_of(recs, subj, picks),
        violations,
        desc: vec![],
        recs: recs.to_vec(),
    }
}

pub fn run_one_vt(seed: u64) -> Outcome {
    let mut pr = Prng::new(seed ^ 0x77);
    let defer = *pr.pick(&[0u64, 10, 25, 50]);
    let c = crate::ctl::ctl();
    let trace_cell: std::sync::Mutex<Option<Arc<Trace>>> = std::sync::Mutex::new(None);
    let mut desc = vec![];
    let res = vt::run(seed, defer, async {
        c.set_log_points(true);
        let trace = Arc::new(Trace::new());
        *trace_cell.lock().unwrap() = Some(trace.clone());
        let (f, d) = scenario_body(seed, trace.clone(), false, None).await;
        vt::quiesce(5).await;
        (f, d)
    });
    let trace = trace_cell.lock().unwrap().take().expect("trace");
    let stuck = res.is_none();
    if let Some((_, d)) = res {
        desc = d;
    }
    let picks: Vec<u64> = c
        .take_point_log()
        .into_iter()
        .filter(|(id, _, _)| *id == ractor::verif::pt::LOOP_PICKED)
        .map(|(_, _, k)| k)
        .collect();
    let recs = trace.snapshot();
    let mut o = evaluate(&recs, &trace, true, &picks, stuck);
    desc.push(format!("defer_pct={defer}"));
    o.desc = desc;
    for l in vt::global_leaks() {
        o.violations.push(("leak".into(), l, "leak".into()));
    }
    for (loc, msg) in crate::take_foreign_panics() {
        o.violations.push(("foreign-panic".into(), format!("{loc}: {msg}"), format!("foreign-panic {loc}")));
    }
    o
}

/// E-T: the same scenario on a multi-thread runtime (sleeps are real milliseconds) with H1 noise.
pub fn run_one_th(seed: u64, rt: &tokio::runtime::Runtime, tl: &ractor::thread_local::ThreadLocalActorSpawner) -> Outcome {
    let mut pr = Prng::new(seed ^ 0x77);
    let intensity = *pr.pick(&[0u32, 30, 60]);
    crate::th::begin(seed, intensity);
    let trace = Arc::new(Trace::new());
    let (_f, mut desc) = rt.block_on(scenario_body(seed, trace.clone(), true, Some(tl.clone())));
    crate::th::end();
    let recs = trace.snapshot();
    let mut o = evaluate(&recs, &trace, false, &[], false);
    desc.push(format!("th intensity={intensity}"));
    o.desc = desc;
    // children killed by the subject's exit finish asynchronously on other workers: a leak is only
    // reported if it persists (a true leak is permanent, so waiting cannot hide it)
    let _ = crate::th::settle_leaks();
    for l in vt::global_leaks() {
        o.violations.push(("leak".into(), l, "leak".into()));
    }
    for (loc, msg) in crate::take_foreign_panics() {
        o.violations.push(("foreign-panic".into(), format!("{loc}: {msg}"), format!("foreign-panic {loc}")));
    }
    o
}

pub fn run(args: &Args, rep: &mut Report) {
    let seeds: Vec<u64> = match args.replay {
        Some(s) => vec![s],
        None => args.indices().map(|i| args.scenario_seed(i)).collect(),
    };
    let rt = if args.engine == "th" { Some(crate::th::runtime(3)) } else { None };
    let tl = if args.engine == "th" { Some(ractor::thread_local::ThreadLocalActorSpawner::new()) } else { None };
    for seed in seeds {
        crate::watch_begin(seed);
        let o = match &rt {
            Some(rt) => run_one_th(seed, rt, tl.as_ref().unwrap()),
            None => run_one_vt(seed),
        };
        crate::watch_end();
        rep.scenario(o.nontrivial, o.sig);
        rep.count("events_observed", o.recs.len() as u64);
        let enters = o.recs.iter().filter(|r| matches!(r.ev, Ev::Enter { .. })).count() as u64;
        rep.count("callbacks_observed", enters);
        if rep.samples.len() < 3 && o.nontrivial {
            rep.sample(
                J::obj()
                    .set("scenario_seed", format!("{seed}"))
                    .set("desc", o.desc.clone())
                    .set("trace_excerpt", Trace::render(&o.recs, 25)),
            );
        }
        for (clause, detail, sig) in o.violations {
            rep.violation(Violation {
                clause,
                detail,
                scenario_seed: seed,
                scenario: o.desc.join("; "),
                signature: sig,
                trace: Trace::render(&o.recs, 60),
            });
        }
    }
    let hits = crate::ctl::ctl().hit_snapshot();
    rep.count("point_hits_loop_picked", hits[ractor::verif::pt::LOOP_PICKED as usize]);
    let (d, f) = crate::ctl::ctl().sched_stats();
    rep.count("last_scenario_poll_decisions", d);
    rep.count("last_scenario_defers", f);
}
