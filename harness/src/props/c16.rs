//! C16 — output ports fan out in order without duplicates.
//!
//! One publisher publishes 0..N in bursts; subscribers (slow and fast) subscribe and stop at arbitrary
//! stream positions; every subscription has its own converter (filter + map, tagged with the
//! subscription id). Per-subscription oracle over the received sequence. The same module is built
//! against the default (broadcast, v1) port and, in the `alt` build, against the v2 port.
use std::collections::HashMap;
use std::sync::atomic::{AtomicU64, Ordering};
use std::sync::{Arc, Mutex};
use std::time::Duration;

use ractor::{Actor, ActorProcessingErr, ActorRef, OutputPort};

use crate::json::J;
use crate::prng::{hash_words, Prng};
use crate::report::{Report, Violation};
use crate::{th, vt, Args};

#[derive(Clone)]
pub struct SMsg {
    pub sub: u64,
    pub val: u64,
}
#[cfg(feature = "cluster")]
impl ractor::Message for SMsg {}

struct Sub {
    log: Arc<Mutex<Vec<(u64, u64, u64)>>>, // (stamp, sub, val)
    slow_ms: u64,
    /// time spent in pre_start (a subscriber may be subscribed while it is still starting)
    start_ms: u64,
}
#[cfg_attr(feature = "alt", ractor::async_trait)]
impl Actor for Sub {
    type Msg = SMsg;
    type State = ();
    type Arguments = ();
    async fn pre_start(&self, _: ActorRef<SMsg>, _: ()) -> Result<(), ActorProcessingErr> {
        if self.start_ms > 0 {
            tokio::time::sleep(Duration::from_millis(self.start_ms)).await;
        }
        Ok(())
    }
    async fn handle(&self, _me: ActorRef<SMsg>, m: SMsg, _: &mut ()) -> Result<(), ActorProcessingErr> {
        self.log.lock().unwrap().push((crate::trace::stamp(), m.sub, m.val));
        if self.slow_ms > 0 {
            tokio::time::sleep(Duration::from_millis(self.slow_ms)).await;
        }
        Ok(())
    }
}

pub const V2: bool = cfg!(feature = "alt");

fn conv(sub: u64, modulus: u64, x: u64) -> Option<SMsg> {
    if modulus > 0 && x % modulus == sub % modulus {
        None
    } else {
        Some(SMsg { sub, val: x.wrapping_mul(2).wrapping_add(1) })
    }
}

#[derive(Clone, Debug)]
struct SubPlan {
    sub: u64,
    /// published count at which the subscription is made
    at: u64,
    /// published count at which the subscriber actor is stopped (None = lives to the end)
    stop_at: Option<u64>,
    modulus: u64,
    slow_ms: u64,
    /// re-subscribes an actor that is already subscribed (a second, independent subscription)
    reuse_actor_of: Option<u64>,
}

pub struct Outcome {
    pub violations: Vec<(String, String)>,
    pub nontrivial: bool,
    pub sig: u64,
    pub desc: Vec<String>,
    pub published: u64,
    pub received: u64,
    pub sample: Vec<String>,
}

struct SubFacts {
    plan: SubPlan,
    /// published counter just before / just after the subscribe call
    p0: u64,
    p1: u64,
    /// published counter when the stop was requested / when wait() returned
    stop_req: Option<u64>,
    stopped: Option<u64>,
}

fn evaluate(facts: &[SubFacts], log: &[(u64, u64, u64)], bursts: &[(u64, u64)], published: u64, exact_bursts: bool) -> Vec<(String, String)> {
    let mut v = vec![];
    let mut per: HashMap<u64, Vec<u64>> = HashMap::new();
    for (_, s, val) in log {
        per.entry(*s).or_default().push(*val);
    }
    // index -> (burst size, position from the end of its burst)
    let mut burst_of: HashMap<u64, (u64, u64)> = HashMap::new();
    for (start, len) in bursts {
        for i in 0..*len {
            burst_of.insert(start + i, (*len, len - 1 - i));
        }
    }
    for f in facts {
        let sub = f.plan.sub;
        let got = per.get(&sub).cloned().unwrap_or_default();
        // every element is the converter image of a published element, in strictly increasing order
        let mut last: Option<u64> = None;
        for val in &got {
            if val % 2 != 1 {
                v.push(("foreign-value".to_string(), format!("subscription {sub} received {val}, not an image of its converter")));
                continue;
            }
            let x = (val - 1) / 2;
            if x >= published {
                v.push(("foreign-value".to_string(), format!("subscription {sub} received the image of {x} which was never published")));
            }
            if conv(sub, f.plan.modulus, x).is_none() {
                v.push(("filtered-delivered".to_string(), format!("subscription {sub} received {x} although its converter maps it to None")));
            }
            if x < f.p0 {
                v.push(("before-subscribe".to_string(), format!("subscription {sub} received element {x} published before subscribe() was called (published={})", f.p0)));
            }
            if let Some(l) = last {
                if x == l {
                    v.push(("duplicate".to_string(), format!("subscription {sub} received element {x} twice")));
                } else if x < l {
                    v.push(("order".to_string(), format!("subscription {sub} received element {x} after element {l}")));
                }
            }
            last = Some(x);
        }
        // completeness: only for subscribers that live to the end (a stopped subscriber drops whatever is still in its
        // mailbox, C02); stopped ones are still checked for order / duplicates / validity above
        let live_until = if f.stop_req.is_some() { f.p1 } else { published };
        let gotset: std::collections::HashSet<u64> = got.iter().filter(|v| *v % 2 == 1).map(|v| (v - 1) / 2).collect();
        for x in f.p1..live_until {
            if conv(sub, f.plan.modulus, x).is_none() || gotset.contains(&x) {
                continue;
            }
            if V2 {
                v.push(("missing".to_string(), format!("v2 port: subscription {sub} (subscribed at {}, alive until {live_until}) never received element {x}", f.p1)));
            } else if exact_bursts {
                // v1: a miss is only allowed for a subscriber more than the buffer (10) behind: the element must sit more
                // than 10 from the end of a burst the forwarder could not keep up with
                match burst_of.get(&x) {
                    Some((len, from_end)) if *len > 10 && *from_end >= 10 => {}
                    Some((len, from_end)) => v.push((
                        "missing".to_string(),
                        format!("v1 port: subscription {sub} missed element {x} (burst of {len}, {from_end} from its end) although it was never more than 10 behind"),
                    )),
                    None => {}
                }
            }
        }
        // v1 under real threads: a lagging subscriber keeps receiving later elements: the last element arrives
        if !V2 && !exact_bursts && f.stop_req.is_none() && published > f.p1 {
            let lastx = published - 1;
            if conv(sub, f.plan.modulus, lastx).is_some() && !gotset.contains(&lastx) {
                v.push(("missing-final".to_string(), format!("v1 port: live subscription {sub} never received the final element {lastx}")));
            }
        }
        // after the subscriber's wait() returned nothing more may be logged for it — covered by the actor itself (C02)
        let _ = f.stopped;
    }
    v
}

fn plan(p: &mut Prng, n: u64) -> Vec<SubPlan> {
    let k = p.range(1, 6);
    let mut v: Vec<SubPlan> = vec![];
    for sub in 0..k {
        let at = p.below(n);
        let stop_at = if p.chance(1, 3) { Some(at + p.below(n - at + 1)) } else { None };
        let reuse = if sub > 0 && p.chance(1, 6) { Some(p.below(sub)) } else { None };
        v.push(SubPlan { sub, at, stop_at, modulus: *p.pick(&[0u64, 0, 2, 3, 5]), slow_ms: if p.chance(1, 3) { p.range(1, 5) } else { 0 }, reuse_actor_of: reuse });
    }
    v
}

async fn body(seed: u64, threaded: bool) -> Outcome {
    let mut p = Prng::new(seed);
    let long = p.chance(1, 5);
    let n = p.range(10, if long { 600 } else { 120 });
    let plans = plan(&mut p, n);
    let log: Arc<Mutex<Vec<(u64, u64, u64)>>> = Arc::new(Mutex::new(vec![]));
    let port: Arc<OutputPort<u64>> = Arc::new(OutputPort::default());
    let published = Arc::new(AtomicU64::new(0));
    let mut actors: HashMap<u64, (ActorRef<SMsg>, Option<tokio::task::JoinHandle<()>>)> = HashMap::new();
    let mut facts: Vec<SubFacts> = vec![];
    let mut bursts: Vec<(u64, u64)> = vec![];
    let mut v = vec![];
    let mut i = 0u64;
    while i <= n {
        // subscriptions / stops scheduled at this stream position (performed by the publisher task itself, so the
        // position is exact)
        for pl in plans.iter().filter(|pl| pl.at == i) {
            let actor = match pl.reuse_actor_of.and_then(|r| actors.get(&r).map(|a| a.0.clone())) {
                Some(a) => a,
                None => {
                    if pl.sub % 4 == 3 {
                        // subscribed while still starting: the reference exists at once, pre_start takes a while
                        let start_ms = 1 + (pl.sub * 7 + pl.at) % 25;
                        let (a, outer) = ractor::ActorRuntime::<Sub>::spawn_instant(None, Sub { log: log.clone(), slow_ms: pl.slow_ms, start_ms }, ()).expect("sub");
                        let h = tokio::spawn(async move {
                            if let Ok(Ok(inner)) = outer.await {
                                let _ = inner.await;
                            }
                        });
                        actors.insert(pl.sub, (a.clone(), Some(h)));
                        a
                    } else {
                        let (a, h) = Actor::spawn(None, Sub { log: log.clone(), slow_ms: pl.slow_ms, start_ms: 0 }, ()).await.expect("sub");
                        actors.insert(pl.sub, (a.clone(), Some(h)));
                        a
                    }
                }
            };
            let (sub, modulus) = (pl.sub, pl.modulus);
            let p0 = published.load(Ordering::SeqCst);
            // re-subscribing an actor that has already stopped is legal and simply yields nothing
            let dead = actor.get_status() > ractor::ActorStatus::Running;
            port.subscribe(actor, move |x: u64| conv(sub, modulus, x));
            let p1 = published.load(Ordering::SeqCst);
            facts.push(SubFacts { plan: pl.clone(), p0, p1, stop_req: if dead { Some(p0) } else { None }, stopped: None });
            if V2 && !threaded {
                // the v2 port applies a subscription when its dispatcher task processes it: let it run, so that
                // "after subscribe returned" also means "after it took effect" for the completeness clause
                vt::settle().await;
            }
        }
        for pl in plans.iter().filter(|pl| pl.stop_at == Some(i) && pl.reuse_actor_of.is_none()) {
            if let Some((a, h)) = actors.get_mut(&pl.sub) {
                let pr = published.load(Ordering::SeqCst);
                a.stop(None);
                if let Some(h) = h.take() {
                    let _ = h.await;
                }
                let ps = published.load(Ordering::SeqCst);
                for f in facts.iter_mut().filter(|f| f.plan.sub == pl.sub || f.plan.reuse_actor_of == Some(pl.sub)) {
                    f.stop_req = Some(pr);
                    f.stopped = Some(ps);
                }
            }
        }
        if i == n {
            break;
        }
        // a burst: sends without any await in between, ending at the next scheduled subscribe/stop position
        let mut b = p.range(1, 25).min(n - i);
        for pl in &plans {
            for pos in [Some(pl.at), pl.stop_at].into_iter().flatten() {
                if pos > i && pos < i + b {
                    b = pos - i;
                }
            }
        }
        let t0 = std::time::Instant::now();
        for j in 0..b {
            port.send(i + j);
            published.store(i + j + 1, Ordering::SeqCst);
        }
        if t0.elapsed() > Duration::from_secs(5) {
            v.push(("publisher-blocked".to_string(), "OutputPort::send blocked the publisher".to_string()));
        }
        bursts.push((i, b));
        i += b;
        if threaded {
            tokio::time::sleep(Duration::from_micros(p.range(0, 300))).await;
        } else if V2 && p.chance(1, 3) {
            // v2 only (no lag rule to apply): do not let the dispatcher run between this burst and whatever is scheduled at the
            // next position, so that a subscribe / stop lands in the same dispatcher batch as the sends before it
        } else {
            // let every forwarder catch up (system idle) so that the v1 lag rule can be applied burst by burst
            vt::settle().await;
        }
    }
    if threaded {
        // wait until the (possibly slow) subscribers have worked through their mailboxes: log stable for 30 ms
        // (ten identical samples 30 ms apart: one quiet sample was not enough on a loaded machine)
        let mut last = usize::MAX;
        let mut same = 0;
        for _ in 0..2000 {
            tokio::time::sleep(Duration::from_millis(30)).await;
            let l = log.lock().unwrap().len();
            if l == last {
                same += 1;
                if same >= 10 {
                    break;
                }
            } else {
                same = 0;
            }
            last = l;
        }
    } else {
        // virtual time is free: long enough for the slowest actor (5 ms per message) carrying several subscriptions
        tokio::time::sleep(Duration::from_millis(n * 60 + 5000)).await;
    }
    let lg = log.lock().unwrap().clone();
    v.extend(evaluate(&facts, &lg, &bursts, n, !threaded));
    let received = lg.len() as u64;
    for (_, (a, h)) in actors.iter_mut() {
        a.stop(None);
        if let Some(h) = h.take() {
            let _ = h.await;
        }
    }
    drop(port);
    if !threaded {
        vt::quiesce(1).await;
    }
    let nsubs = facts.len() as u64;
    let stops = facts.iter().filter(|f| f.stop_req.is_some()).count() as u64;
    let sample = vec![format!("plans={plans:?}"), format!("first bursts={:?}", &bursts[..bursts.len().min(6)])];
    Outcome {
        violations: v,
        nontrivial: nsubs >= 1 && received > 0 && (nsubs >= 2 || stops > 0),
        sig: hash_words(&[n, nsubs, stops, received, V2 as u64]),
        desc: vec![format!("{} port n={n} subs={nsubs} stops={stops} threaded={threaded}", if V2 { "v2" } else { "v1" })],
        published: n,
        received,
        sample,
    }
}

pub fn run_one_vt(seed: u64) -> Outcome {
    let mut pr = Prng::new(seed ^ 0x16);
    let defer = *pr.pick(&[0u64, 25]);
    let cell: Mutex<Option<Outcome>> = Mutex::new(None);
    let r = vt::run(seed, defer, async {
        let o = body(seed, false).await;
        *cell.lock().unwrap() = Some(o);
    });
    let got = cell.lock().unwrap().take();
    let mut o = got.unwrap_or(Outcome { violations: vec![], nontrivial: false, sig: 0, desc: vec![], published: 0, received: 0, sample: vec![] });
    if r.is_none() {
        o.violations.push(("stuck".to_string(), "scenario pending at the virtual-time horizon".to_string()));
    }
    for l in vt::global_leaks() {
        o.violations.push(("leak".into(), l));
    }
    for (loc, msg) in crate::take_foreign_panics() {
        o.violations.push(("foreign-panic".into(), format!("{loc}: {msg}")));
    }
    o
}

/// E-T "steady" scenario: one fast subscriber is there from the start and the publisher paces itself on it (never more than
/// 6 + 4 elements ahead, so a v1 forwarder cannot lag), while another OS thread keeps subscribing and stopping further
/// actors on the same port. The steady subscriber must receive every element exactly once, in order.
pub fn run_steady_th(seed: u64, rt: &tokio::runtime::Runtime) -> Outcome {
    th::begin(seed, 20);
    let mut p = Prng::new(seed ^ 0x57);
    let n = p.range(200, 1200);
    let log: Arc<Mutex<Vec<(u64, u64, u64)>>> = Arc::new(Mutex::new(vec![]));
    let _rt_ctx = rt.enter(); // creating the port (v2), subscribe() and send() spawn / wake tasks: they need a runtime context
    let port: Arc<OutputPort<u64>> = Arc::new(OutputPort::default());
    let mut v: Vec<(String, String)> = vec![];
    let (steady, steady_h) = rt.block_on(Actor::spawn(None, Sub { log: log.clone(), slow_ms: 0, start_ms: 0 }, ())).expect("steady");
    port.subscribe(steady.clone(), move |x: u64| conv(0, 0, x));
    if V2 {
        std::thread::sleep(Duration::from_millis(5)); // the v2 dispatcher applies the subscription asynchronously
    }
    let stop_flag = Arc::new(std::sync::atomic::AtomicBool::new(false));
    let churn = {
        let (port, log, stop_flag, handle, mut sp) = (port.clone(), log.clone(), stop_flag.clone(), rt.handle().clone(), p.fork());
        std::thread::spawn(move || {
            let _ctx = handle.enter();
            let mut made = 0u64;
            let mut live = vec![];
            while !stop_flag.load(Ordering::SeqCst) {
                let sub = 100 + made;
                let (a, h) = handle.block_on(Actor::spawn(None, Sub { log: log.clone(), slow_ms: 0, start_ms: 0 }, ())).expect("sub");
                let modulus = *sp.pick(&[0u64, 2, 3]);
                port.subscribe(a.clone(), move |x: u64| conv(sub, modulus, x));
                made += 1;
                live.push((a, h));
                if live.len() > 3 || sp.chance(1, 3) {
                    let (a, h) = live.remove(0);
                    a.stop(None);
                    let _ = handle.block_on(h);
                }
                for _ in 0..sp.below(2000) {
                    std::hint::spin_loop();
                }
            }
            for (a, h) in live {
                a.stop(None);
                let _ = handle.block_on(h);
            }
            made
        })
    };
    let mut paced = true;
    let mut i = 0u64;
    while i < n {
        let b = p.range(1, 6).min(n - i);
        for j in 0..b {
            port.send(i + j);
        }
        i += b;
        // pace on the steady subscriber
        let t0 = std::time::Instant::now();
        loop {
            let got = log.lock().unwrap().iter().filter(|e| e.1 == 0).count() as u64;
            if got + 4 >= i {
                break;
            }
            if t0.elapsed() > Duration::from_secs(10) {
                paced = false;
                break;
            }
            std::thread::yield_now();
        }
        if !paced {
            break;
        }
    }
    stop_flag.store(true, Ordering::SeqCst);
    let churned = churn.join().unwrap_or(0);
    // No deadline for the tail: *sentinel* elements (>= n) are published until the steady subscriber logs one. Delivery per
    // subscription is in order, so once a sentinel is there everything published before it that will ever arrive has arrived.
    // (A fixed 20 ms wait here once read the log too early on a loaded machine: 776 of 779 elements, a false alarm.)
    let mut sentinel_seen = false;
    let mut k = 0u64;
    let t_wait = std::time::Instant::now();
    while t_wait.elapsed() < Duration::from_secs(60) {
        port.send(n + k);
        k += 1;
        for _ in 0..40 {
            if log.lock().unwrap().iter().any(|e| e.1 == 0 && (e.2 - 1) / 2 >= n) {
                sentinel_seen = true;
                break;
            }
            std::thread::sleep(Duration::from_micros(500));
        }
        if sentinel_seen {
            break;
        }
    }
    let published = i; // == n unless the pacing wait gave up
    let got: Vec<u64> = log.lock().unwrap().iter().filter(|e| e.1 == 0).map(|e| (e.2 - 1) / 2).filter(|x| *x < n).collect();
    let mut inconclusive = false;
    if sentinel_seen {
        // in-order delivery: whatever of 0..published is not there now was lost
        let want: Vec<u64> = (0..published).collect();
        if got != want {
            let first_bad = got.iter().zip(want.iter()).position(|(a, b)| a != b).unwrap_or(got.len().min(want.len()));
            v.push(("missing".to_string(), format!("{} port: the steady subscriber (paced={paced}, alive throughout) received {} of {published} elements although a later sentinel element arrived; first deviation at position {first_bad}: got {:?}, while {churned} other subscriptions were made and dropped concurrently", if V2 { "v2" } else { "v1" }, got.len(), got.get(first_bad))));
        }
    } else {
        // nothing arrived for 60 s of repeated sentinels: a stalled machine cannot be told from a dead port here
        inconclusive = true;
    }
    steady.stop(None);
    let _ = rt.block_on(steady_h);
    th::end();
    let _ = th::settle_leaks();
    for l in vt::global_leaks() {
        v.push(("leak".into(), l));
    }
    for (loc, msg) in crate::take_foreign_panics() {
        v.push(("foreign-panic".into(), format!("{loc}: {msg}")));
    }
    Outcome { violations: v, nontrivial: churned > 0 && !inconclusive, sig: hash_words(&[0x57, n, churned]), desc: vec![format!("steady subscriber, {n} elements paced, {churned} concurrent subscriptions")], published: n, received: got.len() as u64, sample: vec![] }
}

pub fn run_one_th(seed: u64, rt: &tokio::runtime::Runtime) -> Outcome {
    th::begin(seed, 20);
    let mut o = rt.block_on(body(seed, true));
    th::end();
    let _ = th::settle_leaks();
    for l in vt::global_leaks() {
        o.violations.push(("leak".into(), l));
    }
    for (loc, msg) in crate::take_foreign_panics() {
        o.violations.push(("foreign-panic".into(), format!("{loc}: {msg}")));
    }
    o
}

pub fn run(args: &Args, rep: &mut Report) {
    let seeds: Vec<u64> = match args.replay {
        Some(s) => vec![s],
        None => args.indices().map(|i| args.scenario_seed(i)).collect(),
    };
    let rt = if args.engine == "th" { Some(th::runtime(3)) } else { None };
    for seed in seeds {
        crate::watch_begin(seed);
        let o = match &rt {
            Some(rt) if seed % 4 == 0 => run_steady_th(seed, rt),
            Some(rt) => run_one_th(seed, rt),
            None => run_one_vt(seed),
        };
        crate::watch_end();
        rep.scenario(o.nontrivial, o.sig);
        rep.count("elements_published", o.published);
        rep.count("deliveries_observed", o.received);
        if o.nontrivial && rep.samples.len() < 3 {
            rep.sample(J::obj().set("scenario_seed", format!("{seed}")).set("desc", o.desc.clone()).set("plan", o.sample.clone()));
        }
        for (clause, detail) in o.violations {
            rep.violation(Violation { signature: clause.clone(), clause, detail, scenario_seed: seed, scenario: o.desc.join("; "), trace: o.sample.clone() });
        }
    }
}
