//! Shared factory scenario runner for C13 / C14 / C15 (virtual-time engine).
//!
//! The worker is a raw actor that mirrors the 15-line `impl<T: Worker> Actor for T` glue (so that the
//! harness knows each incarnation's cell and can make a worker die right after it reported completion).
use std::collections::HashMap;
use std::sync::{Arc, Mutex};
use std::time::Duration;

use ractor::factory::queues::{DefaultQueue, Priority, PriorityManager, PriorityQueue, Queue, StandardPriority};
use ractor::factory::routing::{CustomHashFunction, CustomRouting, KeyPersistentRouting, QueuerRouting, RoundRobinRouting, Router, StickyQueuerRouting};
use ractor::factory::*;
use ractor::{Actor, ActorCell, ActorProcessingErr, ActorRef, ActorStatus};
use tokio::time::Instant;

use crate::prng::Prng;
use crate::probe::PANIC_MARK;
use crate::vt;

pub type K = u64;

#[derive(Clone, Copy, Debug, PartialEq, Eq)]
pub enum JBeh {
    Ok,
    Panic,
    Err,
    /// report completion, then die before the factory can handle the report
    KillAfterReport,
    /// finish the job, report, then stop gracefully with a slow post_stop (the worker is Stopping, not yet replaced, for a while)
    StopSelfAfter,
}

#[derive(Debug)]
pub struct FJob {
    pub id: u64,
    pub dur: u64,
    pub beh: JBeh,
}
#[cfg(feature = "cluster")]
impl ractor::Message for FJob {}

#[derive(Clone, Debug, PartialEq)]
pub enum FEv {
    Dispatch { id: u64, key: K, sent: bool, ttl: Option<u64> },
    Accept { id: u64, accepted: bool },
    Start { id: u64, key: K, wid: usize, inc: u64 },
    End { id: u64, wid: usize, inc: u64 },
    /// `handler`: which installed discard handler was told (1 = the initial one, 2 = the one installed by SetHandler)
    Discard { id: u64, reason: String, handler: u8 },
    WorkerUp { wid: usize, inc: u64 },
    /// the worker actor's state was dropped (it exited, for whatever reason)
    WorkerGone { wid: usize, inc: u64, inflight: Option<u64>, reported_inflight: bool },
    Hook(&'static str),
    Barrier { depth: usize, active: usize, capacity: usize, live_children: usize, expect_pool: usize },
    Op(String),
    FactoryExit,
}

#[derive(Default)]
pub struct FShared {
    pub evs: Mutex<Vec<(u64, u64, FEv)>>, // (stamp, virtual ms, event)
    pub builds: Mutex<HashMap<usize, u64>>,
    pub workers: Mutex<HashMap<(usize, u64), ActorCell>>,
    pub t0: Mutex<Option<Instant>>,
}

impl FShared {
    pub fn log(&self, ev: FEv) {
        let ms = self.t0.lock().unwrap().map(|t| Instant::now().duration_since(t).as_millis() as u64).unwrap_or(0);
        let mut g = self.evs.lock().unwrap();
        let ts = crate::trace::stamp();
        g.push((ts, ms, ev));
    }
}

pub struct RawWorker {
    pub sh: Arc<FShared>,
    pub wid: usize,
    pub inc: u64,
}

pub struct RawState {
    factory: ActorRef<FactoryMessage<K, FJob>>,
    sh: Arc<FShared>,
    wid: usize,
    inc: u64,
    inflight: Option<u64>,
    reported: bool,
    retiring: bool,
}
impl Drop for RawState {
    fn drop(&mut self) {
        self.sh.log(FEv::WorkerGone { wid: self.wid, inc: self.inc, inflight: self.inflight, reported_inflight: self.reported });
    }
}

#[cfg_attr(feature = "alt", ractor::async_trait)]
impl Actor for RawWorker {
    type Msg = WorkerMessage<K, FJob>;
    type State = RawState;
    type Arguments = WorkerStartContext<K, FJob, ()>;

    async fn pre_start(&self, myself: ActorRef<Self::Msg>, ctx: Self::Arguments) -> Result<RawState, ActorProcessingErr> {
        self.sh.workers.lock().unwrap().insert((self.wid, self.inc), myself.get_cell());
        self.sh.log(FEv::WorkerUp { wid: self.wid, inc: self.inc });
        Ok(RawState { factory: ctx.factory, sh: self.sh.clone(), wid: ctx.wid, inc: self.inc, inflight: None, reported: false, retiring: false })
    }

    async fn post_stop(&self, _: ActorRef<Self::Msg>, st: &mut RawState) -> Result<(), ActorProcessingErr> {
        if st.retiring {
            tokio::time::sleep(Duration::from_millis(12)).await;
        }
        Ok(())
    }

    async fn handle(&self, myself: ActorRef<Self::Msg>, msg: Self::Msg, st: &mut RawState) -> Result<(), ActorProcessingErr> {
        match msg {
            WorkerMessage::FactoryPing(time) => {
                st.factory.cast(FactoryMessage::WorkerPong(st.wid, time.elapsed()))?;
            }
            WorkerMessage::Dispatch(job) => {
                let (id, key, dur, beh) = (job.msg.id, job.key, job.msg.dur, job.msg.beh);
                st.inflight = Some(id);
                st.reported = false;
                self.sh.log(FEv::Start { id, key, wid: st.wid, inc: st.inc });
                if dur > 0 {
                    tokio::time::sleep(Duration::from_millis(dur)).await;
                } else {
                    tokio::task::yield_now().await;
                }
                match beh {
                    JBeh::Panic => panic!("{PANIC_MARK} worker panic job {id}"),
                    JBeh::Err => return Err(format!("{PANIC_MARK} worker err job {id}").into()),
                    _ => {}
                }
                self.sh.log(FEv::End { id, wid: st.wid, inc: st.inc });
                st.reported = true;
                st.factory.cast(FactoryMessage::Finished(st.wid, key))?;
                if beh == JBeh::StopSelfAfter {
                    st.inflight = None;
                    st.retiring = true;
                    myself.stop(Some("worker retires".into()));
                    return Ok(());
                }
                if beh == JBeh::KillAfterReport {
                    myself.kill();
                    // stay inside the handler so that the kill lands here
                    tokio::time::sleep(Duration::from_millis(1)).await;
                }
                st.inflight = None;
            }
        }
        Ok(())
    }
}

pub struct DiscardLog(pub Arc<FShared>, pub u8);
impl DiscardHandler<K, FJob> for DiscardLog {
    fn discard(&self, reason: DiscardReason, job: &mut Job<K, FJob>) {
        self.0.log(FEv::Discard { id: job.msg.id, reason: format!("{reason:?}"), handler: self.1 });
    }
}

pub struct Hooks(pub Arc<FShared>);
#[cfg_attr(feature = "alt", ractor::async_trait)]
impl FactoryLifecycleHooks<K, FJob> for Hooks {
    #[cfg(not(feature = "alt"))]
    fn on_factory_started(&self, _f: ActorRef<FactoryMessage<K, FJob>>) -> futures::future::BoxFuture<'_, Result<(), ActorProcessingErr>> {
        self.0.log(FEv::Hook("started"));
        Box::pin(async { Ok(()) })
    }
    #[cfg(not(feature = "alt"))]
    fn on_factory_stopped(&self) -> futures::future::BoxFuture<'_, Result<(), ActorProcessingErr>> {
        self.0.log(FEv::Hook("stopped"));
        Box::pin(async { Ok(()) })
    }
    #[cfg(not(feature = "alt"))]
    fn on_factory_draining(&self, _f: ActorRef<FactoryMessage<K, FJob>>) -> futures::future::BoxFuture<'_, Result<(), ActorProcessingErr>> {
        self.0.log(FEv::Hook("draining"));
        Box::pin(async { Ok(()) })
    }
    #[cfg(feature = "alt")]
    async fn on_factory_started(&self, _f: ActorRef<FactoryMessage<K, FJob>>) -> Result<(), ActorProcessingErr> {
        self.0.log(FEv::Hook("started"));
        Ok(())
    }
    #[cfg(feature = "alt")]
    async fn on_factory_stopped(&self) -> Result<(), ActorProcessingErr> {
        self.0.log(FEv::Hook("stopped"));
        Ok(())
    }
    #[cfg(feature = "alt")]
    async fn on_factory_draining(&self, _f: ActorRef<FactoryMessage<K, FJob>>) -> Result<(), ActorProcessingErr> {
        self.0.log(FEv::Hook("draining"));
        Ok(())
    }
}

pub struct HashFn(pub u8);
impl CustomHashFunction<K> for HashFn {
    fn hash(&self, key: &K, worker_count: usize) -> usize {
        match self.0 {
            0 => 0,
            1 => 1,
            2 => usize::MAX,
            3 => (*key as usize).wrapping_mul(2654435761),
            4 => worker_count,          // one past the end
            _ => worker_count.wrapping_mul(3).wrapping_add(*key as usize),
        }
    }
}

pub struct Prio;
impl PriorityManager<K, StandardPriority> for Prio {
    fn is_discardable(&self, job: &K) -> bool {
        *job != 0
    }
    fn get_priority(&self, job: &K) -> Option<StandardPriority> {
        Some(StandardPriority::from((*job % 5) as usize))
    }
}

#[derive(Clone, Copy, Debug, PartialEq, Eq)]
pub enum RouterKind {
    KeyPersistent,
    Queuer,
    Sticky,
    RoundRobin,
    Custom(u8),
}
impl RouterKind {
    pub fn factory_queued(&self) -> bool {
        matches!(self, RouterKind::Queuer | RouterKind::Sticky)
    }
}

#[derive(Clone, Debug)]
pub enum Op {
    Dispatch { key: K, dur: u64, beh: JBeh, ttl: Option<u64>, with_port: bool },
    KillWorker(usize),
    Resize(usize),
    SetDiscard(Option<(usize, bool)>), // (limit, newest?)
    /// UpdateSettings carrying *only* a new discard handler (id 2)
    SetHandler,
    Barrier,
    Drain,
}

#[derive(Clone, Debug)]
pub struct Cfg {
    pub router: RouterKind,
    pub priority_queue: bool,
    pub discard: Option<(usize, bool)>,
    pub rate: Option<(usize, u64, usize, usize)>, // refill, interval ms, max, initial
    pub dead_man: Option<u64>,
    pub pool: usize,
    pub ops: Vec<(u64, Op)>, // (gap ms before the op, op)
    pub end_with_drain: bool,
}

pub struct FOutcome {
    pub evs: Vec<(u64, u64, FEv)>,
    pub stuck: bool,
    pub factory_final: Option<ActorStatus>,
    pub cfg: Cfg,
    pub foreign_panics: Vec<(String, String)>,
    pub leaks: Vec<String>,
}

/// A scenario generator shared by the three factory properties; `focus` tilts the distribution.
pub fn gen_cfg(seed: u64, focus: u8) -> Cfg {
    let mut p = Prng::new(seed);
    let router = match p.below(9) {
        0..=1 => RouterKind::KeyPersistent,
        2..=3 => RouterKind::Queuer,
        4..=5 => RouterKind::Sticky,
        6 => RouterKind::RoundRobin,
        _ => RouterKind::Custom(p.below(6) as u8),
    };
    let discard = if p.chance(1, 2) { Some((p.below(4) as usize, p.chance(1, 2))) } else { None };
    let rate = if p.chance(1, 4) {
        Some((p.range(0, 3) as usize, *p.pick(&[1u64, 5, 20]), p.range(1, 4) as usize, p.range(0, 4) as usize))
    } else {
        None
    };
    let pool = if p.chance(1, 10) { 0 } else { p.range(1, 4) as usize };
    let nkeys = p.range(1, 6);
    let n = p.range(10, if focus == 15 { 40 } else { 80 });
    let mut ops = vec![];
    let fail_ok = p.chance(1, 2);
    for i in 0..n {
        let gap = *p.pick(&[0u64, 0, 0, 1, 2, 5, 10]);
        let op = match p.below(24) {
            0..=15 => {
                let beh = if fail_ok {
                    match p.below(20) {
                        0 => JBeh::Panic,
                        1 => JBeh::Err,
                        2 => JBeh::KillAfterReport,
                        _ => JBeh::Ok,
                    }
                } else {
                    JBeh::Ok
                };
                Op::Dispatch {
                    key: p.below(nkeys),
                    dur: *p.pick(&[0u64, 1, 5, 10, 50]),
                    beh,
                    ttl: if p.chance(1, 8) { Some(*p.pick(&[1u64, 5, 20])) } else { None },
                    with_port: p.chance(1, 2),
                }
            }
            16..=17 if fail_ok => Op::KillWorker(p.below(5) as usize),
            18..=19 => Op::Resize(p.below(5) as usize),
            20 => Op::SetDiscard(if p.chance(1, 3) { None } else { Some((p.below(4) as usize, p.chance(1, 2))) }),
            _ => Op::Barrier,
        };
        ops.push((gap, op));
        if i == n / 2 && p.chance(1, 6) {
            ops.push((1, Op::Drain));
        }
    }
    Cfg { router, priority_queue: p.chance(1, 4), discard, rate, dead_man: if p.chance(1, 8) { Some(30) } else { None }, pool, ops, end_with_drain: p.chance(1, 2) }
}

/// Targeted generator for the runtime-settings and retiring-worker paths: a worker-queued router (or any), a small pool of busy
/// workers, a settings change (discard kind / limit / mode, or only the handler) in the middle, bursts of dispatches behind
/// busy workers, workers that retire by themselves with a slow post_stop while same-key jobs keep coming, and resizes.
pub fn gen_cfg_settings(seed: u64) -> Cfg {
    let mut p = Prng::new(seed ^ 0x5e77);
    let router = *p.pick(&[RouterKind::KeyPersistent, RouterKind::KeyPersistent, RouterKind::RoundRobin, RouterKind::Custom(3), RouterKind::Sticky, RouterKind::Queuer]);
    let nkeys = p.range(1, 3);
    let pool = p.range(1, 3) as usize;
    let discard = match p.below(3) {
        0 => None,
        1 => Some((p.range(4, 8) as usize, p.chance(1, 2))),
        _ => Some((p.range(0, 2) as usize, p.chance(1, 2))),
    };
    let retire = p.chance(1, 2);
    let mut ops = vec![];
    let disp = |p: &mut Prng, retire: bool| Op::Dispatch {
        key: p.below(nkeys),
        dur: *p.pick(&[5u64, 20, 50]),
        beh: if retire && p.chance(1, 6) { JBeh::StopSelfAfter } else { JBeh::Ok },
        ttl: None,
        with_port: p.chance(1, 2),
    };
    for _ in 0..p.range(2, 6) {
        ops.push((0, disp(&mut p, retire)));
    }
    ops.push((0, Op::Barrier));
    match p.below(3) {
        0 => ops.push((1, Op::SetHandler)),
        1 => ops.push((1, Op::SetDiscard(Some((p.range(0, 2) as usize, p.chance(1, 2)))))),
        _ => {
            ops.push((1, Op::SetDiscard(Some((p.range(0, 2) as usize, p.chance(1, 2))))));
            ops.push((0, Op::SetHandler));
        }
    }
    ops.push((0, Op::Barrier));
    for _ in 0..p.range(8, 30) {
        ops.push((*p.pick(&[0u64, 0, 0, 1, 3]), disp(&mut p, retire)));
        if p.chance(1, 10) {
            ops.push((0, Op::Resize(p.range(1, 4) as usize)));
        }
        if p.chance(1, 8) {
            ops.push((0, Op::Barrier));
        }
    }
    ops.push((0, Op::Barrier));
    Cfg { router, priority_queue: false, discard, rate: None, dead_man: None, pool, ops, end_with_drain: p.chance(1, 2) }
}

/// Targeted generator for sticky routing across a pool growth: one or two busy workers, a backlog of a few jobs over two or three
/// keys (the key in progress first), a growth by two or more, then quiet barriers while the long jobs are still running.
pub fn gen_cfg_sticky_grow(seed: u64) -> Cfg {
    let mut p = Prng::new(seed ^ 0x571c);
    let nkeys = 3u64;
    let pool = p.range(1, 2) as usize;
    let mut ops = vec![];
    let long = |p: &mut Prng, key: K| Op::Dispatch { key, dur: *p.pick(&[50u64, 50, 20]), beh: JBeh::Ok, ttl: None, with_port: p.chance(1, 2) };
    // the existing workers are busy with key 2 (or keys 2 and 0); the backlog starts with a run of one key nobody holds yet
    for w in 0..pool as u64 {
        let k = if w == 0 { 2 } else { *p.pick(&[2u64, 0]) };
        ops.push((0, long(&mut p, k)));
    }
    let first = *p.pick(&[0u64, 1]);
    for _ in 0..p.range(2, 3) {
        ops.push((0, long(&mut p, first)));
    }
    for _ in 0..p.range(1, 3) {
        let k = p.below(nkeys);
        ops.push((0, long(&mut p, k)));
    }
    ops.push((*p.pick(&[0u64, 1]), Op::Resize(pool + p.range(2, 3) as usize)));
    ops.push((2, Op::Barrier));
    ops.push((3, Op::Barrier));
    for _ in 0..p.range(0, 6) {
        let k = p.below(nkeys);
        ops.push((*p.pick(&[0u64, 1, 5]), long(&mut p, k)));
        if p.chance(1, 3) {
            ops.push((1, Op::Barrier));
        }
    }
    Cfg { router: RouterKind::Sticky, priority_queue: false, discard: None, rate: None, dead_man: None, pool, ops, end_with_drain: p.chance(1, 2) }
}

/// Targeted generator: few keys, long jobs, workers that die right after reporting completion while same-key work is
/// queued behind them (the window in which a stale completion report can be matched against the replacement's job).
pub fn gen_cfg_stale_report(seed: u64) -> Cfg {
    let mut p = Prng::new(seed ^ 0xF2);
    let router = *p.pick(&[RouterKind::Sticky, RouterKind::Sticky, RouterKind::Queuer, RouterKind::KeyPersistent]);
    let nkeys = p.range(1, 2);
    let n = p.range(12, 40);
    let mut ops = vec![];
    for _ in 0..n {
        let gap = *p.pick(&[0u64, 0, 1, 5]);
        let op = match p.below(12) {
            0..=8 => Op::Dispatch {
                key: p.below(nkeys),
                dur: *p.pick(&[5u64, 10, 20, 50]),
                beh: if p.chance(1, 5) { JBeh::KillAfterReport } else { JBeh::Ok },
                ttl: None,
                with_port: p.chance(1, 2),
            },
            _ => Op::Barrier,
        };
        ops.push((gap, op));
    }
    Cfg { router, priority_queue: false, discard: None, rate: None, dead_man: None, pool: p.range(2, 3) as usize, ops, end_with_drain: p.chance(1, 2) }
}

fn discard_settings(d: Option<(usize, bool)>) -> DiscardSettings {
    match d {
        None => DiscardSettings::None,
        Some((limit, newest)) => DiscardSettings::Static { limit, mode: if newest { DiscardMode::Newest } else { DiscardMode::Oldest } },
    }
}

async fn drive<R: Router<K, FJob>, Q: Queue<K, FJob>>(cfg: Cfg, router: R, queue: Q, sh: Arc<FShared>, tag: String) -> Option<ActorStatus> {
    *sh.t0.lock().unwrap() = Some(Instant::now());
    let sh2 = sh.clone();
    let builder = worker_builder(move |wid| {
        let inc = {
            let mut b = sh2.builds.lock().unwrap();
            let e = b.entry(wid).or_insert(0);
            *e += 1;
            *e
        };
        (RawWorker { sh: sh2.clone(), wid, inc }, ())
    });
    let args = FactoryArguments::builder()
        .worker_builder(Box::new(builder))
        .num_initial_workers(cfg.pool)
        .router(router)
        .queue(queue)
        .discard_handler(Arc::new(DiscardLog(sh.clone(), 1)) as Arc<dyn DiscardHandler<K, FJob>>)
        .discard_settings(discard_settings(cfg.discard))
        .lifecycle_hooks(Box::new(Hooks(sh.clone())) as Box<dyn FactoryLifecycleHooks<K, FJob>>);
    let args = match cfg.dead_man {
        Some(ms) => args.dead_mans_switch(DeadMansSwitchConfiguration::builder().detection_timeout(Duration::from_millis(ms)).kill_worker(true).build()).build(),
        None => args.build(),
    };
    let spawned = Actor::spawn(Some(format!("fac-{tag}")), Factory::<K, FJob, (), RawWorker, R, Q>::default(), args).await;
    let Ok((factory, handle)) = spawned else {
        sh.log(FEv::Op("factory spawn failed".into()));
        return None;
    };
    let mut next_id = 0u64;
    let mut expect_pool = cfg.pool;
    let mut ports: Vec<(u64, tokio::sync::oneshot::Receiver<Option<Job<K, FJob>>>)> = vec![];
    let mut drained = false;
    for (gap, op) in cfg.ops.iter() {
        if *gap > 0 {
            tokio::time::sleep(Duration::from_millis(*gap)).await;
        }
        match op {
            Op::Dispatch { key, dur, beh, ttl, with_port } => {
                next_id += 1;
                let id = next_id;
                let mut job = Job::with_options(*key, FJob { id, dur: *dur, beh: *beh }, JobOptions::new(ttl.map(Duration::from_millis)));
                if *with_port {
                    let (tx, rx) = tokio::sync::oneshot::channel();
                    job.accepted = Some(tx.into());
                    ports.push((id, rx));
                }
                let sent = factory.cast(FactoryMessage::Dispatch(job)).is_ok();
                sh.log(FEv::Dispatch { id, key: *key, sent, ttl: *ttl });
            }
            Op::KillWorker(i) => {
                let mut kids = factory.get_children();
                kids.sort_by_key(|c| c.get_id()); // get_children() iterates a HashMap: keep the victim choice replayable
                if !kids.is_empty() {
                    let c = &kids[*i % kids.len()];
                    sh.log(FEv::Op(format!("kill child {}", c.get_id())));
                    c.kill();
                }
            }
            Op::Resize(n) => {
                sh.log(FEv::Op(format!("resize {n}")));
                if *n > 0 && !drained {
                    expect_pool = *n;
                }
                let _ = factory.cast(FactoryMessage::AdjustWorkerPool(*n));
            }
            Op::SetDiscard(d) => {
                sh.log(FEv::Op(format!("set discard {d:?}")));
                let _ = factory.cast(FactoryMessage::UpdateSettings(UpdateSettingsRequest::builder().discard_settings(discard_settings(*d)).build()));
            }
            Op::SetHandler => {
                sh.log(FEv::Op("set handler 2".into()));
                let h: Arc<dyn DiscardHandler<K, FJob>> = Arc::new(DiscardLog(sh.clone(), 2));
                let _ = factory.cast(FactoryMessage::UpdateSettings(UpdateSettingsRequest::builder().discard_handler(Some(h)).build()));
            }
            Op::Barrier => {
                // a query queued right behind everything sent so far
                // three separate messages: the factory may process worker reports in between. Only this task
                // dispatches, so between the reads the queue can only shrink: reading `active` first and the depth
                // afterwards means "depth > 0" also held at the instant `active` was read.
                sh.log(FEv::Op("barrier-sent".into()));
                let active = factory.call(FactoryMessage::GetNumActiveWorkers, None).await;
                let depth = factory.call(FactoryMessage::GetQueueDepth, None).await;
                let cap = factory.call(FactoryMessage::GetAvailableCapacity, None).await;
                if let (Ok(ractor::rpc::CallResult::Success(d)), Ok(ractor::rpc::CallResult::Success(a)), Ok(ractor::rpc::CallResult::Success(c))) = (depth, active, cap) {
                    sh.log(FEv::Barrier { depth: d, active: a, capacity: c, live_children: factory.get_children().len(), expect_pool });
                }
            }
            Op::Drain => {
                sh.log(FEv::Op("drain".into()));
                drained = true;
                let _ = factory.cast(FactoryMessage::DrainRequests);
            }
        }
    }
    // let the backlog settle, take a final barrier while the factory is (maybe) still alive
    tokio::time::sleep(Duration::from_millis(300)).await;
    if factory.get_status() == ActorStatus::Running && !drained {
        let active = factory.call(FactoryMessage::GetNumActiveWorkers, None).await;
        let depth = factory.call(FactoryMessage::GetQueueDepth, None).await;
        let cap = factory.call(FactoryMessage::GetAvailableCapacity, None).await;
        if let (Ok(ractor::rpc::CallResult::Success(d)), Ok(ractor::rpc::CallResult::Success(a)), Ok(ractor::rpc::CallResult::Success(c))) = (depth, active, cap) {
            sh.log(FEv::Op("final".into()));
            sh.log(FEv::Barrier { depth: d, active: a, capacity: c, live_children: factory.get_children().len(), expect_pool });
        }
    }
    // a long idle period: with healthy workers nothing that was accepted may still be waiting afterwards
    if factory.get_status() == ActorStatus::Running && !drained {
        tokio::time::sleep(Duration::from_secs(20)).await;
        if factory.get_status() == ActorStatus::Running {
            let _ = factory.call(FactoryMessage::GetQueueDepth, None).await;
            sh.log(FEv::Op(format!("quiesced pool={expect_pool} live={}", factory.get_children().len())));
        }
    }
    if cfg.end_with_drain {
        if !drained {
            sh.log(FEv::Op("drain".into()));
            let _ = factory.cast(FactoryMessage::DrainRequests);
        }
        // must stop by itself (bounded: 60 virtual seconds)
        if tokio::time::timeout(Duration::from_secs(60), factory.wait(None)).await.is_err() {
            sh.log(FEv::Op("drain-did-not-stop".into()));
            factory.stop(None);
        }
    } else {
        sh.log(FEv::Op("stop".into()));
        factory.stop(None);
    }
    let _ = handle.await;
    sh.log(FEv::FactoryExit);
    // acceptance ports
    for (id, rx) in ports {
        match tokio::time::timeout(Duration::from_secs(5), rx).await {
            Ok(Ok(None)) => sh.log(FEv::Accept { id, accepted: true }),
            Ok(Ok(Some(job))) => {
                let same = job.msg.id == id;
                sh.log(FEv::Accept { id, accepted: false });
                if !same {
                    sh.log(FEv::Op(format!("WRONG-JOB-RETURNED for {id}: got {}", job.msg.id)));
                }
            }
            Ok(Err(_)) => sh.log(FEv::Op(format!("port-dropped {id}"))),
            Err(_) => sh.log(FEv::Op(format!("port-pending {id}"))),
        }
    }
    vt::quiesce(1).await;
    Some(factory.get_status())
}

pub fn run_scenario(seed: u64, cfg: Cfg) -> FOutcome {
    let sh = Arc::new(FShared::default());
    let tag = format!("{seed:x}");
    let cfg2 = cfg.clone();
    let sh2 = sh.clone();
    let result: Mutex<Option<Option<ActorStatus>>> = Mutex::new(None);
    // the poll interposer decides who runs first when a worker's report and its death race
    let defer = *Prng::new(seed ^ 0xDEF).pick(&[0u64, 0, 30, 60]);
    let r = vt::run(seed, defer, async {
        let cfg = cfg2;
        macro_rules! with_queue {
            ($router:expr) => {{
                if cfg.priority_queue {
                    drive(cfg.clone(), $router, PriorityQueue::<K, FJob, StandardPriority, Prio, 5>::new(Prio), sh2.clone(), tag.clone()).await
                } else {
                    drive(cfg.clone(), $router, DefaultQueue::<K, FJob>::default(), sh2.clone(), tag.clone()).await
                }
            }};
        }
        macro_rules! with_rate {
            ($router:expr) => {{
                match cfg.rate {
                    Some((refill, interval, max, initial)) => {
                        let rl = LeakyBucketRateLimiter::builder().refill(refill).interval(Duration::from_millis(interval)).max(max).initial(initial).build();
                        with_queue!(RateLimitedRouter::builder().router($router).rate_limiter(rl).build())
                    }
                    None => with_queue!($router),
                }
            }};
        }
        let st = match cfg.router {
            RouterKind::KeyPersistent => with_rate!(KeyPersistentRouting::<K, FJob>::default()),
            RouterKind::Queuer => with_rate!(QueuerRouting::<K, FJob>::default()),
            RouterKind::Sticky => with_rate!(StickyQueuerRouting::<K, FJob>::default()),
            RouterKind::RoundRobin => with_rate!(RoundRobinRouting::<K, FJob>::default()),
            RouterKind::Custom(h) => with_rate!(CustomRouting::<K, FJob, HashFn>::new(HashFn(h))),
        };
        *result.lock().unwrap() = Some(st);
    });
    let evs = sh.evs.lock().unwrap().clone();
    let leaks = vt::global_leaks();
    let _ = StandardPriority::size();
    let _ = <StandardPriority as Priority>::get_index(&StandardPriority::Normal);
    let factory_final = result.lock().unwrap().take().flatten();
    FOutcome { evs, stuck: r.is_none(), factory_final, cfg, foreign_panics: crate::take_foreign_panics(), leaks }
}

pub fn render(evs: &[(u64, u64, FEv)], max: usize) -> Vec<String> {
    let skip = evs.len().saturating_sub(max);
    evs.iter().skip(skip).map(|(ts, ms, e)| format!("#{ts} t={ms}ms {e:?}")).collect()
}
