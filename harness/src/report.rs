//! Per-shard result accumulation and JSON output.
use std::collections::{BTreeMap, BTreeSet};

use crate::json::J;

#[derive(Clone, Debug)]
pub struct Violation {
    pub clause: String,
    pub detail: String,
    pub scenario_seed: u64,
    pub scenario: String,
    /// discriminating facts for known-finding matching
    pub signature: String,
    pub trace: Vec<String>,
}

#[derive(Default)]
pub struct Report {
    pub prop: String,
    pub engine: String,
    pub evaluations: u64,
    pub nontrivial: u64,
    pub signatures: BTreeSet<u64>,
    pub counters: BTreeMap<String, u64>,
    pub samples: Vec<J>,
    pub violations: Vec<Violation>,
    pub inconclusive: Vec<String>,
    pub exhaustive: Option<bool>,
}

impl Report {
    pub fn new(prop: &str, engine: &str) -> Self {
        Report { prop: prop.to_string(), engine: engine.to_string(), ..Default::default() }
    }
    pub fn count(&mut self, k: &str, n: u64) {
        *self.counters.entry(k.to_string()).or_insert(0) += n;
    }
    pub fn max(&mut self, k: &str, n: u64) {
        let e = self.counters.entry(k.to_string()).or_insert(0);
        if n > *e {
            *e = n;
        }
    }
    /// Record one executed scenario. `sig` = hash of the discrete facts observed; counted as
    /// distinct-nontrivial only when `nontrivial`.
    pub fn scenario(&mut self, nontrivial: bool, sig: u64) {
        self.evaluations += 1;
        if nontrivial {
            self.nontrivial += 1;
            if self.signatures.len() < 2_000_000 {
                self.signatures.insert(sig);
            }
        }
    }
    pub fn sample(&mut self, j: J) {
        if self.samples.len() < 4 {
            self.samples.push(j);
        }
    }
    pub fn violation(&mut self, v: Violation) {
        self.count("violations_total", 1);
        // keep at most 40 full records, but always keep one per distinct (clause, signature)
        let dup = self
            .violations
            .iter()
            .filter(|x| x.clause == v.clause && x.signature == v.signature)
            .count();
        if dup < 2 && self.violations.len() < 200 {
            self.violations.push(v);
        }
    }
    pub fn to_json(&self) -> J {
        let mut counters = J::obj();
        for (k, v) in &self.counters {
            counters.put(k, *v);
        }
        let viols: Vec<J> = self
            .violations
            .iter()
            .map(|v| {
                J::obj()
                    .set("clause", v.clause.as_str())
                    .set("detail", v.detail.as_str())
                    .set("scenario_seed", v.scenario_seed)
                    .set("scenario", v.scenario.as_str())
                    .set("signature", v.signature.as_str())
                    .set("trace", v.trace.clone())
            })
            .collect();
        let mut o = J::obj()
            .set("prop", self.prop.as_str())
            .set("engine", self.engine.as_str())
            .set("evaluations", self.evaluations)
            .set("nontrivial", self.nontrivial)
            .set("signatures", self.signatures.iter().map(|s| format!("{s:016x}")).collect::<Vec<_>>())
            .set("counters", counters)
            .set("samples", J::Arr(self.samples.clone()))
            .set("violations", J::Arr(viols))
            .set("inconclusive", self.inconclusive.clone());
        if let Some(e) = self.exhaustive {
            o.put("exhaustive", e);
        }
        o
    }
}
