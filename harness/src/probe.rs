//! The scripted Probe actor: every callback body is a script bracketed by enter/exit events.
//! Every Probe also logs each supervision event it receives (it doubles as the SupervisorLog).
use std::future::Future;
use std::pin::Pin;
use std::sync::atomic::{AtomicBool, AtomicU64, AtomicU8, Ordering};
use std::sync::Arc;

use ractor::{Actor, ActorCell, ActorProcessingErr, ActorRef, RpcReplyPort, SpawnErr, SupervisionEvent};

use crate::trace::{Cb, Ev, How, SupKind, Trace};

pub const PANIC_MARK: &str = "VERIF-INJECTED";

/// A harness-controlled gate: the actor announces it reached the gate and waits for release.
pub struct Gate {
    reached: AtomicBool,
    reached_n: tokio::sync::Notify,
    released: AtomicBool,
    released_n: tokio::sync::Notify,
}

impl Gate {
    pub fn new() -> Arc<Gate> {
        Arc::new(Gate {
            reached: AtomicBool::new(false),
            reached_n: tokio::sync::Notify::new(),
            released: AtomicBool::new(false),
            released_n: tokio::sync::Notify::new(),
        })
    }
    pub async fn park(&self) {
        self.reached.store(true, Ordering::SeqCst);
        self.reached_n.notify_waiters();
        self.reached_n.notify_one();
        loop {
            let n = self.released_n.notified();
            if self.released.load(Ordering::SeqCst) {
                return;
            }
            n.await;
        }
    }
    pub fn is_reached(&self) -> bool {
        self.reached.load(Ordering::SeqCst)
    }
    pub async fn wait_reached(&self) {
        loop {
            let n = self.reached_n.notified();
            if self.reached.load(Ordering::SeqCst) {
                return;
            }
            n.await;
        }
    }
    pub fn release(&self) {
        self.released.store(true, Ordering::SeqCst);
        self.released_n.notify_waiters();
        self.released_n.notify_one();
    }
}

pub type BoxFut<T> = Pin<Box<dyn Future<Output = T> + Send>>;
/// Type-erased child spawner (breaks the async type recursion of a Probe spawning Probes).
pub type ChildSpawner =
    Arc<dyn Fn(Arc<ProbeSpec>, ActorCell) -> BoxFut<Result<(ActorRef<PMsg>, ractor::concurrency::JoinHandle<()>), SpawnErr>> + Send + Sync>;

#[derive(Clone)]
pub enum Step {
    Yield,
    Sleep(u64),
    /// announce + wait for the harness
    Park(Arc<Gate>),
    SendSelf { seq: u64 },
    PanicString,
    PanicStr,
    Err,
    StopSelf,
    KillSelf,
    DrainSelf,
    SpawnChild(Arc<ProbeSpec>),
    Join(String, String),
    Leave(String, String),
    PgMonitor(String),
    PgMonitorScope(String),
    #[cfg(feature = "cluster")]
    PidMonitor,
    LinkTo(ActorCell),
    /// set a flag the harness can read
    Flag(Arc<AtomicBool>),
    /// run an arbitrary sync closure
    Do(Arc<dyn Fn(&ActorRef<PMsg>) + Send + Sync>),
}

pub type Script = Vec<Step>;

#[derive(Clone, Copy, PartialEq, Eq, Debug)]
pub enum SupPolicy {
    /// log and carry on
    Ignore,
    /// ractor's default: stop myself when a child terminates/fails
    StopOnChildExit,
}

pub struct ProbeSpec {
    pub uid: u64,
    pub name: Option<String>,
    pub trace: Arc<Trace>,
    pub pre_start: Script,
    pub post_start: Script,
    pub post_stop: Script,
    pub sup_evt: Script,
    pub sup_policy: SupPolicy,
    pub child_spawner: Option<ChildSpawner>,
    pub in_cb: AtomicU8,
    pub pid: AtomicU64,
    /// final `handled` counter as seen by post_stop
    pub post_stop_saw: AtomicU64,
}

impl ProbeSpec {
    pub fn new(uid: u64, name: Option<String>, trace: Arc<Trace>) -> ProbeSpec {
        ProbeSpec {
            uid,
            name,
            trace,
            pre_start: vec![],
            post_start: vec![],
            post_stop: vec![],
            sup_evt: vec![],
            sup_policy: SupPolicy::Ignore,
            child_spawner: None,
            in_cb: AtomicU8::new(0),
            pid: AtomicU64::new(u64::MAX),
            post_stop_saw: AtomicU64::new(u64::MAX),
        }
    }
}

pub struct Work {
    pub sender: u32,
    pub seq: u64,
    pub script: Script,
    pub token: Token,
}

/// Drop token travelling with every work item.
pub struct Token {
    pub trace: Option<Arc<Trace>>,
    pub sender: u32,
    pub seq: u64,
    pub handled: bool,
}
impl Drop for Token {
    fn drop(&mut self) {
        if let Some(t) = &self.trace {
            t.log(Ev::Dropped { sender: self.sender, seq: self.seq, handled: self.handled });
        }
    }
}

impl Work {
    pub fn new(trace: &Arc<Trace>, sender: u32, seq: u64, script: Script) -> Work {
        Work { sender, seq, script, token: Token { trace: Some(trace.clone()), sender, seq, handled: false } }
    }
}

pub enum PMsg {
    Work(Work),
    /// reply `f(seq)` after running the script
    Call(Work, RpcReplyPort<u64>),
    /// reply with the number of handled items
    Flush(RpcReplyPort<u64>),
}
#[cfg(feature = "cluster")]
impl ractor::Message for PMsg {}

/// A narrower message type in front of `PMsg` for `ActorRef::get_derived` (only work items).
pub struct DWork(pub Work);
impl From<DWork> for PMsg {
    fn from(d: DWork) -> PMsg {
        PMsg::Work(d.0)
    }
}
impl TryFrom<PMsg> for DWork {
    type Error = ();
    fn try_from(m: PMsg) -> Result<DWork, ()> {
        match m {
            PMsg::Work(w) => Ok(DWork(w)),
            _ => Err(()),
        }
    }
}
#[cfg(feature = "cluster")]
impl ractor::Message for DWork {}

pub fn reply_fn(seq: u64) -> u64 {
    crate::prng::mix(seq ^ 0xabcdef)
}

pub struct PState {
    pub handled: u64,
}

pub struct Probe {
    pub spec: Arc<ProbeSpec>,
}

struct CbGuard<'a> {
    spec: &'a ProbeSpec,
    cb: Cb,
    how: How,
}
impl<'a> CbGuard<'a> {
    fn enter(spec: &'a ProbeSpec, cb: Cb, msg: u64) -> Self {
        let prev = spec.in_cb.swap(1 + cb as u8, Ordering::SeqCst);
        spec.trace.log(Ev::Enter { uid: spec.uid, cb, msg });
        if prev != 0 {
            spec.trace.online_violation(
                "overlap",
                format!("probe {} entered {:?} while callback #{} was still active", spec.uid, cb, prev - 1),
            );
        }
        CbGuard { spec, cb, how: How::Cancelled }
    }
}
impl Drop for CbGuard<'_> {
    fn drop(&mut self) {
        let how = if std::thread::panicking() && self.how == How::Cancelled { How::Panic } else { self.how };
        let prev = self.spec.in_cb.swap(0, Ordering::SeqCst);
        self.spec.trace.log(Ev::Exit { uid: self.spec.uid, cb: self.cb, how });
        if prev != 1 + self.cb as u8 {
            self.spec.trace.online_violation(
                "overlap",
                format!("probe {} exit of {:?} found active marker {}", self.spec.uid, self.cb, prev),
            );
        }
    }
}

impl ProbeSpec {
    pub async fn run_script(
        self: &Arc<Self>,
        cb: Cb,
        msg: u64,
        script: &Script,
        myself: &ActorRef<PMsg>,
    ) -> Result<(), ActorProcessingErr> {
        let mut g = CbGuard::enter(self, cb, msg);
        let mut tick = 0u32;
        for step in script {
            match step {
                Step::Yield => {
                    tokio::task::yield_now().await;
                    tick += 1;
                    self.trace.log(Ev::Tick { uid: self.uid, cb, n: tick });
                }
                Step::Sleep(ms) => {
                    tokio::time::sleep(std::time::Duration::from_millis(*ms)).await;
                    tick += 1;
                    self.trace.log(Ev::Tick { uid: self.uid, cb, n: tick });
                }
                Step::Park(gate) => {
                    gate.park().await;
                    tick += 1;
                    self.trace.log(Ev::Tick { uid: self.uid, cb, n: tick });
                }
                Step::SendSelf { seq } => {
                    let w = Work::new(&self.trace, u32::MAX, *seq, vec![]);
                    self.trace.log(Ev::Call { client: u32::MAX, op: "send", arg: *seq });
                    let r = myself.send_message(PMsg::Work(w));
                    self.trace.log(Ev::Ret { client: u32::MAX, op: "send", arg: *seq, res: r.is_ok() as i64 });
                }
                Step::PanicString => {
                    panic!("{}", format!("{PANIC_MARK} panic-string uid={} cb={:?}", self.uid, cb));
                }
                Step::PanicStr => {
                    std::panic::panic_any("VERIF-INJECTED panic-str");
                }
                Step::Err => {
                    g.how = How::Err;
                    return Err(format!("{PANIC_MARK} err uid={} cb={:?}", self.uid, cb).into());
                }
                Step::StopSelf => myself.stop(Some("self-stop".to_string())),
                Step::KillSelf => myself.kill(),
                Step::DrainSelf => {
                    let _ = myself.drain();
                }
                Step::SpawnChild(spec) => {
                    if let Some(sp) = &self.child_spawner {
                        let r = sp(spec.clone(), myself.get_cell()).await;
                        self.trace.log(Ev::Ret { client: u32::MAX - 1, op: "spawn_child", arg: spec.uid, res: r.is_ok() as i64 });
                        tick += 1;
                        self.trace.log(Ev::Tick { uid: self.uid, cb, n: tick });
                    }
                }
                Step::Join(scope, group) => {
                    ractor::pg::join_scoped(scope.clone(), group.clone(), vec![myself.get_cell()]);
                }
                Step::Leave(scope, group) => {
                    ractor::pg::leave_scoped(scope.clone(), group.clone(), vec![myself.get_cell()]);
                }
                Step::PgMonitor(group) => ractor::pg::monitor(group.clone(), myself.get_cell()),
                Step::PgMonitorScope(scope) => ractor::pg::monitor_scope(scope.clone(), myself.get_cell()),
                #[cfg(feature = "cluster")]
                Step::PidMonitor => ractor::registry::pid_registry::monitor(myself.get_cell()),
                Step::LinkTo(sup) => myself.link(sup.clone()),
                Step::Flag(f) => f.store(true, Ordering::SeqCst),
                Step::Do(f) => f(myself),
            }
        }
        g.how = How::Ok;
        Ok(())
    }

    pub fn log_sup(&self, evt: &mut SupervisionEvent) {
        let (kind, who, detail, has_state, state_val, extra) = match evt {
            SupervisionEvent::ActorStarted(w) => (SupKind::Started, pid_of(w), String::new(), false, 0, vec![]),
            SupervisionEvent::ActorTerminated(w, st, reason) => {
                let has = st.is_some();
                let mut val = u64::MAX;
                if let Some(bs) = st.as_mut() {
                    if let Ok(ps) = bs.take::<PState>() {
                        val = ps.handled;
                    }
                }
                (SupKind::Terminated, pid_of(w), reason.clone().unwrap_or_else(|| "<none>".into()), has, val, vec![])
            }
            SupervisionEvent::ActorFailed(w, e) => (SupKind::Failed, pid_of(w), format!("{e}"), false, 0, vec![]),
            SupervisionEvent::ProcessGroupChanged(ch) => match ch {
                ractor::pg::GroupChangeMessage::Join(s, g, a) => {
                    (SupKind::PgJoin, 0, format!("{s}/{g}"), false, 0, a.iter().map(pid_of).collect())
                }
                ractor::pg::GroupChangeMessage::Leave(s, g, a) => {
                    (SupKind::PgLeave, 0, format!("{s}/{g}"), false, 0, a.iter().map(pid_of).collect())
                }
            },
            #[cfg(feature = "cluster")]
            SupervisionEvent::PidLifecycleEvent(e) => match e {
                ractor::registry::PidLifecycleEvent::Spawn(w) => (SupKind::PidSpawn, pid_of(w), String::new(), false, 0, vec![]),
                ractor::registry::PidLifecycleEvent::Terminate(w) => {
                    (SupKind::PidTerminate, pid_of(w), String::new(), false, 0, vec![])
                }
            },
        };
        self.trace.log(Ev::Sup { uid: self.uid, kind, who, detail, has_state, state_val, extra });
    }
}

pub fn pid_of(c: &ActorCell) -> u64 {
    ractor::verif::id_u64(&c.get_id())
}

#[cfg_attr(feature = "alt", ractor::async_trait)]
impl Actor for Probe {
    type Msg = PMsg;
    type State = PState;
    type Arguments = ();

    async fn pre_start(&self, myself: ActorRef<PMsg>, _: ()) -> Result<PState, ActorProcessingErr> {
        self.spec.pid.store(pid_of(&myself.get_cell()), Ordering::SeqCst);
        self.spec.run_script(Cb::PreStart, 0, &self.spec.pre_start, &myself).await?;
        Ok(PState { handled: 0 })
    }

    async fn post_start(&self, myself: ActorRef<PMsg>, _st: &mut PState) -> Result<(), ActorProcessingErr> {
        self.spec.run_script(Cb::PostStart, 0, &self.spec.post_start, &myself).await
    }

    async fn post_stop(&self, myself: ActorRef<PMsg>, st: &mut PState) -> Result<(), ActorProcessingErr> {
        self.spec.post_stop_saw.store(st.handled, Ordering::SeqCst);
        self.spec.run_script(Cb::PostStop, st.handled, &self.spec.post_stop, &myself).await
    }

    async fn handle(&self, myself: ActorRef<PMsg>, msg: PMsg, st: &mut PState) -> Result<(), ActorProcessingErr> {
        match msg {
            PMsg::Work(mut w) => {
                w.token.handled = true;
                st.handled += 1;
                self.spec.trace.log(Ev::Handled { uid: self.spec.uid, sender: w.sender, seq: w.seq });
                let id = ((w.sender as u64) << 32) | (w.seq & 0xffff_ffff);
                self.spec.run_script(Cb::Handle, id, &w.script, &myself).await
            }
            PMsg::Call(mut w, reply) => {
                w.token.handled = true;
                st.handled += 1;
                self.spec.trace.log(Ev::Handled { uid: self.spec.uid, sender: w.sender, seq: w.seq });
                let id = ((w.sender as u64) << 32) | (w.seq & 0xffff_ffff);
                let r = self.spec.run_script(Cb::Handle, id, &w.script, &myself).await;
                let _ = reply.send(reply_fn(w.seq));
                r
            }
            PMsg::Flush(reply) => {
                let _ = reply.send(st.handled);
                Ok(())
            }
        }
    }

    async fn handle_supervisor_evt(
        &self,
        myself: ActorRef<PMsg>,
        mut evt: SupervisionEvent,
        _st: &mut PState,
    ) -> Result<(), ActorProcessingErr> {
        self.spec.log_sup(&mut evt);
        let r = self.spec.run_script(Cb::SupEvt, 0, &self.spec.sup_evt, &myself).await;
        if self.spec.sup_policy == SupPolicy::StopOnChildExit {
            if let SupervisionEvent::ActorTerminated(..) | SupervisionEvent::ActorFailed(..) = evt {
                myself.stop(None);
            }
        }
        r
    }
}

/// The standard type-erased child spawner.
pub fn std_child_spawner() -> ChildSpawner {
    Arc::new(|spec: Arc<ProbeSpec>, sup: ActorCell| -> BoxFut<_> {
        Box::pin(async move { Actor::spawn_linked(spec.name.clone(), Probe { spec: spec.clone() }, (), sup).await })
    })
}

pub async fn spawn_probe(
    spec: &Arc<ProbeSpec>,
    sup: Option<ActorCell>,
) -> Result<(ActorRef<PMsg>, ractor::concurrency::JoinHandle<()>), SpawnErr> {
    match sup {
        Some(s) => Actor::spawn_linked(spec.name.clone(), Probe { spec: spec.clone() }, (), s).await,
        None => Actor::spawn(spec.name.clone(), Probe { spec: spec.clone() }, ()).await,
    }
}

// ------------------------------------------------------------------ thread-local flavour

/// Thread-local Probe: same scripts, runs on a `ThreadLocalActorSpawner` thread.
#[derive(Default)]
pub struct TlProbe;

pub struct TlState {
    pub spec: Arc<ProbeSpec>,
    pub st: PState,
}

impl ractor::thread_local::ThreadLocalActor for TlProbe {
    type Msg = PMsg;
    type State = TlState;
    type Arguments = Arc<ProbeSpec>;

    async fn pre_start(&self, myself: ActorRef<PMsg>, spec: Arc<ProbeSpec>) -> Result<TlState, ActorProcessingErr> {
        spec.pid.store(pid_of(&myself.get_cell()), Ordering::SeqCst);
        spec.run_script(Cb::PreStart, 0, &spec.pre_start, &myself).await?;
        Ok(TlState { spec, st: PState { handled: 0 } })
    }

    async fn post_start(&self, myself: ActorRef<PMsg>, s: &mut TlState) -> Result<(), ActorProcessingErr> {
        s.spec.run_script(Cb::PostStart, 0, &s.spec.post_start, &myself).await
    }

    async fn post_stop(&self, myself: ActorRef<PMsg>, s: &mut TlState) -> Result<(), ActorProcessingErr> {
        s.spec.post_stop_saw.store(s.st.handled, Ordering::SeqCst);
        s.spec.run_script(Cb::PostStop, s.st.handled, &s.spec.post_stop, &myself).await
    }

    async fn handle(&self, myself: ActorRef<PMsg>, msg: PMsg, s: &mut TlState) -> Result<(), ActorProcessingErr> {
        match msg {
            PMsg::Work(mut w) => {
                w.token.handled = true;
                s.st.handled += 1;
                s.spec.trace.log(Ev::Handled { uid: s.spec.uid, sender: w.sender, seq: w.seq });
                let id = ((w.sender as u64) << 32) | (w.seq & 0xffff_ffff);
                s.spec.run_script(Cb::Handle, id, &w.script, &myself).await
            }
            PMsg::Call(mut w, reply) => {
                w.token.handled = true;
                s.st.handled += 1;
                s.spec.trace.log(Ev::Handled { uid: s.spec.uid, sender: w.sender, seq: w.seq });
                let id = ((w.sender as u64) << 32) | (w.seq & 0xffff_ffff);
                let r = s.spec.run_script(Cb::Handle, id, &w.script, &myself).await;
                let _ = reply.send(reply_fn(w.seq));
                r
            }
            PMsg::Flush(reply) => {
                let _ = reply.send(s.st.handled);
                Ok(())
            }
        }
    }

    async fn handle_supervisor_evt(
        &self,
        myself: ActorRef<PMsg>,
        mut evt: SupervisionEvent,
        s: &mut TlState,
    ) -> Result<(), ActorProcessingErr> {
        s.spec.log_sup(&mut evt);
        let r = s.spec.run_script(Cb::SupEvt, 0, &s.spec.sup_evt, &myself).await;
        if s.spec.sup_policy == SupPolicy::StopOnChildExit {
            if let SupervisionEvent::ActorTerminated(..) | SupervisionEvent::ActorFailed(..) = evt {
                myself.stop(None);
            }
        }
        r
    }
}

/// A *Send* actor (same scripts) that is run through the thread-local API by way of ractor's blanket adapter
/// `impl<T: Actor + Default> ThreadLocalActor for T`.
#[derive(Default)]
pub struct AdapterProbe;

#[cfg_attr(feature = "alt", ractor::async_trait)]
impl Actor for AdapterProbe {
    type Msg = PMsg;
    type State = TlState;
    type Arguments = Arc<ProbeSpec>;

    async fn pre_start(&self, myself: ActorRef<PMsg>, spec: Arc<ProbeSpec>) -> Result<TlState, ActorProcessingErr> {
        spec.pid.store(pid_of(&myself.get_cell()), Ordering::SeqCst);
        spec.run_script(Cb::PreStart, 0, &spec.pre_start, &myself).await?;
        Ok(TlState { spec, st: PState { handled: 0 } })
    }

    async fn post_start(&self, myself: ActorRef<PMsg>, s: &mut TlState) -> Result<(), ActorProcessingErr> {
        s.spec.run_script(Cb::PostStart, 0, &s.spec.post_start, &myself).await
    }

    async fn post_stop(&self, myself: ActorRef<PMsg>, s: &mut TlState) -> Result<(), ActorProcessingErr> {
        s.spec.post_stop_saw.store(s.st.handled, Ordering::SeqCst);
        s.spec.run_script(Cb::PostStop, s.st.handled, &s.spec.post_stop, &myself).await
    }

    async fn handle(&self, myself: ActorRef<PMsg>, msg: PMsg, s: &mut TlState) -> Result<(), ActorProcessingErr> {
        match msg {
            PMsg::Work(mut w) => {
                w.token.handled = true;
                s.st.handled += 1;
                s.spec.trace.log(Ev::Handled { uid: s.spec.uid, sender: w.sender, seq: w.seq });
                let id = ((w.sender as u64) << 32) | (w.seq & 0xffff_ffff);
                s.spec.run_script(Cb::Handle, id, &w.script, &myself).await
            }
            PMsg::Call(mut w, reply) => {
                w.token.handled = true;
                s.st.handled += 1;
                s.spec.trace.log(Ev::Handled { uid: s.spec.uid, sender: w.sender, seq: w.seq });
                let id = ((w.sender as u64) << 32) | (w.seq & 0xffff_ffff);
                let r = s.spec.run_script(Cb::Handle, id, &w.script, &myself).await;
                let _ = reply.send(reply_fn(w.seq));
                r
            }
            PMsg::Flush(reply) => {
                let _ = reply.send(s.st.handled);
                Ok(())
            }
        }
    }

    async fn handle_supervisor_evt(
        &self,
        myself: ActorRef<PMsg>,
        mut evt: SupervisionEvent,
        s: &mut TlState,
    ) -> Result<(), ActorProcessingErr> {
        s.spec.log_sup(&mut evt);
        let r = s.spec.run_script(Cb::SupEvt, 0, &s.spec.sup_evt, &myself).await;
        if s.spec.sup_policy == SupPolicy::StopOnChildExit {
            if let SupervisionEvent::ActorTerminated(..) | SupervisionEvent::ActorFailed(..) = evt {
                myself.stop(None);
            }
        }
        r
    }
}

pub async fn spawn_adapter_probe(
    spec: &Arc<ProbeSpec>,
    sup: Option<ActorCell>,
    spawner: ractor::thread_local::ThreadLocalActorSpawner,
) -> Result<(ActorRef<PMsg>, ractor::concurrency::JoinHandle<()>), SpawnErr> {
    use ractor::thread_local::ThreadLocalActor;
    match sup {
        Some(s) => <AdapterProbe as ThreadLocalActor>::spawn_linked(spec.name.clone(), spec.clone(), s, spawner).await,
        None => <AdapterProbe as ThreadLocalActor>::spawn(spec.name.clone(), spec.clone(), spawner).await,
    }
}

pub async fn spawn_tl_probe(
    spec: &Arc<ProbeSpec>,
    sup: Option<ActorCell>,
    spawner: ractor::thread_local::ThreadLocalActorSpawner,
) -> Result<(ActorRef<PMsg>, ractor::concurrency::JoinHandle<()>), SpawnErr> {
    use ractor::thread_local::ThreadLocalActor;
    match sup {
        Some(s) => TlProbe::spawn_linked(spec.name.clone(), spec.clone(), s, spawner).await,
        None => TlProbe::spawn(spec.name.clone(), spec.clone(), spawner).await,
    }
}
