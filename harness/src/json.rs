//! Minimal JSON value + writer (no external crates).
use std::fmt::Write;

#[derive(Clone, Debug)]
pub enum J {
    Null,
    Bool(bool),
    Int(i128),
    F(f64),
    Str(String),
    Arr(Vec<J>),
    Obj(Vec<(String, J)>),
}

impl J {
    pub fn obj() -> J {
        J::Obj(Vec::new())
    }
    pub fn set(mut self, k: &str, v: impl Into<J>) -> J {
        if let J::Obj(ref mut m) = self {
            m.push((k.to_string(), v.into()));
        }
        self
    }
    pub fn put(&mut self, k: &str, v: impl Into<J>) {
        if let J::Obj(ref mut m) = self {
            m.push((k.to_string(), v.into()));
        }
    }
    pub fn to_string(&self) -> String {
        let mut s = String::new();
        self.write(&mut s);
        s
    }
    fn write(&self, out: &mut String) {
        match self {
            J::Null => out.push_str("null"),
            J::Bool(b) => out.push_str(if *b { "true" } else { "false" }),
            J::Int(i) => {
                let _ = write!(out, "{i}");
            }
            J::F(f) => {
                if f.is_finite() {
                    let _ = write!(out, "{f}");
                } else {
                    out.push_str("null");
                }
            }
            J::Str(s) => esc(s, out),
            J::Arr(a) => {
                out.push('[');
                for (i, x) in a.iter().enumerate() {
                    if i > 0 {
                        out.push(',');
                    }
                    x.write(out);
                }
                out.push(']');
            }
            J::Obj(m) => {
                out.push('{');
                for (i, (k, v)) in m.iter().enumerate() {
                    if i > 0 {
                        out.push(',');
                    }
                    esc(k, out);
                    out.push(':');
                    v.write(out);
                }
                out.push('}');
            }
        }
    }
}

fn esc(s: &str, out: &mut String) {
    out.push('"');
    for c in s.chars() {
        match c {
            '"' => out.push_str("\\\""),
            '\\' => out.push_str("\\\\"),
            '\n' => out.push_str("\\n"),
            '\r' => out.push_str("\\r"),
            '\t' => out.push_str("\\t"),
            c if (c as u32) < 0x20 => {
                let _ = write!(out, "\\u{:04x}", c as u32);
            }
            c => out.push(c),
        }
    }
    out.push('"');
}

impl From<&str> for J {
    fn from(s: &str) -> J {
        J::Str(s.to_string())
    }
}
impl From<String> for J {
    fn from(s: String) -> J {
        J::Str(s)
    }
}
impl From<bool> for J {
    fn from(b: bool) -> J {
        J::Bool(b)
    }
}
macro_rules! ji {
    ($($t:ty),*) => {$(impl From<$t> for J { fn from(i: $t) -> J { J::Int(i as i128) } })*};
}
ji!(u8, u16, u32, u64, usize, i32, i64, i128);
impl From<f64> for J {
    fn from(f: f64) -> J {
        J::F(f)
    }
}
impl<T: Into<J>> From<Vec<T>> for J {
    fn from(v: Vec<T>) -> J {
        J::Arr(v.into_iter().map(Into::into).collect())
    }
}
impl<T: Into<J>> From<Option<T>> for J {
    fn from(v: Option<T>) -> J {
        match v {
            Some(x) => x.into(),
            None => J::Null,
        }
    }
}
