//! Small deterministic PRNG (splitmix64) used for every random choice of the harness.

#[derive(Clone, Debug)]
pub struct Prng(pub u64);

pub fn mix(mut z: u64) -> u64 {
    z = z.wrapping_add(0x9E3779B97F4A7C15);
    z = (z ^ (z >> 30)).wrapping_mul(0xBF58476D1CE4E5B9);
    z = (z ^ (z >> 27)).wrapping_mul(0x94D049BB133111EB);
    z ^ (z >> 31)
}

/// Hash a list of words into one seed.
pub fn hash_words(words: &[u64]) -> u64 {
    let mut h = 0x243F6A8885A308D3u64;
    for w in words {
        h = mix(h ^ mix(*w));
    }
    h
}

pub fn hash_str(s: &str) -> u64 {
    let mut h = 0xcbf29ce484222325u64;
    for b in s.bytes() {
        h ^= b as u64;
        h = h.wrapping_mul(0x100000001b3);
    }
    mix(h)
}

impl Prng {
    pub fn new(seed: u64) -> Self {
        Prng(mix(seed ^ 0xD1B54A32D192ED03))
    }
    pub fn next(&mut self) -> u64 {
        self.0 = self.0.wrapping_add(0x9E3779B97F4A7C15);
        let mut z = self.0;
        z = (z ^ (z >> 30)).wrapping_mul(0xBF58476D1CE4E5B9);
        z = (z ^ (z >> 27)).wrapping_mul(0x94D049BB133111EB);
        z ^ (z >> 31)
    }
    /// uniform in 0..n (n > 0)
    pub fn below(&mut self, n: u64) -> u64 {
        if n == 0 {
            return 0;
        }
        self.next() % n
    }
    pub fn range(&mut self, lo: u64, hi_incl: u64) -> u64 {
        lo + self.below(hi_incl - lo + 1)
    }
    /// true with probability num/den
    pub fn chance(&mut self, num: u64, den: u64) -> bool {
        self.below(den) < num
    }
    pub fn pick<'a, T>(&mut self, xs: &'a [T]) -> &'a T {
        &xs[self.below(xs.len() as u64) as usize]
    }
    pub fn fork(&mut self) -> Prng {
        Prng::new(self.next())
    }
    pub fn shuffle<T>(&mut self, xs: &mut [T]) {
        for i in (1..xs.len()).rev() {
            let j = self.below(i as u64 + 1) as usize;
            xs.swap(i, j);
        }
    }
}
