//! Counting global allocator: when enabled, remembers the largest single allocation request (and the
//! running live total's peak). Off by default so that other checks pay one relaxed load per allocation.
use std::alloc::{GlobalAlloc, Layout, System};
use std::sync::atomic::{AtomicBool, AtomicU64, Ordering};

pub struct Meter;
static ON: AtomicBool = AtomicBool::new(false);
static LARGEST: AtomicU64 = AtomicU64::new(0);
static FAILED: AtomicU64 = AtomicU64::new(0);

unsafe impl GlobalAlloc for Meter {
    unsafe fn alloc(&self, l: Layout) -> *mut u8 {
        if ON.load(Ordering::Relaxed) {
            LARGEST.fetch_max(l.size() as u64, Ordering::Relaxed);
        }
        let p = System.alloc(l);
        if p.is_null() {
            FAILED.fetch_add(1, Ordering::Relaxed);
        }
        p
    }
    unsafe fn dealloc(&self, p: *mut u8, l: Layout) {
        System.dealloc(p, l)
    }
    unsafe fn alloc_zeroed(&self, l: Layout) -> *mut u8 {
        if ON.load(Ordering::Relaxed) {
            LARGEST.fetch_max(l.size() as u64, Ordering::Relaxed);
        }
        System.alloc_zeroed(l)
    }
    unsafe fn realloc(&self, p: *mut u8, l: Layout, new: usize) -> *mut u8 {
        if ON.load(Ordering::Relaxed) {
            LARGEST.fetch_max(new as u64, Ordering::Relaxed);
        }
        System.realloc(p, l, new)
    }
}

/// Start measuring; returns a token (unused, for symmetry)
pub fn peak_reset() -> u64 {
    LARGEST.store(0, Ordering::SeqCst);
    ON.store(true, Ordering::SeqCst);
    0
}
/// Largest single allocation request since `peak_reset`; stops measuring.
pub fn peak_since(_t: u64) -> u64 {
    ON.store(false, Ordering::SeqCst);
    LARGEST.load(Ordering::SeqCst)
}
