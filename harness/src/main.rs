//! Verification harness for slawlor/ractor: runs seeded scenarios of the real code under
//! monitors. One process = one shard; scenarios run strictly one at a time (global tables).
mod alloc_meter;
mod ctl;
mod json;
mod prng;
mod probe;
mod props;
mod report;
mod th;
mod trace;
mod vt;

#[global_allocator]
static GLOBAL: alloc_meter::Meter = alloc_meter::Meter;

use std::sync::atomic::{AtomicU64, Ordering};
use std::sync::Mutex;

pub struct Args {
    pub prop: String,
    pub engine: String,
    pub seed: u64,
    pub shard: u64,
    pub nshards: u64,
    pub count: u64,
    pub out: Option<String>,
    pub replay: Option<u64>,
    pub tier: String,
    pub verbose: bool,
}

impl Args {
    /// Scenario indices of this shard: shard, shard+nshards, ... below count
    pub fn indices(&self) -> impl Iterator<Item = u64> + '_ {
        (0..self.count).filter(move |i| i % self.nshards == self.shard)
    }
    pub fn scenario_seed(&self, index: u64) -> u64 {
        prng::hash_words(&[self.seed, prng::hash_str(&self.prop), prng::hash_str(&self.engine), index])
    }
}

/// Panics that were not injected by the harness: (location, message)
pub static FOREIGN_PANICS: Mutex<Vec<(String, String)>> = Mutex::new(Vec::new());
pub static WATCH_STARTED_MS: AtomicU64 = AtomicU64::new(0);
pub static WATCH_SEED: AtomicU64 = AtomicU64::new(0);
static T0: std::sync::OnceLock<std::time::Instant> = std::sync::OnceLock::new();

pub fn now_ms() -> u64 {
    T0.get_or_init(std::time::Instant::now).elapsed().as_millis() as u64 + 1
}

/// Mark the start of a scenario for the wall-clock watchdog.
pub fn watch_begin(seed: u64) {
    WATCH_SEED.store(seed, Ordering::SeqCst);
    WATCH_STARTED_MS.store(now_ms(), Ordering::SeqCst);
}
pub fn watch_end() {
    WATCH_STARTED_MS.store(0, Ordering::SeqCst);
}

pub fn take_foreign_panics() -> Vec<(String, String)> {
    std::mem::take(&mut *FOREIGN_PANICS.lock().unwrap_or_else(|e| e.into_inner()))
}

/// Set by checks whose inputs provoke (contained) panics by design; they are still recorded.
pub static QUIET_PANICS: std::sync::atomic::AtomicBool = std::sync::atomic::AtomicBool::new(false);

fn install_panic_hook() {
    std::panic::set_hook(Box::new(|info| {
        let msg = if let Some(s) = info.payload().downcast_ref::<&str>() {
            s.to_string()
        } else if let Some(s) = info.payload().downcast_ref::<String>() {
            s.clone()
        } else {
            "<non-string panic>".to_string()
        };
        if msg.contains(probe::PANIC_MARK) {
            return;
        }
        let loc = info.location().map(|l| format!("{}:{}", l.file(), l.line())).unwrap_or_default();
        if !QUIET_PANICS.load(Ordering::Relaxed) {
            eprintln!("[harness] foreign panic at {loc}: {msg}");
        }
        FOREIGN_PANICS.lock().unwrap_or_else(|e| e.into_inner()).push((loc, msg));
    }));
}

fn parse_args() -> Args {
    let mut a = Args {
        prop: String::new(),
        engine: "vt".into(),
        seed: 1,
        shard: 0,
        nshards: 1,
        count: 100,
        out: None,
        replay: None,
        tier: "quick".into(),
        verbose: false,
    };
    let v: Vec<String> = std::env::args().skip(1).collect();
    let mut i = 0;
    while i < v.len() {
        let next = |i: &mut usize| -> String {
            *i += 1;
            v.get(*i).cloned().unwrap_or_default()
        };
        match v[i].as_str() {
            "--engine" => a.engine = next(&mut i),
            "--seed" => a.seed = next(&mut i).parse().unwrap_or(1),
            "--shard" => a.shard = next(&mut i).parse().unwrap_or(0),
            "--nshards" => a.nshards = next(&mut i).parse().unwrap_or(1),
            "--count" => a.count = next(&mut i).parse().unwrap_or(100),
            "--out" => a.out = Some(next(&mut i)),
            "--replay" => a.replay = next(&mut i).parse().ok(),
            "--tier" => a.tier = next(&mut i),
            "-v" => a.verbose = true,
            s if a.prop.is_empty() => a.prop = s.to_string(),
            s => {
                eprintln!("unknown arg {s}");
                std::process::exit(2);
            }
        }
        i += 1;
    }
    a
}

fn main() {
    let args = parse_args();
    if args.prop == "SELFTEST" {
        // deliberate defect for the sanitizer build's self-test (engine = race | leak | uaf)
        props::san::selftest(&args.engine);
        return;
    }
    install_panic_hook();
    let _ = ctl::ctl();
    // wall-clock watchdog: a firing is INCONCLUSIVE, never a violation
    std::thread::spawn(|| loop {
        std::thread::sleep(std::time::Duration::from_millis(500));
        let st = WATCH_STARTED_MS.load(Ordering::SeqCst);
        if st != 0 && now_ms().saturating_sub(st) > 120_000 {
            println!("WATCHDOG scenario_seed={} stalled >120s wall", WATCH_SEED.load(Ordering::SeqCst));
            std::process::exit(3);
        }
    });
    let mut rep = report::Report::new(&args.prop, &args.engine);
    props::dispatch(&args, &mut rep);
    let js = rep.to_json().to_string();
    match &args.out {
        Some(p) => std::fs::write(p, js).expect("write out"),
        None => println!("{js}"),
    }
}
