//! E-T: the thread-stress engine. A shared multi-thread tokio runtime hosts the actors; client
//! OS threads (released together by a barrier) issue operations while the H1 controller injects
//! seeded noise at ractor's lock-free gaps. Not bit-reproducible: the recorded history is the witness.
use std::future::Future;
use std::pin::Pin;
use std::sync::atomic::{AtomicBool, Ordering};
use std::sync::{Arc, Barrier};
use std::task::{Context, Poll, Wake, Waker};

use crate::ctl::{ctl, MODE_NOISE};

pub fn runtime(workers: usize) -> tokio::runtime::Runtime {
    tokio::runtime::Builder::new_multi_thread()
        .worker_threads(workers)
        .enable_time()
        .build()
        .expect("runtime")
}

pub fn begin(seed: u64, intensity: u32) {
    let c = ctl();
    c.begin(MODE_NOISE, seed);
    c.set_intensity(intensity);
}
pub fn end() {
    ctl().end();
}

/// Run the closures on fresh OS threads, all released by one barrier; returns their results.
pub fn run_clients<R: Send + 'static>(fs: Vec<Box<dyn FnOnce() -> R + Send>>) -> Vec<R> {
    let n = fs.len();
    let barrier = Arc::new(Barrier::new(n));
    let hs: Vec<_> = fs
        .into_iter()
        .map(|f| {
            let b = barrier.clone();
            std::thread::spawn(move || {
                b.wait();
                f()
            })
        })
        .collect();
    hs.into_iter().map(|h| h.join().expect("client thread panicked")).collect()
}

/// Under Miri threads advance in lock-step (pre-emption every ~100 basic blocks), so relative timing is fixed by
/// path lengths: prefix each client with a seeded amount of busy work so that their operations start in varying orders.
pub fn stagger<R: Send + 'static>(fs: Vec<Box<dyn FnOnce() -> R + Send>>, p: &mut crate::prng::Prng) -> Vec<Box<dyn FnOnce() -> R + Send>> {
    fs.into_iter()
        .map(|c| {
            let n = p.below(6) * 150;
            let y = p.below(5);
            Box::new(move || {
                for _ in 0..n {
                    std::hint::spin_loop();
                }
                for _ in 0..y {
                    std::thread::yield_now();
                }
                c()
            }) as Box<dyn FnOnce() -> R + Send>
        })
        .collect()
}

struct FlagWaker(AtomicBool);
impl Wake for FlagWaker {
    fn wake(self: Arc<Self>) {
        self.0.store(true, Ordering::SeqCst);
    }
    fn wake_by_ref(self: &Arc<Self>) {
        self.0.store(true, Ordering::SeqCst);
    }
}

/// A future polled by hand (no runtime, no deadline): lets a test observe exactly whether a
/// waiter was woken / is ready at a chosen instant.
pub struct Manual<F: Future> {
    fut: Pin<Box<F>>,
    flag: Arc<FlagWaker>,
    pub done: Option<F::Output>,
    pub polls: u32,
}

impl<F: Future> Manual<F> {
    pub fn new(f: F) -> Self {
        Manual { fut: Box::pin(f), flag: Arc::new(FlagWaker(AtomicBool::new(false))), done: None, polls: 0 }
    }
    /// Poll once; returns true when the future has completed.
    pub fn poll(&mut self) -> bool {
        if self.done.is_some() {
            return true;
        }
        let w = Waker::from(self.flag.clone());
        let mut cx = Context::from_waker(&w);
        self.polls += 1;
        if let Poll::Ready(v) = self.fut.as_mut().poll(&mut cx) {
            self.done = Some(v);
            true
        } else {
            false
        }
    }
    pub fn woken(&self) -> bool {
        self.flag.0.load(Ordering::SeqCst)
    }
}

/// Busy-wait (with yields) until `cond` or ~`max_ms` wall milliseconds; returns cond(). A `false`
/// is an *inconclusive* outcome for the caller, never a violation by itself.
pub fn wait_until(max_ms: u64, mut cond: impl FnMut() -> bool) -> bool {
    let t0 = std::time::Instant::now();
    loop {
        if cond() {
            return true;
        }
        if t0.elapsed().as_millis() as u64 > max_ms {
            return cond();
        }
        std::thread::sleep(std::time::Duration::from_micros(50));
    }
}

static LEAK_SEEN: AtomicBool = AtomicBool::new(false);

/// Thread engine: actors killed by an exit finish asynchronously, so the global tables are polled until
/// empty. A true leak is permanent (waiting cannot hide it); once one has been reported in this process
/// the wait is shortened so that a broken tree does not make the run crawl.
pub fn settle_leaks() -> Vec<String> {
    let max = if LEAK_SEEN.load(Ordering::SeqCst) { 400 } else { 10_000 };
    wait_until(max, || crate::vt::global_leaks().is_empty());
    let l = crate::vt::global_leaks();
    if !l.is_empty() {
        LEAK_SEEN.store(true, Ordering::SeqCst);
    }
    l
}
