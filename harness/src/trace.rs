//! Append-only event trace with one global logical clock.
use std::sync::atomic::{AtomicU64, Ordering};
use std::sync::Mutex;

pub static CLOCK: AtomicU64 = AtomicU64::new(1);

pub fn stamp() -> u64 {
    CLOCK.fetch_add(1, Ordering::SeqCst)
}

#[derive(Clone, Copy, Debug, PartialEq, Eq, Hash, PartialOrd, Ord)]
pub enum Cb {
    PreStart = 0,
    PostStart = 1,
    Handle = 2,
    SupEvt = 3,
    PostStop = 4,
}

#[derive(Clone, Copy, Debug, PartialEq, Eq, Hash)]
pub enum How {
    Ok,
    Err,
    Panic,
    Cancelled,
}

#[derive(Clone, Copy, Debug, PartialEq, Eq, Hash)]
pub enum SupKind {
    Started,
    Terminated,
    Failed,
    PgJoin,
    PgLeave,
    PidSpawn,
    PidTerminate,
}

#[derive(Clone, Debug)]
pub enum Ev {
    Enter { uid: u64, cb: Cb, msg: u64 },
    Tick { uid: u64, cb: Cb, n: u32 },
    Exit { uid: u64, cb: Cb, how: How },
    /// a user work item reached its handler
    Handled { uid: u64, sender: u32, seq: u64 },
    /// a work item's token was dropped (handled = it had reached a handler)
    Dropped { sender: u32, seq: u64, handled: bool },
    /// supervision event received by probe `uid`
    Sup { uid: u64, kind: SupKind, who: u64, detail: String, has_state: bool, state_val: u64, extra: Vec<u64> },
    /// client-side operation boundary (call before invoking, ret after the result is in hand)
    Call { client: u32, op: &'static str, arg: u64 },
    Ret { client: u32, op: &'static str, arg: u64, res: i64 },
    Note(String),
}

#[derive(Clone, Debug)]
pub struct Rec {
    pub ts: u64,
    /// virtual (or real) milliseconds since scenario start
    pub ms: u64,
    pub ev: Ev,
}

pub struct Trace {
    pub recs: Mutex<Vec<Rec>>,
    pub online_violations: Mutex<Vec<(String, String)>>,
    pub t0: tokio::time::Instant,
}

impl Trace {
    pub fn new() -> Self {
        Trace {
            recs: Mutex::new(Vec::with_capacity(256)),
            online_violations: Mutex::new(Vec::new()),
            t0: tokio::time::Instant::now(),
        }
    }
    pub fn now_ms(&self) -> u64 {
        tokio::time::Instant::now().saturating_duration_since(self.t0).as_millis() as u64
    }
    pub fn log(&self, ev: Ev) -> u64 {
        let ms = self.now_ms();
        let mut g = self.recs.lock().unwrap_or_else(|e| e.into_inner());
        let ts = stamp();
        g.push(Rec { ts, ms, ev });
        ts
    }
    pub fn note(&self, s: impl Into<String>) {
        self.log(Ev::Note(s.into()));
    }
    pub fn online_violation(&self, clause: &str, detail: String) {
        self.online_violations
            .lock()
            .unwrap_or_else(|e| e.into_inner())
            .push((clause.to_string(), detail));
    }
    pub fn snapshot(&self) -> Vec<Rec> {
        self.recs.lock().unwrap_or_else(|e| e.into_inner()).clone()
    }
    pub fn len(&self) -> usize {
        self.recs.lock().unwrap_or_else(|e| e.into_inner()).len()
    }
    pub fn render(recs: &[Rec], max: usize) -> Vec<String> {
        let skip = recs.len().saturating_sub(max);
        recs.iter().skip(skip).map(|r| format!("#{} t={}ms {:?}", r.ts, r.ms, r.ev)).collect()
    }
}
