//! E-A: the deterministic virtual-time engine (current_thread runtime, paused clock, poll interposer).
use std::future::Future;
use std::time::Duration;

use crate::ctl::{ctl, MODE_SCHED};

pub const HORIZON_S: u64 = 100_000;

/// Run one scenario to completion on a fresh paused-clock current_thread runtime.
/// Returns `None` if the body was still pending when virtual time reached the horizon
/// (i.e. nothing could wake it any more: deterministic "stuck").
pub fn run<T>(seed: u64, defer_pct: u64, body: impl Future<Output = T>) -> Option<T> {
    let c = ctl();
    c.begin(MODE_SCHED, seed);
    c.set_defer_percent(defer_pct);
    let rt = tokio::runtime::Builder::new_current_thread()
        .enable_all()
        .start_paused(true)
        .build()
        .expect("runtime");
    let r = rt.block_on(async { tokio::time::timeout(Duration::from_secs(HORIZON_S), body).await.ok() });
    // dropping the runtime drops every remaining task: lifecycle guards run and clean the global tables
    drop(rt);
    c.end();
    r
}

/// Spawn a harness task that is subject to the same poll interposer as ractor's own tasks.
pub fn spawn_h<F>(name: &str, fut: F) -> tokio::task::JoinHandle<F::Output>
where
    F: Future + Send + 'static,
    F::Output: Send + 'static,
{
    tokio::spawn(ractor::verif::wrap_spawn(Some(name), fut))
}

/// Let everything runnable run: sleeping virtual time only completes after the system went idle.
pub async fn settle() {
    tokio::time::sleep(Duration::from_millis(1)).await;
}

/// Quiescence: sleep `secs` of virtual time (completes only after repeated run-to-idle).
pub async fn quiesce(secs: u64) {
    tokio::time::sleep(Duration::from_secs(secs)).await;
}

/// Leak oracle: the process-global tables must be empty between scenarios.
pub fn global_leaks() -> Vec<String> {
    let mut out = vec![];
    let names = ractor::registry::registered();
    if !names.is_empty() {
        out.push(format!("name registry not empty: {names:?}"));
    }
    #[cfg(feature = "cluster")]
    {
        let pids = ractor::registry::get_all_pids();
        if !pids.is_empty() {
            out.push(format!("pid registry not empty: {:?}", pids.iter().map(|c| c.get_id()).collect::<Vec<_>>()));
        }
        let l = ractor::registry::pid_registry::verif_listeners();
        if !l.is_empty() {
            out.push(format!("pid listeners not empty: {l:?}"));
        }
    }
    let pg = ractor::pg::verif_snapshot();
    if !pg.map.is_empty() || !pg.index.is_empty() || !pg.world_listeners.is_empty() || !pg.relations.is_empty() {
        out.push(format!("pg tables not empty: {pg:?}"));
    }
    out
}

/// Let the currently runnable tasks run a few rounds without advancing virtual time.
pub async fn settle_yield() {
    for _ in 0..8 {
        tokio::task::yield_now().await;
    }
}
