//! The process-wide verification controller installed into `ractor::verif`.
//!
//! Modes:
//!  * `Off`      — count point hits only.
//!  * `Sched`    — single-threaded engine (E-A): seeded defer decisions in the poll interposer,
//!                 optional abort-at-poll-k injection; points are counted and (optionally) logged.
//!  * `Noise`    — thread engine (E-T): seeded per-thread delays at the points, optional rendezvous.
//!  * `YieldOnly`— Miri engine: `yield_now` at points (Miri switches threads on a yield).

use std::collections::HashMap;
use std::sync::atomic::{AtomicBool, AtomicU32, AtomicU64, AtomicU8, Ordering};
use std::sync::{Arc, Mutex, OnceLock};

use ractor::verif::{Controller, PollDecision, TaskInfo};

use crate::prng::{mix, Prng};

pub const MODE_OFF: u8 = 0;
pub const MODE_SCHED: u8 = 1;
pub const MODE_NOISE: u8 = 2;
pub const MODE_YIELD: u8 = 3;

pub const NPOINTS: usize = 64;

/// Array slot of a point id: ordinary points use their id, the (few) in-lock points 1000+k use slot 56+k.
fn slot(id: u32) -> Option<usize> {
    if id >= ractor::verif::pt::IN_LOCK_BASE {
        let k = (id - ractor::verif::pt::IN_LOCK_BASE) as usize;
        (k < 8).then_some(56 + k)
    } else {
        ((id as usize) < 56).then_some(id as usize)
    }
}

#[derive(Default)]
struct SchedState {
    prng: Option<Prng>,
    defer_num: u64, // defer probability = defer_num / 100
    consecutive: HashMap<u64, u32>,
    /// abort injection: (task name, poll number at which to abort)
    abort_at: Option<(String, u64)>,
    abort_handles: HashMap<String, tokio::task::AbortHandle>,
    abort_fired: bool,
    /// polls seen per task name
    polls_by_name: HashMap<String, u64>,
    decisions: u64,
    defers: u64,
    point_log: Vec<(u32, u64, u64)>,
    log_points: bool,
    overrides: HashMap<u32, Vec<u64>>,
}

pub struct Ctl {
    mode: AtomicU8,
    seed: AtomicU64,
    intensity: AtomicU32, // 0..100 for noise mode
    pub hits: [AtomicU64; NPOINTS],
    pub inlock_hits: AtomicU64,
    sched: Mutex<SchedState>,
    // rendezvous: point id -> partner id (0 = none)
    rdv_partner: [AtomicU32; NPOINTS],
    rdv_at: [AtomicBool; NPOINTS],
    pub rdv_met: AtomicU64,
    thread_ctr: AtomicU64,
    /// optional observer of every point hit (must not block when called for an in-lock point)
    tap_on: AtomicBool,
    tap: std::sync::RwLock<Option<Tap>>,
    /// how long a thread waits at a rendezvous point for its partner (spin iterations)
    pub rdv_spins: AtomicU32,
}

pub type Tap = Arc<dyn Fn(u32, u64, u64) + Send + Sync>;

static CTL: OnceLock<Arc<Ctl>> = OnceLock::new();

thread_local! {
    static TL_PRNG: std::cell::RefCell<(u64, Prng)> = std::cell::RefCell::new((u64::MAX, Prng::new(0)));
}

pub fn ctl() -> &'static Arc<Ctl> {
    CTL.get_or_init(|| {
        let c = Arc::new(Ctl {
            mode: AtomicU8::new(MODE_OFF),
            seed: AtomicU64::new(0),
            intensity: AtomicU32::new(30),
            hits: std::array::from_fn(|_| AtomicU64::new(0)),
            inlock_hits: AtomicU64::new(0),
            sched: Mutex::new(SchedState::default()),
            rdv_partner: std::array::from_fn(|_| AtomicU32::new(0)),
            rdv_at: std::array::from_fn(|_| AtomicBool::new(false)),
            rdv_spins: AtomicU32::new(2000),
            tap_on: AtomicBool::new(false),
            tap: std::sync::RwLock::new(None),
            rdv_met: AtomicU64::new(0),
            thread_ctr: AtomicU64::new(0),
        });
        ractor::verif::set_controller(Some(c.clone() as Arc<dyn Controller>));
        c
    })
}

impl Ctl {
    /// Start a scenario in the given mode with the given seed.
    pub fn begin(&self, mode: u8, seed: u64) {
        self.seed.store(seed, Ordering::SeqCst);
        let mut s = self.sched.lock().unwrap();
        *s = SchedState::default();
        s.prng = Some(Prng::new(seed ^ 0x5ced));
        s.defer_num = 0;
        for p in &self.rdv_partner {
            p.store(0, Ordering::SeqCst);
        }
        for p in &self.rdv_at {
            p.store(false, Ordering::SeqCst);
        }
        self.rdv_spins.store(2000, Ordering::SeqCst);
        self.mode.store(mode, Ordering::SeqCst);
    }
    pub fn end(&self) {
        self.mode.store(MODE_OFF, Ordering::SeqCst);
    }
    pub fn set_defer_percent(&self, pct: u64) {
        self.sched.lock().unwrap().defer_num = pct;
    }
    pub fn set_intensity(&self, pct: u32) {
        self.intensity.store(pct, Ordering::SeqCst);
    }
    pub fn set_log_points(&self, on: bool) {
        self.sched.lock().unwrap().log_points = on;
    }
    pub fn take_point_log(&self) -> Vec<(u32, u64, u64)> {
        std::mem::take(&mut self.sched.lock().unwrap().point_log)
    }
    /// Inject an abort of the task called `name` at its `k`-th poll (requires `register_abort`).
    pub fn set_abort_at(&self, name: &str, k: u64) {
        self.sched.lock().unwrap().abort_at = Some((name.to_string(), k));
    }
    pub fn register_abort(&self, name: &str, h: tokio::task::AbortHandle) {
        self.sched.lock().unwrap().abort_handles.insert(name.to_string(), h);
    }
    pub fn abort_fired(&self) -> bool {
        self.sched.lock().unwrap().abort_fired
    }
    pub fn polls_of(&self, name: &str) -> u64 {
        *self.sched.lock().unwrap().polls_by_name.get(name).unwrap_or(&0)
    }
    pub fn sched_stats(&self) -> (u64, u64) {
        let s = self.sched.lock().unwrap();
        (s.decisions, s.defers)
    }
    pub fn set_tap(&self, t: Option<Tap>) {
        self.tap_on.store(t.is_some(), Ordering::SeqCst);
        *self.tap.write().unwrap() = t;
    }
    /// Pair two points. An in-lock point may be paired too: the thread then waits *under that lock*, for at most `rdv_spins`
    /// spin iterations (bounded, so it cannot deadlock) — only meaningful when the partner point can be reached without the lock.
    pub fn set_rendezvous(&self, a: u32, b: u32) {
        if let (Some(sa), Some(sb)) = (slot(a), slot(b)) {
            self.rdv_partner[sa].store(sb as u32 + 1, Ordering::SeqCst);
            self.rdv_partner[sb].store(sa as u32 + 1, Ordering::SeqCst);
        }
    }
    pub fn push_override(&self, kind: u32, v: u64) {
        self.sched.lock().unwrap().overrides.entry(kind).or_default().push(v);
    }
    pub fn hit_snapshot(&self) -> Vec<u64> {
        self.hits.iter().map(|h| h.load(Ordering::Relaxed)).collect()
    }

    fn with_thread_prng<R>(&self, f: impl FnOnce(&mut Prng) -> R) -> R {
        let seed = self.seed.load(Ordering::Relaxed);
        TL_PRNG.with(|cell| {
            let mut g = cell.borrow_mut();
            if g.0 != seed {
                let t = self.thread_ctr.fetch_add(1, Ordering::Relaxed);
                *g = (seed, Prng::new(mix(seed) ^ mix(t + 1)));
            }
            f(&mut g.1)
        })
    }

    fn noise(&self, id: u32, in_lock: bool) {
        let intensity = self.intensity.load(Ordering::Relaxed) as u64;
        let (r, amount) = self.with_thread_prng(|p| (p.below(100), p.below(1000)));
        if r >= intensity {
            return;
        }
        // rendezvous first (under a lock only when the scenario paired an in-lock point explicitly: bounded spin)
        if let Some(me) = slot(id) {
            let partner = self.rdv_partner[me].load(Ordering::Relaxed);
            if partner != 0 {
                let partner = (partner - 1) as usize;
                self.rdv_at[me].store(true, Ordering::SeqCst);
                let mut met = false;
                for _ in 0..self.rdv_spins.load(Ordering::Relaxed) {
                    if self.rdv_at[partner].load(Ordering::SeqCst) {
                        met = true;
                        break;
                    }
                    std::hint::spin_loop();
                }
                self.rdv_at[me].store(false, Ordering::SeqCst);
                if met {
                    self.rdv_met.fetch_add(1, Ordering::Relaxed);
                }
                return;
            }
        }
        match amount % 10 {
            0..=3 => std::thread::yield_now(),
            4..=7 => {
                for _ in 0..(amount * 3) {
                    std::hint::spin_loop();
                }
            }
            _ => {
                if in_lock {
                    std::thread::yield_now();
                } else {
                    std::thread::sleep(std::time::Duration::from_micros(1 + amount % 60));
                }
            }
        }
    }
}

impl Controller for Ctl {
    fn point(&self, id: u32, a: u64, b: u64) {
        let in_lock = id >= ractor::verif::pt::IN_LOCK_BASE;
        if in_lock {
            self.inlock_hits.fetch_add(1, Ordering::Relaxed);
        } else if (id as usize) < NPOINTS {
            self.hits[id as usize].fetch_add(1, Ordering::Relaxed);
        }
        if self.tap_on.load(Ordering::Relaxed) {
            let t = self.tap.read().unwrap().clone();
            if let Some(t) = t {
                t(id, a, b);
            }
        }
        match self.mode.load(Ordering::Relaxed) {
            MODE_NOISE => self.noise(id, in_lock),
            MODE_YIELD => {
                // (Miri) yield at about half of the points, chosen by the per-thread seeded PRNG
                // (Miri) a per-scenario subset of the points yields almost always, the rest rarely: with
                // -Zmiri-preemption-rate=0 this is a seeded scheduler over the H1 points
                if !in_lock && (id as usize) < 56 {
                    let partner = self.rdv_partner[id as usize].load(Ordering::Relaxed);
                    if partner != 0 {
                        let partner = partner - 1;
                        // rendezvous by yielding: wait (bounded) until the partner thread stands at its point
                        self.rdv_at[id as usize].store(true, Ordering::SeqCst);
                        let mut met = false;
                        for _ in 0..60 {
                            if self.rdv_at[partner as usize].load(Ordering::SeqCst) {
                                met = true;
                                break;
                            }
                            std::thread::yield_now();
                        }
                        if met {
                            self.rdv_met.fetch_add(1, Ordering::Relaxed);
                            // let the partner observe us before the flag is cleared
                            std::thread::yield_now();
                        }
                        self.rdv_at[id as usize].store(false, Ordering::SeqCst);
                        return;
                    }
                }
                let mask = crate::prng::mix(self.seed.load(Ordering::Relaxed) ^ 0x9d);
                let hot = (mask >> (id % 64)) & 1 == 1;
                let r = self.with_thread_prng(|p| p.below(100));
                if (hot && r < 85) || (!hot && r < 8) {
                    std::thread::yield_now()
                }
            }
            MODE_SCHED => {
                let mut s = self.sched.lock().unwrap();
                if s.log_points && s.point_log.len() < 100_000 {
                    s.point_log.push((id, a, b));
                }
            }
            _ => {}
        }
    }

    fn before_poll(&self, task: &TaskInfo, _poll_no: u64) -> PollDecision {
        if self.mode.load(Ordering::Relaxed) != MODE_SCHED {
            return PollDecision::Run;
        }
        let mut s = self.sched.lock().unwrap();
        s.decisions += 1;
        if let Some(name) = &task.name {
            let n = {
                let e = s.polls_by_name.entry(name.clone()).or_insert(0);
                *e += 1;
                *e
            };
            if !s.abort_fired {
                if let Some((an, k)) = &s.abort_at {
                    if an == name && n >= *k {
                        if let Some(h) = s.abort_handles.get(name) {
                            h.abort();
                            s.abort_fired = true;
                            return PollDecision::Defer;
                        }
                    }
                }
            }
        }
        let pct = s.defer_num;
        if pct == 0 {
            return PollDecision::Run;
        }
        let c = *s.consecutive.get(&task.seq).unwrap_or(&0);
        let defer = c < 3 && s.prng.as_mut().map(|p| p.below(100) < pct).unwrap_or(false);
        if defer {
            s.consecutive.insert(task.seq, c + 1);
            s.defers += 1;
            PollDecision::Defer
        } else {
            s.consecutive.remove(&task.seq);
            PollDecision::Run
        }
    }

    fn override_u64(&self, kind: u32) -> Option<u64> {
        let mut s = self.sched.lock().unwrap();
        let v = s.overrides.get_mut(&kind)?;
        if v.is_empty() {
            None
        } else {
            Some(v.remove(0))
        }
    }
}
