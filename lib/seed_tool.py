#!/usr/bin/env python3
"""Seeded-change bookkeeping.

  seed_tool.py import  <PROP> <m>   copy /tmp/seedout/<PROP>/<m>{.diff,_demo.diff,.json} into /verif/seeded/<PROP>-<m>/
  seed_tool.py confirm <PROP> <m>   in a scratch worktree (created under /tmp, removed afterwards): demo passes on the clean
                                    tree and fails with the seeded change applied; records the result in meta.json
  seed_tool.py detect  <PROP> <m> [CHECK ...]
                                    apply the change to /repo, run ./check for the property (and any extra checks), undo;
                                    records per check: exit code, clauses of the violations reported
The seeded changes are never committed in /repo.
"""
import json
import os
import shutil
import subprocess
import sys
import time

ROOT = "/verif"
SEEDED = os.path.join(ROOT, "seeded")
ENV = dict(os.environ, CARGO_NET_OFFLINE="true")


def d(prop, m):
    return os.path.join(SEEDED, f"{prop}-{m}")


def load_meta(prop, m):
    with open(os.path.join(d(prop, m), "meta.json")) as f:
        return json.load(f)


def save_meta(prop, m, meta):
    with open(os.path.join(d(prop, m), "meta.json"), "w") as f:
        json.dump(meta, f, indent=1)
        f.write("\n")


def cmd_import(prop, m, srcroot="/tmp/seedout"):
    src = f"{srcroot}/{prop}"
    os.makedirs(d(prop, m), exist_ok=True)
    shutil.copy(f"{src}/{m}.diff", os.path.join(d(prop, m), "patch.diff"))
    shutil.copy(f"{src}/{m}_demo.diff", os.path.join(d(prop, m), "demo.diff"))
    with open(f"{src}/{m}.json") as f:
        agent = json.load(f)
    meta = {"property": prop, "id": f"{prop}-{m}", "source": "fresh sub-agent given only the property text and a scratch worktree", "agent_report": agent}
    save_meta(prop, m, meta)
    print("imported", d(prop, m))


def sh(cmd, cwd, timeout=3600):
    t0 = time.time()
    try:
        r = subprocess.run(cmd, cwd=cwd, env=ENV, shell=True, stdout=subprocess.PIPE, stderr=subprocess.STDOUT, text=True, timeout=timeout)
        return r.returncode, r.stdout, time.time() - t0
    except subprocess.TimeoutExpired as e:
        out = e.stdout.decode() if isinstance(e.stdout, bytes) else (e.stdout or "")
        return 124, out, time.time() - t0


def patch_path(prop, m):
    """The change as written by the sub-agent, or its rebase onto a later `fix:` commit that touched the same hunk."""
    r = os.path.join(d(prop, m), "patch_rebased.diff")
    return r if os.path.exists(r) else os.path.join(d(prop, m), "patch.diff")


def cmd_confirm(prop, m):
    meta = load_meta(prop, m)
    wt = f"/tmp/confirm-{prop}-{m}"
    subprocess.run(["git", "-C", "/repo", "worktree", "remove", "--force", wt], stdout=subprocess.DEVNULL, stderr=subprocess.DEVNULL)
    subprocess.run(["git", "-C", "/repo", "worktree", "add", "--detach", wt, "HEAD"], check=True, stdout=subprocess.DEVNULL, stderr=subprocess.DEVNULL)
    try:
        demo_cmd = meta["agent_report"]["demo_cmd"]
        # one shared target dir for all confirmations (removed by the caller at the end)
        demo_cmd_env = f"CARGO_TARGET_DIR={os.environ.get('CONFIRM_TARGET', '/tmp/confirm-target')} {demo_cmd}"
        subprocess.run(["git", "apply", os.path.join(d(prop, m), "demo.diff")], cwd=wt, check=True)
        rc0, out0, t0 = sh(demo_cmd_env, wt, 1800)
        subprocess.run(["git", "apply", patch_path(prop, m)], cwd=wt, check=True)
        rc1, out1, t1 = sh(demo_cmd_env, wt, 1800)
        meta["confirmation"] = {
            "demo_cmd": demo_cmd,
            "clean_tree": {"exit": rc0, "seconds": round(t0, 1), "tail": out0[-600:]},
            "with_change": {"exit": rc1, "seconds": round(t1, 1), "tail": out1[-1200:]},
            "confirmed": rc0 == 0 and rc1 != 0,
        }
        save_meta(prop, m, meta)
        print(f"{prop}-{m}: clean exit={rc0} with-change exit={rc1} confirmed={rc0 == 0 and rc1 != 0}")
    finally:
        subprocess.run(["git", "-C", "/repo", "worktree", "remove", "--force", wt], stdout=subprocess.DEVNULL, stderr=subprocess.DEVNULL)


def cmd_detect(prop, m, checks):
    meta = load_meta(prop, m)
    st = subprocess.run(["git", "-C", "/repo", "status", "--porcelain"], stdout=subprocess.PIPE, text=True).stdout.strip()
    if st:
        print("refusing: /repo is not clean:\n" + st)
        sys.exit(2)
    subprocess.run(["git", "-C", "/repo", "apply", patch_path(prop, m)], check=True)
    res = meta.setdefault("detection", {})
    try:
        for c in checks or [prop]:
            rc, out, t = sh(f"./check {c}", ROOT, 7200)
            clauses = sorted(set(l.split("clause=")[1].split(" ")[0] for l in out.splitlines() if "clause=" in l))
            viol = [l for l in out.splitlines() if l.startswith("VIOLATION")]
            res[c] = {"tier": "quick", "exit": rc, "violation_lines": len(viol), "clauses": clauses, "seconds": round(t, 1),
                      "detected": rc == 1 and len(viol) > 0}
            print(f"{prop}-{m} check {c}: exit={rc} detected={res[c]['detected']} clauses={clauses} ({t:.0f}s)")
    finally:
        subprocess.run(["git", "-C", "/repo", "checkout", "--", "."], check=True)
        subprocess.run(["git", "-C", "/repo", "clean", "-fdq"], check=True)
    save_meta(prop, m, meta)


if __name__ == "__main__":
    a = sys.argv[1:]
    if len(a) < 3:
        print(__doc__)
        sys.exit(2)
    if a[0] == "import":
        cmd_import(a[1], a[2], *(a[3:4]))
    elif a[0] == "confirm":
        cmd_confirm(a[1], a[2])
    elif a[0] == "detect":
        cmd_detect(a[1], a[2], a[3:])
