#!/bin/bash
# Runs the harness under Miri (interpreter: UB, data races, weak-memory emulation). Usage: miri_run.sh <harness args>
# Even shards run with pre-emption off (scheduling decided by the H1 yield points only), odd shards with Miri's
# default random pre-emption; every shard gets its own Miri seed.
shard=0
prev=""
for a in "$@"; do
  if [ "$prev" = "--shard" ]; then shard="$a"; fi
  prev="$a"
done
flags="-Zmiri-disable-isolation -Zmiri-ignore-leaks -Zmiri-seed=$((shard + 1))"
if [ $((shard % 2)) -eq 0 ]; then flags="$flags -Zmiri-preemption-rate=0"; fi
cd /verif/harness || exit 3
export CARGO_NET_OFFLINE=true
export MIRIFLAGS="$flags"
exec cargo +nightly miri run -q --offline --target-dir /verif/target/miri --no-default-features -- "$@"
