#!/usr/bin/env python3
"""Prints the DESIGN.md table rows for one wave of seeded changes from seeded/<id>/meta.json (what each change does, which check
reports it with which clauses at the quick tier, and whether the check as it stood when the change arrived reported it)."""
import glob, json, os, sys
wave = sys.argv[1] if len(sys.argv) > 1 else "m5,m6"
for m in sorted(glob.glob("/verif/seeded/*/meta.json")):
    meta = json.load(open(m))
    mid = meta["id"]
    if mid.split("-")[1] not in wave.split(","):
        continue
    a = meta["agent_report"]
    det = meta.get("detection", {})
    hits = [f"{c} {', '.join(r['clauses'][:3])}" for c, r in det.items() if r.get("detected")]
    first = "caught" if not meta.get("first_run_missed") else "**missed**"
    what = a["name"].replace("-", " ")
    print(f"| {mid.replace('-', '‑')} | {what} | {'; '.join(hits) if hits else '— (not reported)'} | {first} |")
