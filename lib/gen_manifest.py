#!/usr/bin/env python3
"""Regenerate /verif/MANIFEST.json from lib/props.py (claimed checks) and properties.jsonl."""
import json, os, sys
ROOT = os.path.dirname(os.path.dirname(os.path.abspath(__file__)))
sys.path.insert(0, os.path.join(ROOT, "lib"))
from props import PROPS, NOT_APPLICABLE, HOOK_COMMITS  # noqa

ids = [json.loads(l)["id"] for l in open(os.path.join(ROOT, "properties.jsonl"))]
checks = []
for pid in ids:
    if pid not in PROPS:
        continue
    c = PROPS[pid]
    checks.append({
        "property_id": pid,
        "quick_cmd": f"./check {pid} --tier quick",
        "thorough_cmd": f"./check {pid} --tier thorough",
        "evidence_file": f"/verif/evidence/{pid}.json",
        "replay_cmd_template": f"./check {pid} --replay {{path}}",
        "engine": "+".join(sorted({r["engine"] for r in c["runs"]})),
        "level_claimed": {"category": c["level"], "text": c["level_text"], "design_ref": c.get("design_ref", "DESIGN.md §4 " + pid)},
        "level_note": c["level_note"],
        "technique": c["technique"],
    })
na = [{"property_id": pid, "reason": NOT_APPLICABLE.get(pid, "check not built yet (work in progress; see DESIGN.md §4)")}
      for pid in ids if pid not in PROPS]
m = {
    "version": 1,
    "setup_cmd": "./check --setup",
    "hooks": {
        "guard": "cargo feature `verif` (ractor/verif; ractor_cluster/verif), off by default",
        "enable": "harness/Cargo.toml depends on /repo/ractor (and /repo/ractor_cluster) with features=[\"verif\"]; ./check builds it with cargo build --release --offline (configurations main, alt, miri, tsan, asan: lib/props.py BUILDS)",
        "baseline_off_cmd": "cd /repo && cargo nextest run --workspace --no-fail-fast --offline --test-threads 8 || cargo test --workspace --no-fail-fast --offline",
        "source_commits": HOOK_COMMITS,
        "add_only": True,
    },
    "engines": [
        {"name": "E-A vt", "path": "harness/src/vt.rs", "kind_free_text": "deterministic virtual-time engine: tokio current_thread + paused clock + seeded poll interposer (H2), CutAfter / abort-at-poll-k crash injection, quiescence oracle"},
        {"name": "E-T th", "path": "harness/src/th.rs", "kind_free_text": "thread-stress engine: multi-thread runtime + client OS threads, seeded noise / rendezvous at H1 points, global logical clock stamps at the client boundary"},
        {"name": "E-M miri", "path": "harness/src/props (miri subcommands), lib/miri_run.sh", "serves_properties": ["C06", "C07", "C10", "C11"], "kind_free_text": "detached-cell thread scenarios under Miri (UB, data races, weak memory emulation), yield/rendezvous scheduling at the H1 points"},
        {"name": "E-S sanitizers", "path": "harness/src/props/san.rs, check (report parsing, self-test), lib/tsan.supp", "kind_free_text": "the harness built with ThreadSanitizer (-Zbuild-std) and with AddressSanitizer+LeakSanitizer: quiet canary workloads without a shared log, slices of each property's E-T scenarios under tsan and of its single-threaded engines under asan; a deliberate race / use-after-free / leak must be reported first"},
        {"name": "E-TCP tcp", "path": "harness/src/props/tcp.rs", "serves_properties": ["C17", "C18", "C19", "C20"], "kind_free_text": "two NodeServers over real loopback TCP (listener, client_connect, cuttable fragmenting relay, raw-socket adversaries); deadline-free clauses only (fences, end states)"},
        {"name": "ser", "path": "harness/src/props/ser.rs", "serves_properties": ["C01", "C02", "C04"], "kind_free_text": "wire-format delivery (send_serialized) mixed with typed sends on the virtual-time engine"},
        {"name": "dtab", "path": "harness/src/props/mtab.rs", "serves_properties": ["C10", "C11"], "kind_free_text": "detached-cell registry / pg tables scenario (native under H1 noise, under tsan, under Miri) with a history-free end-state oracle"},
    ],
    "checks": checks,
    "not_applicable": na,
    "notes": "All checks are runtime monitors over executions of the real code (see DESIGN.md). Verdicts are three-valued; inconclusive shards are listed in the evidence and retried.",
}
json.dump(m, open(os.path.join(ROOT, "MANIFEST.json"), "w"), indent=1)
print("manifest:", len(checks), "checks,", len(na), "not claimed")
