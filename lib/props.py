"""Per-property run tables for ./check (engines, builds, scenario counts per tier)."""

BUILDS = {
    "main": {
        "cmd": ["cargo", "build", "--release", "--offline"],
        "bin": "/verif/target/release/harness",
    },
    "alt": {
        "cmd": ["cargo", "build", "--release", "--offline", "--no-default-features", "--features", "alt",
                "--target-dir", "/verif/target/alt"],
        "bin": "/verif/target/alt/release/harness",
        "setup": False,
    },
}

HOOK_COMMITS = ["9bb871a", "5fa190b"]

# properties not claimed, with the reason (filled while the checks are being built)
NOT_APPLICABLE = {}

PROPS = {
    "C01": {
        "level": "exploration",
        "technique": "runtime monitoring: online overlap flag + offline lifecycle-order automaton over callback enter/exit traces of scripted probe actors, under seeded schedule perturbation (poll interposer) and fault injection",
        "level_text": ("Exploration: tens of thousands (quick) to a million (thorough) seeded executions of the real actor "
                       "runtime with scripted callbacks, concurrent senders/stoppers/killers/children and injected panics/Errs; "
                       "an online monitor flags any overlapping callback and an offline automaton checks the lifecycle order "
                       "per actor. Held on the executions observed, not a proof."),
        "level_note": ("Trusts the harness Probe's enter/exit logging (drop guard), tokio's scheduler, and that a spurious "
                       "Pending + self-wake is legal executor behaviour. Covers Send actors on the tokio backend; "
                       "thread-local / async-trait variants are covered by their own runs where listed in the evidence."),
        "rule": ("seeded scenarios: 1 subject Probe (+supervisor, 0-2 self-dying children) with scripted callback bodies "
                 "(yields, virtual sleeps, self-sends, child spawns, panic/Err injection), 1-4 concurrent senders, 0-2 "
                 "stop/kill/drain requesters; the poll interposer picks which ready task runs next. Non-trivial = the "
                 "subject ran >= 2 callbacks and >= 1 concurrent requester acted; distinct = distinct hash of the "
                 "subject's (callback, exit-kind) sequence plus the sequence of ports its loop picked (H1 LOOP_PICKED)."),
        "assumptions": ["harness Probe callbacks log enter/exit faithfully (drop guard)",
                        "tokio current_thread scheduler + spurious Pending/self-wake are legal executor behaviour"],
        "runs": [
            {"engine": "vt", "quick": 20000, "thorough": 1000000,
             "what": "E-A virtual-time engine, poll interposer with seeded defer decisions"},
        ],
    },
}
