"""Per-property run tables for ./check (engines, builds, scenario counts per tier)."""

BUILDS = {
    "main": {
        "cmd": ["cargo", "build", "--release", "--offline"],
        "bin": "/verif/target/release/harness",
    },
    "alt": {
        "cmd": ["cargo", "build", "--release", "--offline", "--no-default-features", "--features", "alt",
                "--target-dir", "/verif/target/alt"],
        "bin": "/verif/target/alt/release/harness",
        "setup": False,
    },
}

HOOK_COMMITS = ["9bb871a", "5fa190b"]

# properties not claimed, with the reason (filled while the checks are being built)
NOT_APPLICABLE = {}

PROPS = {
    "C01": {
        "level": "exploration",
        "technique": "runtime monitoring: online overlap flag + offline lifecycle-order automaton over callback enter/exit traces of scripted probe actors, under seeded schedule perturbation (poll interposer) and fault injection",
        "level_text": ("Exploration: tens of thousands (quick) to a million (thorough) seeded executions of the real actor "
                       "runtime with scripted callbacks, concurrent senders/stoppers/killers/children and injected panics/Errs; "
                       "an online monitor flags any overlapping callback and an offline automaton checks the lifecycle order "
                       "per actor. Held on the executions observed, not a proof."),
        "level_note": ("Trusts the harness Probe's enter/exit logging (drop guard), tokio's scheduler, and that a spurious "
                       "Pending + self-wake is legal executor behaviour. Covers Send actors on the tokio backend; "
                       "thread-local / async-trait variants are covered by their own runs where listed in the evidence."),
        "rule": ("seeded scenarios: 1 subject Probe (+supervisor, 0-2 self-dying children) with scripted callback bodies "
                 "(yields, virtual sleeps, self-sends, child spawns, panic/Err injection), 1-4 concurrent senders, 0-2 "
                 "stop/kill/drain requesters; the poll interposer picks which ready task runs next. Non-trivial = the "
                 "subject ran >= 2 callbacks and >= 1 concurrent requester acted; distinct = distinct hash of the "
                 "subject's (callback, exit-kind) sequence plus the sequence of ports its loop picked (H1 LOOP_PICKED)."),
        "assumptions": ["harness Probe callbacks log enter/exit faithfully (drop guard)",
                        "tokio current_thread scheduler + spurious Pending/self-wake are legal executor behaviour"],
        "runs": [
            {"engine": "vt", "quick": 20000, "thorough": 1000000,
             "what": "E-A virtual-time engine, poll interposer with seeded defer decisions"},
            {"engine": "th", "quick": 1600, "thorough": 100000,
             "what": "E-T: same scenarios on a 3-worker runtime with seeded noise at the H1 points; overlap flag checked on any thread"},
        ],
    },
    "C02": {
        "level": "exploration",
        "technique": "runtime monitoring: client-boundary history (call/ret stamps from one atomic clock, unique (sender,seq) ids, drop tokens) checked offline for at-most-once, real-time FIFO, no-gap, no-leak; thread stress with noise injected inside send_message's lock-free gaps",
        "level_text": ("Exploration: seeded histories of 1-8 concurrent senders (OS threads in E-T, tasks in E-A) racing each other, "
                       "self-sending handlers, wrong-typed sends and stop/kill/drain/panic exits; an O(n log n) offline checker "
                       "decides duplicate/rejected-but-handled/order/gap/leak per history. Held on the histories observed."),
        "level_note": ("Trusts the logical clock (SeqCst counter taken under the trace mutex), the Probe's Handled logging and drop "
                       "tokens. One pick in flight at exit is allowed in E-T only through the 'accepted but unhandled => dropped by "
                       "join completion' rule. Miri slice listed separately when present."),
        "rule": ("seeded scenario = 1 probe actor, 1-8 senders x 1-40 messages (3 public send APIs), handler scripts that self-send/"
                 "yield/fail, optional stop|kill|drain racer, optional wrong-typed send. Non-trivial = >= 2 senders and (two sends by "
                 "different senders overlapped in time, or some send was rejected). Distinct = hash of (accepted count, handled "
                 "count, sender order of the first 32 handled messages)."),
        "assumptions": ["history recorded at the client boundary", "a send still open at the end of the history is never treated as failed"],
        "runs": [
            {"engine": "th", "quick": 8000, "thorough": 800000,
             "what": "E-T: sender/terminator OS threads vs actor on a 3-worker runtime, noise at SEND_AFTER_STATUS/ADMIT/ENQUEUE, ADMIT_BEFORE_CAS"},
            {"engine": "vt", "quick": 16000, "thorough": 1000000,
             "what": "E-A: sender tasks under seeded poll interposer (await-level interleavings, exact replay)"},
        ],
    },
    "C03": {
        "level": "exploration",
        "technique": "runtime monitoring with model-based expectation: arrival sweep on the virtual-time engine (subject parked at each lifecycle point, every order of every {kill?,stop?,0-2 supervision events,0-2 messages} combination enqueued, released) compared with the documented priority order; plus thread-engine after-kill/after-stop monitors",
        "level_text": ("Exploration with a fully executed finite family: 6 parking points x 36 item multisets x all distinct arrival "
                       "orders x 2 interposer settings (6276 executions of the real loop, all run on every invocation), each checked "
                       "against the expected callback sequence, progress ticks, cancellation and the state seen by post_stop; plus "
                       "randomized real-thread scenarios with one-pick-in-flight tolerance. Held on what was observed."),
        "level_note": ("The sweep enqueues items synchronously while the actor is suspended (single-threaded engine), so 'already "
                       "requested when the actor picks' is exact. Larger mailboxes (>2 of a kind) and other backends are not covered."),
        "rule": ("vt: the complete family {parking point} x {kill?,stop?,nsup<=2,nmsg<=2} x {distinct permutations} x {defer 0,30%}; every "
                 "case is non-trivial (>=1 pending item or a parked callback) and distinct by construction; signature = hash(case, observed "
                 "callback sequence). th: C01's random scenarios with a kill/stop requester on 3 worker threads."),
        "assumptions": ["pg monitor notifications are used as the source of supervision-port traffic"],
        "runs": [
            {"engine": "vt", "quick": 6276, "thorough": 6276,
             "what": "E-A arrival sweep (complete family, exhaustive over the enumerated cases)"},
            {"engine": "th", "quick": 1600, "thorough": 100000,
             "what": "E-T: concurrent kill/stop requesters vs running handlers, after-kill / after-stop clauses with one pick in flight"},
        ],
    },
}
