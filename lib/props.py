"""Per-property run tables for ./check (engines, builds, scenario counts per tier)."""

BUILDS = {
    "main": {
        "cmd": ["cargo", "build", "--release", "--offline"],
        "bin": "/verif/target/release/harness",
    },
    "alt": {
        "cmd": ["cargo", "build", "--release", "--offline", "--no-default-features", "--features", "alt",
                "--target-dir", "/verif/target/alt"],
        "bin": "/verif/target/alt/release/harness",
    },
    # the harness interpreted by Miri (no cluster feature: prost/bytes are not needed for the protocols Miri looks at)
    "miri": {
        "cmd": ["/verif/lib/miri_run.sh", "C07", "--engine", "miri", "--count", "0", "--shard", "1", "--out", "/verif/target/miri-warm.json"],
        "bin": "/verif/lib/miri_run.sh",
    },
}

# sanitizer builds of the same harness (nightly toolchain; ThreadSanitizer needs an instrumented std => -Zbuild-std)
BUILDS["tsan"] = {
    "cmd": ["cargo", "+nightly", "build", "--release", "--offline", "-Zbuild-std", "--target", "x86_64-unknown-linux-gnu",
            "--target-dir", "/verif/target/tsan"],
    "env": {"RUSTFLAGS": "-Zsanitizer=thread"},
    "bin": "/verif/target/tsan/x86_64-unknown-linux-gnu/release/harness",
    "sanitizer": "tsan",
}
BUILDS["asan"] = {
    "cmd": ["cargo", "+nightly", "build", "--release", "--offline", "--target", "x86_64-unknown-linux-gnu", "--features", "asan",
            "--target-dir", "/verif/target/asan"],
    "env": {"RUSTFLAGS": "-Zsanitizer=address -Cforce-frame-pointers=yes"},
    "bin": "/verif/target/asan/x86_64-unknown-linux-gnu/release/harness",
    "sanitizer": "asan",
}

HOOK_COMMITS = ["9bb871a", "5fa190b", "b49a9e6"]
FIX_COMMITS = ["1a9feb3", "a54e157", "e8eadf0", "4275899", "412168a", "4a034f9", "750341c", "67a090c", "d38134c", "59353e0"]

# properties not claimed, with the reason (filled while the checks are being built)
NOT_APPLICABLE = {}

PROPS = {
    "C01": {
        "level": "exploration",
        "technique": "runtime monitoring: online overlap flag + offline lifecycle-order automaton over callback enter/exit traces of scripted probe actors, under seeded schedule perturbation (poll interposer) and fault injection",
        "level_text": ("Exploration: tens of thousands (quick) to a million (thorough) seeded executions of the real actor "
                       "runtime with scripted callbacks, concurrent senders/stoppers/killers/children and injected panics/Errs; "
                       "an online monitor flags any overlapping callback and an offline automaton checks the lifecycle order "
                       "per actor. Held on the executions observed, not a proof."),
        "level_note": ("Trusts the harness Probe's enter/exit logging (drop guard), tokio's scheduler, and that a spurious "
                       "Pending + self-wake is legal executor behaviour. Covers Send actors on the tokio backend; "
                       "thread-local / async-trait variants are covered by their own runs where listed in the evidence."),
        "rule": ("seeded scenarios: 1 subject Probe (+supervisor, 0-2 self-dying children) with scripted callback bodies "
                 "(yields, virtual sleeps, self-sends, child spawns, panic/Err injection), 1-4 concurrent senders, 0-2 "
                 "stop/kill/drain requesters; the poll interposer picks which ready task runs next. Non-trivial = the "
                 "subject ran >= 2 callbacks and >= 1 concurrent requester acted; distinct = distinct hash of the "
                 "subject's (callback, exit-kind) sequence plus the sequence of ports its loop picked (H1 LOOP_PICKED)."),
        "assumptions": ["harness Probe callbacks log enter/exit faithfully (drop guard)",
                        "tokio current_thread scheduler + spurious Pending/self-wake are legal executor behaviour"],
        "runs": [
            {"engine": "vt", "quick": 20000, "thorough": 1000000,
             "what": "E-A virtual-time engine, poll interposer with seeded defer decisions"},
            {"engine": "th", "quick": 1600, "thorough": 100000,
             "what": "E-T: same scenarios on a 3-worker runtime with seeded noise at the H1 points; overlap flag checked on any thread"},
        ],
    },
    "C02": {
        "level": "exploration",
        "technique": "runtime monitoring: client-boundary history (call/ret stamps from one atomic clock, unique (sender,seq) ids, drop tokens) checked offline for at-most-once, real-time FIFO, no-gap, no-leak; thread stress with noise injected inside send_message's lock-free gaps",
        "level_text": ("Exploration: seeded histories of 1-8 concurrent senders (OS threads in E-T, tasks in E-A) racing each other, "
                       "self-sending handlers, wrong-typed sends and stop/kill/drain/panic exits; an O(n log n) offline checker "
                       "decides duplicate/rejected-but-handled/order/gap/leak per history. Held on the histories observed."),
        "level_note": ("Trusts the logical clock (SeqCst counter taken under the trace mutex), the Probe's Handled logging and drop "
                       "tokens. One pick in flight at exit is allowed in E-T only through the 'accepted but unhandled => dropped by "
                       "join completion' rule. Miri slice listed separately when present."),
        "rule": ("seeded scenario = 1 probe actor, 1-8 senders x 1-40 messages (3 public send APIs), handler scripts that self-send/"
                 "yield/fail, optional stop|kill|drain racer, optional wrong-typed send. Non-trivial = >= 2 senders and (two sends by "
                 "different senders overlapped in time, or some send was rejected). Distinct = hash of (accepted count, handled "
                 "count, sender order of the first 32 handled messages)."),
        "assumptions": ["history recorded at the client boundary", "a send still open at the end of the history is never treated as failed"],
        "runs": [
            {"engine": "th", "quick": 8000, "thorough": 800000,
             "what": "E-T: sender/terminator OS threads vs actor on a 3-worker runtime, noise at SEND_AFTER_STATUS/ADMIT/ENQUEUE, ADMIT_BEFORE_CAS"},
            {"engine": "vt", "quick": 16000, "thorough": 1000000,
             "what": "E-A: sender tasks under seeded poll interposer (await-level interleavings, exact replay)"},
        ],
    },
    "C03": {
        "level": "exploration",
        "technique": "runtime monitoring with model-based expectation: arrival sweep on the virtual-time engine (subject parked at each lifecycle point, every order of every {kill?,stop?,0-2 supervision events,0-2 messages} combination enqueued, released) compared with the documented priority order; plus thread-engine after-kill/after-stop monitors",
        "level_text": ("Exploration with a fully executed finite family: 6 parking points x 36 item multisets x all distinct arrival "
                       "orders x 2 interposer settings (6276 executions of the real loop, all run on every invocation), each checked "
                       "against the expected callback sequence, progress ticks, cancellation and the state seen by post_stop; plus "
                       "randomized real-thread scenarios with one-pick-in-flight tolerance. Held on what was observed."),
        "level_note": ("The sweep enqueues items synchronously while the actor is suspended (single-threaded engine), so 'already "
                       "requested when the actor picks' is exact. Larger mailboxes (>2 of a kind) and other backends are not covered."),
        "rule": ("vt: the complete family {parking point} x {kill?,stop?,nsup<=2,nmsg<=2} x {distinct permutations} x {defer 0,30%}; every "
                 "case is non-trivial (>=1 pending item or a parked callback) and distinct by construction; signature = hash(case, observed "
                 "callback sequence). th: C01's random scenarios with a kill/stop requester on 3 worker threads."),
        "assumptions": ["pg monitor notifications are used as the source of supervision-port traffic"],
        "runs": [
            {"engine": "vt", "quick": 6276, "thorough": 6276,
             "what": "E-A arrival sweep (complete family, exhaustive over the enumerated cases)"},
            {"engine": "th", "quick": 1600, "thorough": 100000,
             "what": "E-T: concurrent kill/stop requesters vs running handlers, after-kill / after-stop clauses with one pick in flight"},
        ],
    },
    "C04": {
        "level": "fault_enumeration",
        "technique": "runtime monitoring under fault enumeration: every exit kind x callback x failure flavour x timing, and abort of the actor task at every poll k (poll interposer), with supervisor / monitor / bystander actors logging every SupervisionEvent; exactly-once + classification oracle over the logs",
        "level_text": ("Fault enumeration: the finite family {pre_start/post_start/handle/supervisor-handler/post_stop failure x "
                       "panic(String)/panic(&str)/Err, stop(+/-reason)/drain/kill at 3 timings, abort-at-poll-k for k=1..40} x "
                       "{busy/idle supervisor} x {2 interposer settings} x {+/- monitor} is executed completely on every run "
                       "(536 executions), and again on the thread engine with thread-local children (108 executions). Each "
                       "execution is checked for: join result, exactly one correctly classified terminal event, ActorStarted "
                       "once/before/iff post_start Ok, monitor copy, no misdelivery, survivors still answering."),
        "level_note": ("Crash points are the await points reached by this particular child workload (abort fires for k up to the number "
                       "of polls the actor task needs, ~15); a supervisor that is itself exiting is out of scope ('living supervisor')."),
        "rule": ("every case of the enumerated family is run; a case is non-trivial unless it is an abort-at-poll-k whose k exceeds the "
                 "polls the task needed (abort never fired); distinct = hash(case, per-callback exit kinds of the child, abort fired)."),
        "assumptions": ["supervisor with Ignore policy stays alive for the whole scenario"],
        "runs": [
            {"engine": "vt", "quick": 568, "thorough": 568, "what": "E-A fault enumeration incl. abort-at-poll-k via the poll interposer (exhaustive over the family)"},
            {"engine": "th", "quick": 124, "thorough": 124, "what": "E-T: thread-local children (own spawner thread, real clock) under H1 noise"},
        ],
    },
    "C05": {
        "level": "exploration",
        "technique": "runtime monitoring: atomic tree snapshots (taken under the code's own tree lock) checked for the child<->supervisor bijection at every observer step; quiescent structural invariants; behavioural 'was killed' oracle (no callback starts after the exiting ancestor's wait() returned) on random trees with concurrent link/unlink/spawn_linked and every exit cause incl. task abort",
        "level_text": ("Exploration: seeded random supervision trees (3-12 nodes, backlogs, some nodes already draining), a random node "
                       "exits by stop/kill/drain/panic/Err/abort-at-poll-k while 1-3 concurrent tasks relink leaves and spawn_linked "
                       "new children; invariants are checked on every atomic snapshot during the run and at quiescence. Held on "
                       "what was observed."),
        "level_note": ("Model-based clauses (all then-descendants Stopped / not running on) exclude leaves that are concurrently relinked; "
                       "those are still covered by the structural invariants. Tree depth/size bounded as stated; E-T allows one callback in flight."),
        "rule": ("seeded scenario = random tree + backlog + draining subset + exit cause + concurrent link ops. Non-trivial = the exiting node "
                 "had >= 1 descendant or >= 1 concurrent link op ran; distinct = hash(tree shape, victim, cause, #descendants, #draining, #ops)."),
        "assumptions": ["Probe supervisors use the Ignore policy so that upward propagation is not mixed into the downward clause"],
        "runs": [
            {"engine": "vt", "quick": 12000, "thorough": 600000, "what": "E-A: random trees, all exit causes incl. abort-at-poll-k, concurrent link ops as tasks, observer snapshots"},
            {"engine": "th", "quick": 1600, "thorough": 40000, "what": "E-T: same on 4 worker threads with noise + rendezvous LINK_BEFORE_LOCK <-> CLEANUP_AFTER_STOPPING"},
        ],
    },
    "C06": {
        "level": "exploration",
        "technique": "runtime monitoring: snapshot-at-return assertions (status, name, pid, groups, children, supervisor notified) on every waiter API under virtual time; hand-polled wait() futures on a detached cell / live actor for a deadline-free lost-wake-up oracle under thread noise and rendezvous in wait()/notify",
        "level_text": ("Exploration: (vt) 1-8 waiters over all five wait APIs and the join handle, with and without timeouts that land "
                       "before/at/after the exit, for stop/kill/drain/panic exits with children, groups and a slow post_stop; each Ok "
                       "return is followed by an immediate snapshot of everything that must be gone; timeouts are checked to the "
                       "virtual millisecond. (th) exiter thread vs 2-5 waiter threads creating and polling wait() futures at random "
                       "instants; after all threads joined every future must be Ready. Held on what was observed."),
        "level_note": ("The lost-wake-up oracle needs no deadline: the status is final and notify has returned when the futures are re-polled. "
                       "Supervisor notification is observed through a Flush call issued after the waiter returned (supervision outranks messages)."),
        "rule": ("vt: non-trivial = some waiter started within [t_req-2ms, t_req+15ms] of the exit request; distinct = hash(per-waiter (api, "
                 "result) sequence, scenario parameters). th: non-trivial = at least one wait future was registered before the final transition "
                 "(not Ready at its first poll); distinct = hash(#futures, #ready-at-first-poll, intensity, waiters)."),
        "assumptions": ["tokio Notify semantics", "status is monotonic (checked by the sampler)"],
        "runs": [
            {"engine": "vt", "quick": 8000, "thorough": 600000, "what": "E-A: all wait APIs, timeouts on the virtual clock, snapshot at return"},
            {"engine": "th", "quick": 24000, "thorough": 2000000, "what": "E-T: detached-cell and live-actor lost-wake-up / early-return oracle with noise at WAIT_AFTER_NOTIFIED, STATUS_BEFORE_NOTIFY, NOTIFY_BETWEEN"},
            {"engine": "miri", "build": "miri", "quick": 96, "thorough": 4000, "timeout_s": 7200, "what": "E-M: the detached-cell wait/notify scenarios (2 waiters + exiter) interpreted by Miri: UB, data races, weak-memory emulation; yield/rendezvous at the H1 points"},
        ],
    },
    "C07": {
        "level": "exploration",
        "technique": "runtime monitoring: raw mailbox of a detached cell (H4) compared offline with the client-boundary history (exactly one marker, nothing after it, mailbox == accepted sends, per-sender order, nothing admitted after drain() returned, no leaked admission ticket) under thread noise + rendezvous at the atomic steps of the send/drain protocol; live-actor monitors (accepted == handled, one 'Drained' exit, stops by itself) at every lifecycle stage on the virtual clock",
        "level_text": ("Exploration: (th) 1-6 sender threads x 1-30 sends racing 1-3 drainer threads x 1-3 drain calls on a detached "
                       "mailbox, including re-entrant sends issued while a serializable message to a remote-id cell is being boxed, "
                       "with seeded delays / rendezvous at SEND_AFTER_STATUS/ADMIT, TICKET_AFTER_SUB, DRAIN_AFTER_CLOSE/STATUS, "
                       "MARKER_BEFORE/AFTER_CAS; the mailbox is read after all threads joined, so no waiting is involved. Every fifth "
                       "scenario uses a live supervised actor instead. (vt) a live instant-spawned actor is drained at each of 8 lifecycle "
                       "stages. Held on what was observed."),
        "level_note": ("'Stops by itself' is a bounded-progress clause: on the virtual clock it is exact (60 virtual seconds after the last "
                       "stimulus), on the thread engine a 20 s wall bound guards the harness. Weak-memory reorderings of the Relaxed CAS "
                       "are only reachable through the Miri run (listed separately when present)."),
        "rule": ("th: non-trivial = some send interval overlapped some drain interval; distinct = hash(#accepted, #rejected, #markers, mailbox "
                 "length, overlap). vt: every scenario drains at a chosen stage (non-trivial by construction); distinct = hash(stage, #handled, "
                 "#rejected, linked)."),
        "assumptions": ["history stamps are taken at the client boundary from one SeqCst clock"],
        "runs": [
            {"engine": "th", "quick": 16000, "thorough": 1500000, "what": "E-T: detached mailbox (4/5) and live actor (1/5) under noise + rendezvous at the protocol's atomic steps"},
            {"engine": "vt", "quick": 8000, "thorough": 400000, "what": "E-A: live instant-spawned actor drained at 8 lifecycle stages (incl. before start / during pre_start), linked and unlinked"},
            {"engine": "miri", "build": "miri", "quick": 96, "thorough": 4000, "timeout_s": 7200, "what": "E-M: the detached-mailbox drain/admission scenarios (<= 2 senders x 2, <= 2 drainers) interpreted by Miri: UB, data races and weak-memory emulation on the Relaxed admission CAS; yield/rendezvous at the H1 points"},
        ],
    },
    "C08": {
        "level": "fault_enumeration",
        "technique": "runtime monitoring under fault enumeration: spawn failure cause x side effects already performed by pre_start x spawn API, incl. dropping the spawn future after n polls for every n (CutAfter), leaving it un-polled then dropping it (CutLate, thread-local) and aborting the start task at every poll k; post-failure assertions over registries, pg snapshot (H3), tree, waiters, supervision logs, drop tokens and reply ports",
        "level_text": ("Fault enumeration: causes {pre_start Err/panic, name taken, kill during start-up, supervisor stopped during start-up, "
                       "CutAfter(n) n=0..10, abort-start-task-at-poll k=1..10} x 64 subsets of side effects {join 2 groups, pg monitor + scope "
                       "monitor, pid monitor, link elsewhere, queue casts and a call to itself, spawn a linked child} x 4 spawn APIs = 3840 "
                       "cases for Send actors on the virtual-time engine (thorough: all; quick: a seeded third plus the empty and full "
                       "effect sets), and 460 cases with thread-local actors on the thread engine. After each failed spawn: no callback "
                       "runs, status Stopped, wait() returns, name/pid free and reusable, absent from every pg index, in no child set, "
                       "own child stopped, no supervision event, queued messages dropped, queued call's port closed; a name clash leaves "
                       "the holder untouched."),
        "level_note": ("Cut points are the await points of this pre_start workload (5 yields + the spawner hand-off). For thread-local actors a "
                       "cut that lands after pre_start completed on the spawner thread is treated as 'the actor did start': a consistent "
                       "cancellation event and work done before the cancellation are accepted, an orphan running actor is not."),
        "rule": ("each enumerated case is executed; non-trivial = the spawn did not produce a running actor; distinct = hash(cause, api, "
                 "effects, callbacks and ticks the subject reached, engine)."),
        "assumptions": ["the leaked reference is obtained from pre_start's `myself`"],
        "runs": [
            {"engine": "vt", "quick": 3840, "thorough": 3840, "what": "E-A: Send actors, 4 spawn APIs, CutAfter(n) and abort-at-poll-k crash points"},
            {"engine": "th", "quick": 460, "thorough": 460, "what": "E-T: thread-local actors (spawner thread, AbortOnDropHandle path), CutAfter / CutLate"},
        ],
    },
    "C09": {
        "level": "exploration",
        "technique": "runtime monitoring: caller-side (call id, timeout, issue/completion virtual time, result) vs callee-side (call id -> value sent / port dropped / kept, time) logs checked offline for cross-wiring, lost replies, timeout exactness and completion; thread-engine race of callers against callee exit for the never-hangs clause",
        "level_text": ("Exploration: (vt) 1-64 concurrent callers x {reply now / after d / from a spawned task / drop the port / keep the port} x "
                       "timeouts and reply delays on one millisecond grid (so d=T boundaries are hit exactly) x callee stop/kill/drain/panic "
                       "at a grid instant, through call, multi_call (1-3 callees, request order) and call_and_forward (exactly-once "
                       "forwarding); a caller still pending at the virtual horizon is a hang. (th) 2-12 caller tasks x 1-40 un-timed calls "
                       "on 4 worker threads racing a stop/kill/drain/panic from another thread. Held on what was observed, except the "
                       "recorded finding F8."),
        "level_note": ("On the thread engine a 15 s wall-clock guard around each un-timed call decides 'hung' only together with the facts "
                       "'callee Stopped' and 'never dequeued'; the virtual-time runs need no deadline."),
        "rule": ("vt: non-trivial = >= 2 calls and (some call had a timeout or the callee exited); distinct = hash(sequence of call results, "
                 "scenario parameters). th: non-trivial = some calls succeeded and some failed (the exit landed amid the traffic); distinct = "
                 "hash(callers, #ok (capped), #failed, exit kind)."),
        "assumptions": ["callee logs the value it sends on each call's own port"],
        "runs": [
            {"engine": "vt", "quick": 12000, "thorough": 800000, "what": "E-A: virtual-time grid of delays/timeouts/exits, call + multi_call + call_and_forward"},
            {"engine": "th", "quick": 8000, "thorough": 1500000, "what": "E-T: concurrent un-timed callers vs callee exit from another thread"},
        ],
    },
    "C10": {
        "level": "exploration",
        "technique": "runtime monitoring: client-boundary history of named spawns / lookups / terminations / waits with global stamps, checked offline by interval reasoning (definite vs possible registration intervals) for at-most-one holder, lookup accuracy, no stale lookups and justified rejections; thread noise at registry entry/exit; remote proxies carrying the same names",
        "level_text": ("Exploration: 2-8 client threads (E-T) or tasks (E-A) each running 4-24 operations over 1-3 shared names: named spawn "
                       "(1/6 with a failing pre_start), where_is, where_is_pid, terminate own actor by stop/kill/drain/panic then wait()/"
                       "join, and spawning + stopping a remote proxy that carries one of the names. Offline oracle per name / pid: two "
                       "successful spawns never definitely registered at the same instant; a lookup wholly inside a definite holding "
                       "interval returns the holder; no lookup returns an actor whose wait() had returned; every ActorAlreadyRegistered "
                       "is justified by an overlapping possible holder. Held on the histories observed."),
        "level_note": ("Interval reasoning is sound but incomplete: an overlap that the stamps cannot prove is not reported. pid lookups only in "
                       "cluster builds."),
        "rule": ("non-trivial = >= 2 successful holders and some contention (a rejected spawn or an empty lookup); distinct = hash(#holders, "
                 "#rejections, #lookups, #lookups inside a definite interval, #proxies)."),
        "assumptions": ["stamps come from one SeqCst counter taken before the call and after the result"],
        "runs": [
            {"engine": "th", "quick": 4800, "thorough": 600000, "what": "E-T: client threads on a 4-worker runtime with noise at REGISTRY_REGISTER/UNREGISTER, STATUS_AFTER_PUBLISH"},
            {"engine": "vt", "quick": 8000, "thorough": 600000, "what": "E-A: client tasks under the poll interposer (exact replay)"},
        ],
    },
    "C11": {
        "level": "exploration",
        "technique": "runtime monitoring: single-writer register oracle per (scope, group, actor) over stamped join/leave/read histories; per-monitor notification sequence + count oracle (effective exactly once, ineffective at most once, one automatic leave per group held at exit, nobody else notified); cross-index agreement of the H3 pg snapshot and of all six query functions at quiescence; thread noise at the lock gaps of join/leave_all/demonitor_all/monitor",
        "level_text": ("Exploration: 2-5 owner clients (threads / tasks), each the only writer for 1-3 of its own actors (live probes and "
                       "remote-id cells), run 6-30 operations over 2 scopes x 3 groups: join (with duplicates in one call, repeated joins), "
                       "leave, reads through get_(scoped_)(local_)members plus the four listing functions, and exits of their actors; a "
                       "churn client registers/removes monitors and lets monitors die while registrations race their exit. Four stable "
                       "monitors (group, scope, all-scopes, none) log every notification. Held on the histories observed."),
        "level_note": ("Reads are decided only when no operation of the pair's single writer overlaps the read interval. Notification "
                       "oracles use the monitors' receive order; duplicates for ineffective operations are tolerated as the property allows. "
                       "Empty reverse-index records of live actors are not demanded to be pruned (invisible through the API)."),
        "rule": ("non-trivial = >= 2 effective membership transitions and at least one read decided by the register oracle or one notification "
                 "observed; distinct = hash(#transitions, #effective, #reads, #decided reads, #notifications, #exits)."),
        "assumptions": ["each (key, actor) pair has a single writing client by construction"],
        "runs": [
            {"engine": "th", "quick": 3200, "thorough": 400000, "what": "E-T: owner threads with noise at PG_JOIN_AFTER_FILTER/ENTRY, PG_LEAVE_ALL_AFTER_TAKE, PG_DEMONITOR_ALL_AFTER_TAKE, PG_MONITOR_AFTER_REGISTER"},
            {"engine": "vt", "quick": 6400, "thorough": 400000, "what": "E-A: owner tasks under the poll interposer"},
        ],
    },
    "C12": {
        "level": "exploration",
        "technique": "runtime monitoring on a virtual clock: every timer closure stamps its firing with the virtual Instant (never-early to the nanosecond, exact due time to the millisecond, k-th interval tick at k periods), handler-side delivery log for exactly-once / order, handle results, abort and target-exit times on the same grid; real-clock smoke for the no-drift clause",
        "level_text": ("Exploration: 1-12 timers per scenario (send_after, send_interval, exit_after, kill_after; ActorRef and DerivedActorRef "
                       "variants) with periods {0, 1ns, 1ms, 7ms, 1s, 1h}, created / aborted / target-exited at instants of one grid (so "
                       "abort-at-expiry and exit-at-expiry coincide exactly), busy targets, on three time scales up to 4 virtual hours; the "
                       "poll interposer decides which ready task runs at a boundary. A separate real-clock run (300 ms, 2-4 ms periods) "
                       "observes that a busy target or scheduling delay does not make interval ticks drift. Held on what was observed."),
        "level_note": ("Interval periods below 1 ms are not exercised: under a paused clock such a timer never lets virtual time advance "
                       "(documented bound; one-shot timers do use 0 and 1 ns). Drift is invisible under a paused clock, hence the real-clock run."),
        "rule": ("non-trivial = >= 1 timer fired and the scenario contains an abort or a target exit; distinct = hash(#firings, #deliveries, "
                 "scenario parameters)."),
        "assumptions": ["tokio's paused clock advances exactly to the next timer deadline (1 ms wheel granularity)"],
        "runs": [
            {"engine": "vt", "quick": 12000, "thorough": 800000, "what": "E-A: virtual-clock timer scenarios"},
            {"engine": "rt", "quick": 32, "thorough": 640, "what": "real-clock no-drift smoke (interval catches up after delays; never early)"},
        ],
    },
    "C13": {
        "level": "exploration",
        "technique": "runtime monitoring: per-job fate ledger (dispatch result, acceptance-port reply, worker start/end with incarnation, discard-handler calls with reason, worker exits with the job they held) reconciled at quiescence on the virtual clock under worker panics/errors/kills, resizes, settings updates, draining and stop",
        "level_text": ("Exploration: seeded factory scenarios (10-80 operations) over every router {key-persistent, queuer, sticky, round-robin, "
                       "custom hash x6} x {default, priority queue} x discard {none, limit 0-3 newest/oldest} x optional leaky bucket, TTLs, "
                       "dead-man's switch, pools of 0-4; jobs that panic / return Err / die right after reporting; kills of random workers; "
                       "resizes; settings updates; DrainRequests or stop with backlog. Oracle: no job started twice, none started and "
                       "discarded, none discarded twice, returned jobs never run and are reported, every accepted job has a fate, at most "
                       "one job lost per worker exit, nothing lost without a later worker exit, nothing left after shutdown."),
        "level_note": "'Accepted by the factory' is evidenced by the acceptance port or by a later answered query; a dispatch still in the mailbox of a factory that stopped first is an ordinary unhandled message (C02).",
        "rule": "non-trivial = >= 5 jobs and (a worker exit or a discard happened); distinct = hash(router, queue, #completed, #discards, #no-fate, #unfinished, #worker exits).",
        "assumptions": ["the harness worker is a raw actor mirroring the 15-line Worker glue (so that each incarnation is identifiable and can die right after reporting)", "HashMap iteration order inside the factory makes factory scenarios not bit-replayable; the recorded trace is the witness"],
        "runs": [{"engine": "vt", "quick": 8000, "thorough": 800000, "what": "E-A: factory scenarios on the virtual clock with seeded poll deferral"}],
    },
    "C14": {
        "level": "exploration",
        "technique": "runtime monitoring: (worker incarnation, key, job) start/end intervals from the virtual-clock trace checked for same-key non-overlap across workers, per-key submission order, in-pool targets under arbitrary custom hashes, round-robin coverage windows, queuer no-idle-while-queued at query barriers, one job at a time per incarnation",
        "level_text": ("Exploration: the C13 scenario family plus a targeted generator (1-2 keys, long jobs, workers dying right after "
                       "reporting completion with same-key work queued behind them; the poll interposer decides whether the report or the "
                       "death reaches the factory first). Held on what was observed, except the recorded finding F2."),
        "level_note": "Round-robin / in-pool clauses are only evaluated in stable periods (after a barrier whose live worker count equals the requested size, with no resize/kill/exit in between); the queuer idle clause reads active workers before the queue depth so that a non-empty depth also held when activity was read.",
        "rule": "non-trivial = >= 5 job starts and (a same-key pair on different workers, a round-robin window or a barrier was checked); distinct = hash(router, #starts, #keys, #worker exits, #pairs (capped), #rr windows).",
        "assumptions": ["the harness worker is a raw actor mirroring the 15-line Worker glue (so that each incarnation is identifiable and can die right after reporting)", "HashMap iteration order inside the factory makes factory scenarios not bit-replayable; the recorded trace is the witness"],
        "runs": [{"engine": "vt", "quick": 8000, "thorough": 800000, "what": "E-A: general + stale-completion-targeted factory scenarios"}],
    },
    "C15": {
        "level": "exploration",
        "technique": "runtime monitoring: query barriers (queue depth / active workers / capacity / live children) behind every dispatch, discard-handler and acceptance-port logs for which job is shed, lifecycle-hook log, bounded drain-completion on the virtual clock; the leaky-bucket limiter driven directly on the paused clock against its arithmetic bound",
        "level_text": ("Exploration: (vt) factory scenarios checked for queue depth <= limit after each processed dispatch, per-worker backlog "
                       "bound, the shed job being the incoming one (newest) or a previously accepted one in id order (oldest), Loadshed / "
                       "RateLimited reported once and never run, live workers == last requested non-zero size at quiescence, jobs after "
                       "DrainRequests refused, accepted jobs not dropped by the drain, the factory stopping by itself within 60 virtual "
                       "seconds, hooks started -> draining -> stopped. (lb) LeakyBucketRateLimiter with refill/interval/max/initial drawn "
                       "from {0, 1, small, usize::MAX, Duration::ZERO, 1ns, Duration::MAX}: admitted(0..t) <= start + refill*floor(t/interval), "
                       "any-window bound, balance <= max, no starvation after two intervals, no panic."),
        "level_note": "Limit clauses are evaluated only while the limit has not been changed by UpdateSettings and (for the backlog bound) no worker has died; a factory that never had a worker is outside the drain clause.",
        "rule": "vt: non-trivial = >= 1 barrier and (a shed, a rate-limited job, a drain or a worker exit); lb: every scenario with >= 5 steps; distinct = hash(configuration, observed counts).",
        "assumptions": ["the harness worker is a raw actor mirroring the 15-line Worker glue (so that each incarnation is identifiable and can die right after reporting)", "HashMap iteration order inside the factory makes factory scenarios not bit-replayable; the recorded trace is the witness"],
        "runs": [
            {"engine": "vt", "quick": 8000, "thorough": 800000, "what": "E-A: factory capacity scenarios"},
            {"engine": "lb", "quick": 8000, "thorough": 2000000, "what": "leaky bucket driven directly under the paused clock"},
        ],
    },
    "C16": {
        "level": "exploration",
        "technique": "runtime monitoring: per-subscription received sequence (converter-tagged, stamped) checked offline against the published stream and the subscription / stop positions: converter image, strictly increasing (order, no duplicate), nothing from before subscribe, filtered elements absent, completeness for live subscribers (v2: all; v1: all unless more than 10 behind inside a burst), publisher never blocked; both port implementations (main build = v1, alt build = v2)",
        "level_text": ("Exploration: a publisher emits 10-600 elements in bursts of 1-25 (no await inside a burst); 1-6 subscriptions (own filter+map "
                       "converter, slow or fast subscriber actor, optional re-subscription of an already subscribed or already stopped actor) are made "
                       "and subscribers are stopped at exact stream positions by the publisher task itself; run on the virtual-time engine (forwarders "
                       "drained between bursts so that the v1 lag rule is exact) and on the thread engine, for the default port and - in the alt build - "
                       "the v2 port. Held on what was observed."),
        "level_note": "Completeness is only demanded of subscribers that live to the end (a stopped subscriber drops its mailbox, C02). v1 on real threads: only 'the final element still arrives' is demanded.",
        "rule": "non-trivial = >= 1 subscription received something and (>= 2 subscriptions or a subscriber stop); distinct = hash(stream length, #subscriptions, #stops, #deliveries, port version).",
        "assumptions": ["the publisher task performs subscribe/stop itself, so stream positions are exact"],
        "runs": [
            {"engine": "vt", "quick": 6000, "thorough": 400000, "what": "E-A, default (v1, broadcast) port"},
            {"engine": "th", "quick": 160, "thorough": 16000, "what": "E-T, default (v1) port"},
            {"engine": "vt", "build": "alt", "quick": 6000, "thorough": 400000, "what": "E-A, v2 port (alt build: async-trait + output-port-v2, no cluster)"},
            {"engine": "th", "build": "alt", "quick": 160, "thorough": 16000, "what": "E-T, v2 port (alt build)"},
        ],
    },
    "C17": {
        "level": "exploration",
        "technique": "runtime monitoring: (fsm) every message sequence of length <= 5 over a 14 / 12 symbol template alphabet driven through the two real authentication state machines (H5 steppers) with an acceptance oracle; (vt) a real NodeServer/NodeSession over an in-memory stream fed by a seeded adversarial peer, with H5 delivery / proxy / pg-join points, probe actors, GetSessions, GetAuthenticationState sampling, node events and session status as observers",
        "level_text": ("(fsm) all 850 646 sequences of length <= 5 are executed on every run: Ok is reached only when the peer-controlled messages are "
                       "exactly the honest ones with the digest of the issued challenge under the real cookie (wrong-cookie, garbage, empty and replayed "
                       "digests, wrong-direction and empty messages all included), and Close is absorbing. (vt) seeded adversaries on server-side and "
                       "client-side sessions send 1-14 auth / control / node frames (Spawn, PgJoin, PgLeave, Terminate, Ready, Enumerate, Cast, Call, "
                       "Reply, empty envelopes, fragments, trailing garbage) without proving the cookie: no delivery / proxy / pg-join point fires, no "
                       "local actor handles anything, no remote member appears, GetSessions stays empty, no authenticated/ready event, authentication "
                       "state false at every sample, a deviating auth frame leaves the session Stopped. A quarter of the server-side scenarios complete "
                       "the handshake honestly and then cast to an advertised remotable pid, a non-remotable pid and an unknown pid: only the first is "
                       "delivered."),
        "level_note": "The fsm run is exhaustive over its alphabet and length bound; byte-level malformed frames are C19's subject.",
        "rule": "fsm: every sequence is a distinct case (counted, first 100k hashed per shard). vt: non-trivial = >= 1 adversarial frame sent; distinct = hash(frame kinds sent, session side, authenticated?).",
        "assumptions": ["the in-memory duplex stream injected through the public external-transport API stands in for TCP"],
        "runs": [
            {"engine": "fsm", "quick": 14, "thorough": 14, "what": "exhaustive enumeration of message sequences (length <= 5) on both auth state machines"},
            {"engine": "vt", "quick": 3200, "thorough": 300000, "what": "E-A: real NodeServer + adversarial peer over an in-memory stream"},
        ],
    },
    "C18": {
        "level": "exploration",
        "technique": "runtime monitoring: (elect) the real election function evaluated at both endpoints on mirrored candidate sets with independently shuffled actor ids under every permutation of candidate order; (vt) two real NodeServers joined by in-memory connections with chosen nonces (H5 override) and unauthenticated name spoofers, observed through NodeEventSubscription callbacks and sampled GetSessions on both nodes",
        "level_text": ("(elect) all 461 multisets of <= 5 physical connections over {initiator A/B} x {nonce 0 (legacy), 1, 2} x both name orders, every "
                       "permutation of candidate order (134 592 evaluations, all run every time): the result is permutation invariant, all survivors carry "
                       "the same (initiator, nonce) label at both endpoints, the accepting endpoint of the winning direction elects exactly one which "
                       "the initiating endpoint also keeps (an outgoing tie of identical labels may keep the tied set). (vt) 1-4 connections with random "
                       "initiators, arrival order, delays and nonces incl. legacy/repeated, 0-2 spoofers claiming the peer's name with a wrong cookie "
                       "(before, during and after convergence): both nodes end with exactly one authenticated and one ready session on the same link, "
                       "never list two authenticated sessions (unless an identical-label tie is possible), never authenticate/ready/list a spoofer, and "
                       "a single real link is never displaced."),
        "level_note": "A displaced link's `disconnected` event may trail the winner's `ready` event in the callback stream, so the at-most-one clause is read from the node's own session table (GetSessions samples) and from the final event balance.",
        "rule": "elect: one case per (multiset, name order), all non-trivial; vt: non-trivial = >= 2 connections or a spoofer; distinct = hash(connection plan, spoofers, name order, arrival order).",
        "assumptions": ["both NodeServers live in one process (they share only the global registries, which C18 does not use)"],
        "runs": [
            {"engine": "elect", "quick": 16, "thorough": 16, "what": "exhaustive election-function enumeration (H5 access)"},
            {"engine": "vt", "quick": 3200, "thorough": 300000, "what": "E-A: two real NodeServers, in-memory links, spoofers"},
        ],
    },
    "C19": {
        "level": "exploration",
        "technique": "runtime monitoring: generated hostile inputs at every decoding entry point of the real code (frame reader behind a chaos AsyncRead, live NodeServer over an in-memory transport, serialized messages sent to live Send and thread-local actors, derived/job decoders called directly) with panic, liveness, byte-consumption and allocation-size oracles; encode/decode identity checked exhaustively for 8/16-bit types and char, generated otherwise",
        "level_text": ("(frames) random valid NetworkMessage streams re-read under 1-byte reads, random chunking and spurious Pending decode to the identical messages; a "
                       "declared length above the limit (limit+1, u64::MAX, isize::MAX+1, random) is rejected with exactly the 8 header bytes consumed and no allocation "
                       "above 256 KiB (counting global allocator), the limit itself is accepted; bit-flipped, truncated, length-tampered and random streams end Ok/Err(UnexpectedEof|InvalidData), "
                       "never panic, never stay pending at EOF. (node) hostile bytes on one connection of a live NodeServer: that session stops, the server and a second session keep working. "
                       "(msgs, msgs-tl) hostile Cast/Call/CallReply payloads (unknown variant, short/trailing/huge-length args, a conversion that panics, absent/short/odd job metadata) "
                       "interleaved with valid ones to live Send and thread-local actors with a derived enum or a job-envelope message type: actor stays Running, handles every valid message in order, "
                       "its supervisor sees no failure; derived decoders and the job envelope decoder with a total key never panic; bad metadata is never accepted. "
                       "(rt) every u8/i8/u16/i16/bool/()/char value and generated values of all other built-in convertible types, vectors, strings, derived enum variants (unit, tuple, struct, rpc) and job options round-trip (floats by bits)."),
        "level_note": "Panics raised by user conversions are expected and counted as contained; the verdict is taken from the catch_unwind result at the entry point and from actor liveness, not from the panic hook.",
        "rule": "one scenario = one generated stream/plan; all are non-trivial (each carries at least one hostile or fragmented input); distinct = hash(stream content, mutation kind) / hash(seed, target) / (rt) one per shard pass.",
        "assumptions": ["in-memory duplex transport stands in for TCP/TLS (the reader is generic over AsyncRead)", "ractor_cluster built with its `verif` feature (H5) to reach the frame reader and wire types"],
        "runs": [
            {"engine": "frames", "quick": 32000, "thorough": 1600000, "what": "frame reader under chaos reads, oversize/garbage streams"},
            {"engine": "node", "quick": 32000, "thorough": 1600000, "what": "E-A: hostile bytes into a live NodeServer"},
            {"engine": "msgs", "quick": 64000, "thorough": 3200000, "what": "E-A: hostile serialized messages to Send actors + direct decoder calls"},
            {"engine": "msgs-tl", "quick": 16000, "thorough": 800000, "what": "E-T: same against thread-local actors"},
            {"engine": "rt", "quick": 160000, "thorough": 8000000, "what": "round-trip identity (exhaustive small types + generated)"},
        ],
    },
    "C20": {
        "level": "exploration",
        "technique": "runtime monitoring: two real NodeServers joined by a chaotic in-memory relay (seeded fragmentation, virtual-time delays, cut at a byte offset or time, reconnect); remotable probe actors log (variant, lane, seq, argument digest) of what they handle and answer calls with a value derived from (callee, lane, seq); offline checkers over the client-boundary send/call records and callee logs (per-lane prefix/FIFO/no-dup/no-corruption, reply correlation, completeness when undisturbed) plus state monitors at quiescent points (proxy set per session, group mirroring, proxies of stopped originals / closed sessions)",
        "level_text": ("Each scenario: 1-3 initial + spawned-later remotable actors in up to 3 groups (scoped and default scope), a link with one of four chaos regimes, 1-5 lanes sending 1-14 operations "
                       "(casts of two variants with payloads up to 8 KB, calls of two rpc variants with reply port last / in the middle, bursts of 8-48 concurrently outstanding calls whose callee answers at once, after 40 ms, never, or drops the port; "
                       "callers with no / 2 ms / 30 ms / long timeouts, some abandoned after 1-300 ms) through the proxies of either node's session, while events spawn and stop/kill targets, join/leave groups, and cut the link "
                       "(at a byte offset in either direction, also during the handshake, or at a time); half of the cut scenarios reconnect. Checked: every delivery went to the addressed actor with the sent variant and argument digest, "
                       "per lane the deliveries are a duplicate-free in-order prefix of the sends and all of them when link and target stayed up; a Success reply carries the value of exactly that (callee, lane, seq), "
                       "never-answered calls never succeed, answered calls with a patient caller succeed when undisturbed; at quiescent points each session hosts running proxies for exactly the live remotable actors and "
                       "each group's proxies per session equal its local remotable members; proxies of stopped originals and of closed sessions are Stopped, in no group, and casts to them fail; after reconnect the mirror is rebuilt and calls work."),
        "level_note": ("Both node servers live in one process and share the process-wide registries, so each remotable actor is advertised in both directions (one proxy per session, ids kept apart by advancing B's session counter). "
                       "The ping loop draws its period from the thread RNG, so scenarios are seeded but not bit-for-bit replayable. 'Eventually' clauses are decided after 150 virtual seconds of quiescence."),
        "rule": "non-trivial = the link became ready and at least one message was sent; distinct = hash(chaos regime, event list, lanes, targets, cut/reconnect, numbers of sends and calls).",
        "assumptions": ["in-memory duplex + relay stands in for TCP/TLS", "tokio virtual time: delays and timeouts are exact, so 'patient caller' (>= 60 s) always outlasts the relay's worst-case transfer time"],
        "runs": [
            {"engine": "vt", "quick": 16000, "thorough": 1600000, "what": "E-A: two NodeServers, chaotic relay, lanes/events/cuts/reconnects"},
        ],
    },
}

# ---- additions made when the checks were strengthened after the seeded-change evaluation (DESIGN.md section 7)
_EXTRA = {
    "C01": "One E-T scenario in three runs the subject as a thread-local actor.",
    "C02": "Wrong-typed sends are tried through ActorCell::send_message::<Other> and through send_message / cast / call on a wrongly typed ActorRef built from the cell.",
    "C03": "The E-T run shares C01's scenarios, so one subject in three is a thread-local actor.",
    "C05": ("Added monitors: an observer flags any actor that lists a new child (or gets a new supervisor) after it was seen Draining/Stopping before the previous snapshot; "
            "a lock-ordered tap takes the tree lock once when an actor reaches CLEANUP_AFTER_STOPPING / DRAIN_AFTER_STATUS and flags any later LINK_IN_LOCK for it "
            "(link decides under that lock, so it must have seen the status); one scenario in three adds an actor that links a child in pre_start and then fails to start (the child must die)."),
    "C06": "Live-actor E-T scenarios have a supervisor and 1-2 blocking waiters (own runtime) that snapshot the world and query the supervisor the instant they wake; the detached-cell scenario also runs under Miri.",
    "C07": "A third of the remote-cell senders deliver through ActorCell::send_serialized; the detached-mailbox scenario also runs under Miri.",
    "C08": "Thread-local: 12 extra cases per shard cancel the caller after 1-3 polls while its request still sits behind a provably held spawner thread; nothing of the abandoned actor may run or remain.",
    "C09": "Callers go through the call method and through call! / call_t! in closure and argument form.",
    "C11": "One E-T scenario in four is 'wide': the sole member of 20-160 groups exits while 1-3 other threads join (and partly leave) other actors in the same groups; indexes, queries and each joiner's own view must agree afterwards.",
    "C12": "One scenario in five is a clock-jump scenario: 1-3 interval timers, 1-3 jumps of tokio::time::advance over 2-9 periods; overdue ticks arrive at the end of the jump, every later tick exactly on created + k*period.",
    "C13": "After 20 virtual seconds without stimulus and with a non-empty pool nothing accepted may still be waiting (clause 'starved': a job whose only fate was the shutdown discard).",
    "C15": "After a limit change the oldest-first clause is evaluated for Queuer routing once a job has provably been enqueued under the new limit.",
    "C16": "A quarter of the subscribers are spawn_instant actors with a slow pre_start, subscribed while still starting.",
    "C19": "Job envelopes are round-tripped with keys of encoded length 0-8 bytes ((), strings, vectors, u64).",
}
for _k, _t in _EXTRA.items():
    PROPS[_k]["level_note"] = (PROPS[_k].get("level_note", "") + " " + _t).strip()

# ---- the async-trait trait shape (alt build: ractor[async-trait, output-port-v2], no cluster) for the lifecycle properties
PROPS["C01"]["runs"].append({"engine": "vt", "build": "alt", "quick": 8000, "thorough": 400000,
                             "what": "E-A on the alt build: the same scenarios with #[async_trait] actors (boxed callback futures)"})
PROPS["C01"]["runs"].append({"engine": "th", "build": "alt", "quick": 800, "thorough": 50000,
                             "what": "E-T on the alt build"})
PROPS["C03"]["runs"].append({"engine": "vt", "build": "alt", "quick": 6276, "thorough": 6276,
                             "what": "E-A arrival sweep on the alt build (async-trait actors)"})
PROPS["C04"]["runs"].append({"engine": "vt", "build": "alt", "quick": 568, "thorough": 568,
                             "what": "E-A fault enumeration on the alt build (async-trait actors)"})
for _k in ("C01", "C03", "C04"):
    PROPS[_k]["level_note"] += " The alt-build runs repeat the E-A (and for C01 the E-T) scenarios with the async-trait feature on."

# ---- additions made after the second wave of seeded changes (DESIGN.md section 7)
_EXTRA2 = {
    "C01": "Half of the thread-local subjects are Send actors driven through ractor's Send->thread-local blanket adapter.",
    "C02": ("Senders also use `call` (both engines) and `call_and_forward` (E-A) as sends. One E-A scenario in eight is 'deep': 300-1200 messages queued at once "
            "while pg notifications keep arriving at the subject; every send must be handled."),
    "C04": "stop/drain/kill are requested while the child is idle, parked in a message handler, in post_start, or in its supervision handler (568 / 124 cases).",
    "C06": "In half of the E-A scenarios a successor takes the subject's name as soon as the subject is Stopping; where_is must still yield the successor after the subject has fully stopped (exit cleanup runs once).",
    "C07": "On E-T one scenario in forty spawns a thread-local actor with spawn_instant, sends to it and drains it before its start has run (spawner thread held by a blocker actor, or racing).",
    "C09": "A fifth of the calls go through a DerivedActorRef.",
    "C10": "A third of the holders have a slow post_stop, a third of the terminations are followed by a late second request (drain/stop/kill), and on E-T one spawn in four is a thread-local actor contending for the same names.",
    "C11": ("One E-T scenario in four is a two-writer scenario: (B) threads join [exiting actor, own actor] into fresh groups in one call while that actor exits; an all-scopes monitor must see per group "
            "as many Leaves as Joins for it (0 or 1) and one Join for the other; (C) one thread takes actors out of their only group while another joins them to fresh groups, then all exit and nothing may remain."),
    "C12": "A kill timer that was not aborted takes its target down at its due time whatever the target is doing; an abort issued right after creation (no await in between) prevents delivery for every period.",
    "C14": "Custom routing: once a resize has been processed, jobs run on a worker inside the requested pool also while workers beyond it are still draining.",
    "C16": "One E-T scenario in four is 'steady': a fast subscriber present from the start, a publisher pacing itself on it, and another OS thread subscribing/stopping further actors; the steady subscriber must get every element once, in order.",
    "C17": "The right and the wrong cookie are 90 characters long and differ only in their tail.",
    "C18": "Added clause ready-for-loser (decided from each node's own event order and the real election function); half of the links run through a fragmenting, delaying relay so that handshakes overlap.",
    "C19": "node engine: the server's cap is 4096 bytes and hostile lengths include values between that cap and the library default.",
    "C20": "In a third of the scenarios the first target is a spawn_instant actor still in pre_start while the link authenticates and synchronises.",
}
for _k, _t in _EXTRA2.items():
    PROPS[_k]["level_note"] = (PROPS[_k].get("level_note", "") + " " + _t).strip()

# ---- E-S: sanitizer runs (ThreadSanitizer / AddressSanitizer + LeakSanitizer builds of the same harness).
# tsan: the quiet `san` scenarios (no shared log; plain-memory canaries) and a slice of the property's own E-T scenarios.
# asan: a slice of the property's single-threaded engines (all of ractor's and its dependencies' code on those paths,
#       incl. prost/bytes decoding for C17-C20) and the `san` scenarios with LeakSanitizer checks at quiescent points.
_SAN_FAMILY = {"C01": "actor", "C02": "actor", "C03": "actor", "C04": "actor", "C07": "actor", "C09": "actor",
               "C05": "tree+actor", "C06": "tree+actor", "C08": "tree+actor", "C10": "tables", "C11": "tables", "C12": "timers",
               "C13": "factory", "C14": "factory", "C15": "factory", "C16": "ports"}
for _k, _cfg in PROPS.items():
    _base = [r for r in _cfg["runs"] if r.get("build", "main") == "main"]
    _new = []
    if _k in _SAN_FAMILY:
        _new.append({"engine": "san", "build": "tsan", "quick": 320, "thorough": 48000, "timeout_s": 7200,
                     "what": f"E-S: quiet '{_SAN_FAMILY[_k]}' stress scenarios under ThreadSanitizer (plain-memory canaries in every callback, payload and reply; no shared log that could order the threads)"})
        _new.append({"engine": "san", "build": "asan", "quick": 320, "thorough": 48000, "timeout_s": 7200,
                     "what": f"E-S: the same '{_SAN_FAMILY[_k]}' scenarios under AddressSanitizer, LeakSanitizer asked at quiescent points and at exit"})
    for r in _base:
        if r["engine"] == "th":
            _new.append({"engine": "th", "build": "tsan", "quick": max(96, min(800, r["quick"] // 16)), "thorough": max(96, r["thorough"] // 16),
                         "timeout_s": 7200, "what": "E-S: a slice of this property's E-T scenarios (with their oracles) under ThreadSanitizer"})
        elif r["engine"] not in ("miri", "fsm", "elect"):
            _new.append({"engine": r["engine"], "build": "asan", "quick": max(96, min(1600, r["quick"] // 10)), "thorough": max(96, r["thorough"] // 16),
                         "timeout_s": 7200, "what": f"E-S: a slice of this property's '{r['engine']}' scenarios (with their oracles) under AddressSanitizer + LeakSanitizer"})
    _cfg["runs"].extend(_new)
    _cfg["level_note"] += (" Sanitizer runs (E-S): the harness is also built with ThreadSanitizer (instrumented std) and with AddressSanitizer+LeakSanitizer; "
                           "each sanitizer build first has to report a deliberate race / use-after-free / leak (self-test), then runs the slices listed in the evidence; "
                           "any sanitizer report is a violation. ractor itself has no unsafe code except one `unsafe impl Sync`, so these runs watch its dependencies' unsafe code "
                           "(tokio, dashmap, bytes, prost) as driven by ractor, and the harness's happens-before canaries.")
    if "sanitizers" not in _cfg["technique"]:
        _cfg["technique"] += "; plus compiler sanitizers (ThreadSanitizer, AddressSanitizer/LeakSanitizer) over slices of the same workloads and over quiet canary workloads"

# ---- E-TCP: the cluster properties over real loopback TCP (listener, client_connect, socket halves), natively and under TSan
_TCP_WHAT = ("E-TCP: two real NodeServers listening on loopback ports (dual-stack or 127.0.0.1), links opened with client_connect (once, twice, from both "
             "sides at once, or through a cuttable, fragmenting TCP relay), a wrong-cookie node and raw-socket adversaries (unauthenticated frames, oversize "
             "length prefixes, garbage) on the same listeners, lanes of casts/calls from tasks and OS threads; real clock, multi-thread runtime; only "
             "deadline-free clauses are verdicts (order, duplicates, misdelivery, reply values, fence-based completeness, effects of unauthenticated peers, "
             "two listed links, a valid link torn down)")
for _k in ("C17", "C18", "C19", "C20"):
    PROPS[_k]["runs"].append({"engine": "tcp", "quick": 160, "thorough": 48000, "timeout_s": 14400, "what": _TCP_WHAT})
    PROPS[_k]["runs"].append({"engine": "tcp", "build": "tsan", "quick": 48, "thorough": 4800, "timeout_s": 14400,
                              "what": "E-TCP scenarios under ThreadSanitizer (the cluster code on a multi-thread runtime with real sockets)"})
    PROPS[_k]["level_note"] += (" E-TCP runs drive the same property over real loopback TCP (listener, client_connect, NetworkStream halves); what did not happen "
                                "within a wall-clock bound there is reported as inconclusive, never as a violation.")

# ---- additions after the third wave of seeded changes (DESIGN.md section 7)
_SER_WHAT = ("engine 'ser' (E-A): wire-format delivery (send_serialized casts and calls, incl. calls whose reply port is already closed or dropped) mixed with typed "
             "sends to a Send actor with a derived message enum; at most one message carries a panic / Err")
for _k in ("C01", "C02", "C04"):
    PROPS[_k]["runs"].append({"engine": "ser", "quick": 8000, "thorough": 400000, "what": _SER_WHAT})
    PROPS[_k]["runs"].append({"engine": "ser", "build": "asan", "quick": 800, "thorough": 25000, "timeout_s": 7200, "what": "engine 'ser' under AddressSanitizer + LeakSanitizer"})
_DTAB_WHAT = ("engine 'dtab' (E-T, no runtime): bare threads create named detached cells, join/leave/monitor groups with their own and with each other's cells, look names and "
              "members up and exit their cells (the real exit cleanup) under H1 noise; history-free end-state oracle (surviving holders, single-writer membership, listing, "
              "internal indexes, nothing sticks to an exited cell, a surviving monitor is still listed)")
for _k in ("C10", "C11"):
    PROPS[_k]["runs"].append({"engine": "dtab", "quick": 64000, "thorough": 3200000, "what": _DTAB_WHAT})
    PROPS[_k]["runs"].append({"engine": "dtab", "build": "tsan", "quick": 3200, "thorough": 160000, "timeout_s": 7200,
                              "what": "engine 'dtab' under ThreadSanitizer (the scenario keeps no shared log, so the registry / pg tables are the only synchronisation)"})
    PROPS[_k]["runs"].append({"engine": "miri", "build": "miri", "quick": 48, "thorough": 1600, "timeout_s": 14400,
                              "what": "E-M: the same detached-cell tables scenario (2-3 threads, 4-8 operations each) interpreted by Miri: UB, data races and weak-memory behaviours in ractor's use of DashMap, the reverse-index mutexes and the registry"})
_EXTRA3 = {
    "C01": "Engine 'ser' delivers messages in wire format (send_serialized) as a node session does; a failing handler reached that way must end the actor like any other.",
    "C02": "Engine 'ser': accepted wire-format casts and calls (also calls whose reply port is closed before delivery) are handled exactly once, in order with typed sends. Senders also go through a DerivedActorRef.",
    "C04": "36 more cases with a *draining* supervisor (backlog + drain() before the child exits): still a living supervisor, it must get exactly one terminal event. Engine 'ser': a handler failure on a wire-format message is reported once.",
    "C06": "A third of the stop/kill/drain scenarios link a spawn_instant child to the subject by hand just before the exit is requested: it may still be Unstarted when the subject exits and counts among the children that must have been signalled.",
    "C07": "Senders also go through a DerivedActorRef (a refused send must hand the derived message back).",
    "C08": "New cause PreStartSyncPanic (a hand-written pre_start that panics in its synchronous part after its side effects; the panic unwinds through the spawn call) for all four spawn APIs; aborted instant spawns are also linked from outside while still Unstarted.",
    "C09": "Timeouts include 0 ms.",
    "C10": "A failing-start spawn_instant actor is watched through its reference: once Stopped is seen the name must be free (lookup, re-spawn). A pid lifecycle listener must never hear about a spawn that was refused (cluster build).",
    "C11": "The detached-cell engine lets threads monitor / join with each other's cells while the owner exits them, and checks that a surviving monitor is still listed.",
}
for _k, _t in _EXTRA3.items():
    PROPS[_k]["level_note"] = (PROPS[_k].get("level_note", "") + " " + _t).strip()

# factory: a quarter to a third of the scenarios now come from the targeted settings / retiring-worker generator; more scenarios per quick run
for _k in ("C13", "C14", "C15"):
    for _r in PROPS[_k]["runs"]:
        if _r["engine"] == "vt" and _r.get("build", "main") == "main":
            _r["quick"] = 32000
_EXTRA4 = {
    "C13": ("A quarter of the scenarios use a targeted generator: worker-queued routers with small busy pools, UpdateSettings in the middle (discard kind / limit / mode, or only a new "
            "discard handler), bursts behind busy workers, workers that retire by themselves (stop with a slow post_stop) while jobs keep arriving, and resizes. New clause "
            "discard-to-stale-handler: once a handler installed at run time is in place (a barrier queued behind the update was answered) every discard is reported to it."),
    "C14": "A quarter of the scenarios use the targeted settings / retiring-worker generator (same-key jobs arriving while their worker is in post_stop and not yet replaced).",
    "C15": ("A third of the scenarios use the targeted settings / retiring-worker generator. New clause for worker-queued routers after a limit change: of the jobs dispatched since the "
            "(processed) change at most limit+1 wait per live worker. Found and fixed F13 (jobs routed to a stopping, not yet replaced worker bypassed the limit)."),
}
for _k, _t in _EXTRA4.items():
    PROPS[_k]["level_note"] = (PROPS[_k].get("level_note", "") + " " + _t).strip()
FIX_COMMITS.append("9f411cc")
FIX_COMMITS.append("fb1c469")
PROPS["C14"]["level_note"] += (" One scenario in eight uses a sticky-growth generator (busy workers, a backlog that starts with a run of one key, a growth by two or more, quiet barriers); "
                               "new clause for sticky routing at quiet barriers: no job whose key is in nobody's hands waits in the factory queue while a worker has nothing at all. Found and fixed F14 (fb1c469).")

# C20 over TCP: exit-under-load and membership-during-set-up need a few hundred scenarios per hit
for _r in PROPS["C20"]["runs"]:
    if _r["engine"] == "tcp" and _r.get("build", "main") == "main":
        _r["quick"] = 960
_EXTRA5 = {
    "C05": ("Thread engine: half of the scenarios run without the lock-ordered tap (its own tree-lock round trip would order the exiting thread behind a linker) and pair LINK_IN_LOCK "
            "with CLEANUP_AFTER_TERMINATE (a bounded wait under the tree lock); a third pick a childless victim and aim the concurrent link / spawn_linked operations at it."),
    "C16": "v2 (alt build): in a third of the E-A bursts the dispatcher is not allowed to run before the next scheduled subscribe / stop, so that these land in the same dispatcher batch as the sends before them.",
    "C19": "The derived enum has an rpc variant whose only field is the reply port; a Call for it with argument bytes must not reach the handler (clause trailing-args-accepted).",
    "C20": ("E-A: one cut in three is caused by stopping one of the session's proxies by hand (the session ends abnormally), followed by the same reconnect clauses. E-TCP: casts keep flowing to an "
            "actor through its proxy while it stops, and after a fence call through the same session the proxy must have been asked to stop; many pre-existing groups plus a thread joining fresh "
            "groups across the session set-up, and after a fence every such group must contain the session's proxy (B's session ids are advanced by 8 idle connections so that the two sessions' proxy ids differ)."),
}
for _k, _t in _EXTRA5.items():
    PROPS[_k]["level_note"] = (PROPS[_k].get("level_note", "") + " " + _t).strip()
