#!/usr/bin/env python3
"""Records, in seeded/<id>/meta.json, which seeded changes the checks missed at first and how the checks were strengthened."""
import json
notes={
"C01-m2":"missed by the first version of C01 (no thread-local subjects in its workloads); C01/C03 th runs now spawn the subject as a thread-local actor in 1/3 of the scenarios",
"C02-m1":"missed at first (only ActorCell::send_message::<Other> was tried); the wrong-type clause now also goes through a wrongly typed ActorRef: send_message, cast and call",
"C02-m2":"not a violation of C02 as stated (the accepted message sits behind the drain marker, i.e. the actor exits before reaching it - the seeding agent notes this itself); it violates C07 (drain processes everything it accepted) and is reported by the C07 check",
"C05-m1":"missed at first (the th oracle could not decide link outcomes from racy status reads); added the lock-ordered tap monitor (a link reaching its mutation step after the actor published Draining/Stopping and the tree lock was taken since), a grow-after-exit observer, longer rendezvous waits and 1600 th scenarios",
"C05-m2":"missed at first (no start-up failure after linking children in C05's workloads); added the startup-failure subtree clause",
"C06-m1":"missed at first (hand-polled waiters look at the world only at the end); added blocking waiters that run the instant they are woken, a supervisor, and the 'terminal event already sent' clause on the thread engine",
"C07-m2":"missed at first (no sender used send_serialized); a third of the remote-cell senders now deliver through ActorCell::send_serialized",
"C08-m2":"missed at first (cancellation while the request is still queued behind a busy spawner thread was not driven; the 'started before cut' relaxation hid it); added the cut-while-queued family with a provably held spawner thread",
"C09-m2":"missed at first (the call!/call_t! macros were not used); callers now go through the method, the closure form and the argument form of both macros",
"C11-m2":"missed at first (window of a few instructions, no hook inside it); added the 'wide' scenario: a sole member of 20-160 groups exits while other threads join the same groups",
"C12-m2":"missed at first (a paused clock never polls an interval late; the real-clock smoke tolerates small losses); added clock-jump scenarios (tokio::time::advance over several periods) with exact slot expectations",
"C13-m2":"missed at first by C13 (the stranded jobs are discarded with Shutdown when the harness stops the factory, so each had a fate); added the 'starved' clause after 20 virtual seconds of idleness. C15 reported the same change from the start (pool-size, drain-never-stops)",
"C15-m2":"missed at first (the queue-limit clause was switched off after any limit change); added the oldest-first clause after a limit change for Queuer routing (a first formulation that also covered sticky routing raised a false alarm on the unchanged tree and was corrected before being committed)",
"C16-m1":"missed at first (all subscribers were Running when subscribed); a quarter of the subscribers are now spawn_instant actors with a slow pre_start, subscribed while still starting",
"C19-m2":"missed at first (job envelopes were only round-tripped with 8-byte keys); added keys of encoded length 0-3 bytes ((), strings, vectors)",
}
notes.update({
"C01-m3":"wave 2. Missed at first (the Send->thread-local blanket adapter was not driven); C01/C03 th subjects are now, in half of the thread-local cases, a Send actor spawned through that adapter",
"C01-m4":"wave 2. Not observable as a C01 violation (no kill is ever delivered; C01's requesters call kill() directly); it is a timer defect (kill_after must stop its target) and is reported by C12 through the new clause kill-after-ignored",
"C02-m3":"wave 2. Missed at first (no mailbox ever reached 256 entries while supervision events were arriving); added the 'deep' scenario: hundreds of sends queued at once + pg notifications to the subject",
"C02-m4":"wave 2. The harness did not compile against the changed signature at first (non-'static closure: exit 3, inconclusive); fixed, and call_and_forward is now used as a send in C02's virtual-time senders (order / refusal), `call` in both engines",
"C04-m4":"wave 2. Missed at first by C04 (exits were requested while idle, in a handler or in post_start, never in the supervision handler); added timing 3 (parked in handle_supervisor_evt). C03's arrival sweep reported it from the start",
"C06-m4":"wave 2. Missed at first by C06 (nothing re-used the name during the exit); added the successor clause (a successor takes the name while the subject is in post_stop; where_is must still yield it afterwards). C10 reported it from the start",
"C07-m3":"wave 2. Missed at first (only Send actors were drained before their start ran); added thread-local spawn_instant + sends + drain with the spawner thread held or racing",
"C09-m3":"wave 2. Missed at first (DerivedActorRef::call has its own code path and was not used); a fifth of the calls now go through a DerivedActorRef",
"C10-m4":"wave 2. Missed at first (only Send actors contended for names in C10); one spawn in four on the thread engine is now a thread-local actor",
"C11-m3":"wave 2. Missed at first (every actor had a single writer thread, so a join never raced the exit of one of its actors); added two-writer scenario B with per-group Join/Leave balance from an all-scopes monitor",
"C11-m4":"wave 2. Missed at first (single-writer workloads); added two-writer scenario C (leave vs join of the same actor on two threads, then exit)",
"C12-m4":"wave 2. Missed at first ('abort at the same instant' tolerated 0 or 1 deliveries); added abort-right-after-creation with no await in between, where nothing may be delivered",
"C14-m4":"wave 2. Missed at first (the inside-the-pool clause was only evaluated on 'stable' pools, i.e. not while workers beyond the requested size were draining); re-stated on the requested size once the resize has been processed",
"C16-m4":"wave 2. Missed at first (subscriptions were made by the publisher task itself, never concurrently); added the steady-subscriber scenario with subscriptions from another OS thread and a paced publisher",
"C17-m4":"wave 2. Missed at first (short cookies); the right and the wrong cookie are now 90 characters long and differ only in their tail",
"C18-m4":"wave 2. Missed at first (the at-most-one-ready clause had been relaxed to sampled GetSessions because a displaced link's disconnected event may trail); added ready-for-loser, decided from each node's own event order and the real election function, and relayed links so that handshakes overlap",
"C19-m4":"wave 2. Missed at first (oversize frames were far above every limit); added declared lengths between this server's configured cap and the library default",
"C20-m3":"wave 2. Missed at first (every target was Running when the link came up); the first target is now, in a third of the scenarios, a spawn_instant actor still in pre_start during authentication and synchronisation",
})
notes.update({
"C01-m6":"wave 3. Missed at first (no workload delivered messages in wire format to an actor whose handler fails); added engine 'ser' (send_serialized casts and calls mixed with typed sends, one failing message) for C01/C02/C04",
"C02-m5":"wave 3. Not a violation of C02 as stated (the accepted message sits behind the drain marker, i.e. the actor exits before reaching it); it violates C07 and is reported by the C07 check (after-marker), like C02-m2",
"C02-m6":"wave 3. Missed at first (no serialized call with an already closed reply port was ever sent); engine 'ser' sends such calls and demands that an accepted one is handled exactly once",
"C03-m5":"wave 3. NOT REPORTED and out of reach: the change is in the async-std backend, which the harness does not build (DESIGN section 8)",
"C03-m6":"wave 3. Missed by C03 (its requesters call kill() directly); it is a timer defect (kill_after through a derived ref must kill) and is reported by C12 (kill-after-ignored), which already used derived refs",
"C04-m5":"wave 3. Missed at first (the supervisor was Running-idle or Running-busy, never Draining); added 36 cases with a draining supervisor (backlog + drain() before the child exits)",
"C05-m6":"wave 3. Missed at first: the thread engine's tap monitor takes the tree lock on the exiting thread, which orders it behind a linker and hides an exit path that skips the lock; half of the threaded scenarios now run without the tap, a bounded in-lock rendezvous LINK_IN_LOCK <-> CLEANUP_AFTER_TERMINATE was added, and a third of the scenarios use a childless victim that the link operations aim at",
"C06-m6":"wave 3. Missed at first (every child was started before the exit); a third of the stop/kill/drain scenarios now link a spawn_instant child by hand just before the exit is requested (still Unstarted when the subject exits)",
"C07-m6":"wave 3. Missed at first (no sender went through a DerivedActorRef); derived-ref senders added to C02/C07 (a refused send must hand the derived message back)",
"C08-m5":"wave 3. Missed at first (pre_start panics were always inside the async body, hence caught); added cause PreStartSyncPanic: a hand-written pre_start that panics in its synchronous part after its side effects, for all four spawn APIs",
"C08-m6":"wave 3. Missed at first (side effects were only performed by pre_start, which never runs when the start task is cancelled before its first poll); aborted instant spawns are now also linked from outside while Unstarted",
"C09-m5":"wave 3. Missed at first (timeouts were 1-50 ms); 0 ms added",
"C09-m6":"wave 3. Missed by C09 (its callees are local); the change is in the cluster's RemoteActor and is reported by C20 (reply-misrouted, reply-from-nowhere), like C20-m1",
"C10-m5":"wave 3. Missed at first (failing starts went through the awaited spawn, whose caller only continues after the clean-up); added a failing spawn_instant actor watched through its reference: once Stopped is seen the name must be free",
"C10-m6":"wave 3. Missed at first (nobody listened to pid lifecycle events in C10); added a pid lifecycle listener that must never hear about a spawn that was refused",
"C13-m5":"wave 3. Missed at first (UpdateSettings never carried only a handler); added Op::SetHandler and the clause discard-to-stale-handler",
"C13-m6":"wave 3. Missed at first (workers never stopped by themselves); added retiring workers (stop + slow post_stop) and a targeted generator; reported by silently-lost at about 1 scenario in 8000, hence 32000 scenarios per quick run",
"C14-m5":"wave 3. Missed at first (no idle-while-queued clause for sticky routing: the plain extension raises alarms on the unchanged tree, because same-key jobs legitimately wait behind one busy worker). A key-aware clause judged at quiet barriers (distinct free keys among the waiting jobs vs. workers that are active without a started job) and a sticky-growth generator were added late in the round; the clause first fired on the UNCHANGED tree - the same defect in a milder form (flush bounded by the pool size), recorded as F14 and fixed (fb1c469). patch_rebased.diff is the same change on top of that fix",
"C14-m6":"wave 3. Missed at first (no worker was ever Stopping-but-not-yet-replaced while same-key jobs kept coming); retiring workers added; reported by key-order. patch_rebased.diff is the same change on top of the later fix 9f411cc, which touches the same hunk",
"C15-m5":"wave 3. Missed at first (the worker-queue bound was switched off after any limit change); added the post-change bound for worker-queued routers and the targeted settings generator. The same extension exposed the genuine defect F13 (fixed, 9f411cc)",
"C16-m6":"wave 3. Missed at first (the virtual-time engine let the dispatcher run between a burst and the next subscribe); in a third of the v2 bursts it no longer does, so a subscribe can land in the same dispatcher batch as the send that detects a dead subscriber",
"C18-m6":"wave 3. Missed by C18 (its sessions only end normally); reported by C20's virtual-time check (not-ready) through the new event 'a proxy is stopped by hand' (the session ends abnormally) followed by a redial",
"C19-m6":"wave 3. Missed at first (the derived enum had no rpc variant whose only field is the reply port); added one and the clause trailing-args-accepted",
"C20-m5":"wave 3. Missed at first (needs casts arriving for an actor at the very moment it exits, on real threads); added exit-under-load with a fence to the E-TCP engine (proxy-outlives-original); about 1 TCP scenario in 300, hence 640 per quick run",
"C20-m6":"wave 3. Missed at first (no membership change raced a session's initial group scan); E-TCP now has up to 1500 pre-existing groups and a thread joining fresh groups across the session set-up, checked after a fence (membership-not-mirrored)",
})
for k,t in notes.items():
    p=f'/verif/seeded/{k}/meta.json'
    m=json.load(open(p)); m['first_run_missed']=True; m['strengthening']=t
    json.dump(m,open(p,'w'),indent=1)
print('ok', len(notes))
