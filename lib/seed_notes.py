#!/usr/bin/env python3
"""Records, in seeded/<id>/meta.json, which seeded changes the checks missed at first and how the checks were strengthened."""
import json
notes={
"C01-m2":"missed by the first version of C01 (no thread-local subjects in its workloads); C01/C03 th runs now spawn the subject as a thread-local actor in 1/3 of the scenarios",
"C02-m1":"missed at first (only ActorCell::send_message::<Other> was tried); the wrong-type clause now also goes through a wrongly typed ActorRef: send_message, cast and call",
"C02-m2":"not a violation of C02 as stated (the accepted message sits behind the drain marker, i.e. the actor exits before reaching it - the seeding agent notes this itself); it violates C07 (drain processes everything it accepted) and is reported by the C07 check",
"C05-m1":"missed at first (the th oracle could not decide link outcomes from racy status reads); added the lock-ordered tap monitor (a link reaching its mutation step after the actor published Draining/Stopping and the tree lock was taken since), a grow-after-exit observer, longer rendezvous waits and 1600 th scenarios",
"C05-m2":"missed at first (no start-up failure after linking children in C05's workloads); added the startup-failure subtree clause",
"C06-m1":"missed at first (hand-polled waiters look at the world only at the end); added blocking waiters that run the instant they are woken, a supervisor, and the 'terminal event already sent' clause on the thread engine",
"C07-m2":"missed at first (no sender used send_serialized); a third of the remote-cell senders now deliver through ActorCell::send_serialized",
"C08-m2":"missed at first (cancellation while the request is still queued behind a busy spawner thread was not driven; the 'started before cut' relaxation hid it); added the cut-while-queued family with a provably held spawner thread",
"C09-m2":"missed at first (the call!/call_t! macros were not used); callers now go through the method, the closure form and the argument form of both macros",
"C11-m2":"missed at first (window of a few instructions, no hook inside it); added the 'wide' scenario: a sole member of 20-160 groups exits while other threads join the same groups",
"C12-m2":"missed at first (a paused clock never polls an interval late; the real-clock smoke tolerates small losses); added clock-jump scenarios (tokio::time::advance over several periods) with exact slot expectations",
"C13-m2":"missed at first by C13 (the stranded jobs are discarded with Shutdown when the harness stops the factory, so each had a fate); added the 'starved' clause after 20 virtual seconds of idleness. C15 reported the same change from the start (pool-size, drain-never-stops)",
"C15-m2":"missed at first (the queue-limit clause was switched off after any limit change); added the oldest-first clause after a limit change for Queuer routing (a first formulation that also covered sticky routing raised a false alarm on the unchanged tree and was corrected before being committed)",
"C16-m1":"missed at first (all subscribers were Running when subscribed); a quarter of the subscribers are now spawn_instant actors with a slow pre_start, subscribed while still starting",
"C19-m2":"missed at first (job envelopes were only round-tripped with 8-byte keys); added keys of encoded length 0-3 bytes ((), strings, vectors)",
}
notes.update({
"C01-m3":"wave 2. Missed at first (the Send->thread-local blanket adapter was not driven); C01/C03 th subjects are now, in half of the thread-local cases, a Send actor spawned through that adapter",
"C01-m4":"wave 2. Not observable as a C01 violation (no kill is ever delivered; C01's requesters call kill() directly); it is a timer defect (kill_after must stop its target) and is reported by C12 through the new clause kill-after-ignored",
"C02-m3":"wave 2. Missed at first (no mailbox ever reached 256 entries while supervision events were arriving); added the 'deep' scenario: hundreds of sends queued at once + pg notifications to the subject",
"C02-m4":"wave 2. The harness did not compile against the changed signature at first (non-'static closure: exit 3, inconclusive); fixed, and call_and_forward is now used as a send in C02's virtual-time senders (order / refusal), `call` in both engines",
"C04-m4":"wave 2. Missed at first by C04 (exits were requested while idle, in a handler or in post_start, never in the supervision handler); added timing 3 (parked in handle_supervisor_evt). C03's arrival sweep reported it from the start",
"C06-m4":"wave 2. Missed at first by C06 (nothing re-used the name during the exit); added the successor clause (a successor takes the name while the subject is in post_stop; where_is must still yield it afterwards). C10 reported it from the start",
"C07-m3":"wave 2. Missed at first (only Send actors were drained before their start ran); added thread-local spawn_instant + sends + drain with the spawner thread held or racing",
"C09-m3":"wave 2. Missed at first (DerivedActorRef::call has its own code path and was not used); a fifth of the calls now go through a DerivedActorRef",
"C10-m4":"wave 2. Missed at first (only Send actors contended for names in C10); one spawn in four on the thread engine is now a thread-local actor",
"C11-m3":"wave 2. Missed at first (every actor had a single writer thread, so a join never raced the exit of one of its actors); added two-writer scenario B with per-group Join/Leave balance from an all-scopes monitor",
"C11-m4":"wave 2. Missed at first (single-writer workloads); added two-writer scenario C (leave vs join of the same actor on two threads, then exit)",
"C12-m4":"wave 2. Missed at first ('abort at the same instant' tolerated 0 or 1 deliveries); added abort-right-after-creation with no await in between, where nothing may be delivered",
"C14-m4":"wave 2. Missed at first (the inside-the-pool clause was only evaluated on 'stable' pools, i.e. not while workers beyond the requested size were draining); re-stated on the requested size once the resize has been processed",
"C16-m4":"wave 2. Missed at first (subscriptions were made by the publisher task itself, never concurrently); added the steady-subscriber scenario with subscriptions from another OS thread and a paced publisher",
"C17-m4":"wave 2. Missed at first (short cookies); the right and the wrong cookie are now 90 characters long and differ only in their tail",
"C18-m4":"wave 2. Missed at first (the at-most-one-ready clause had been relaxed to sampled GetSessions because a displaced link's disconnected event may trail); added ready-for-loser, decided from each node's own event order and the real election function, and relayed links so that handshakes overlap",
"C19-m4":"wave 2. Missed at first (oversize frames were far above every limit); added declared lengths between this server's configured cap and the library default",
"C20-m3":"wave 2. Missed at first (every target was Running when the link came up); the first target is now, in a third of the scenarios, a spawn_instant actor still in pre_start during authentication and synchronisation",
})
for k,t in notes.items():
    p=f'/verif/seeded/{k}/meta.json'
    m=json.load(open(p)); m['first_run_missed']=True; m['strengthening']=t
    json.dump(m,open(p,'w'),indent=1)
print('ok', len(notes))
