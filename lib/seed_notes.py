#!/usr/bin/env python3
"""Records, in seeded/<id>/meta.json, which seeded changes the checks missed at first and how the checks were strengthened."""
import json
notes={
"C01-m2":"missed by the first version of C01 (no thread-local subjects in its workloads); C01/C03 th runs now spawn the subject as a thread-local actor in 1/3 of the scenarios",
"C02-m1":"missed at first (only ActorCell::send_message::<Other> was tried); the wrong-type clause now also goes through a wrongly typed ActorRef: send_message, cast and call",
"C02-m2":"not a violation of C02 as stated (the accepted message sits behind the drain marker, i.e. the actor exits before reaching it - the seeding agent notes this itself); it violates C07 (drain processes everything it accepted) and is reported by the C07 check",
"C05-m1":"missed at first (the th oracle could not decide link outcomes from racy status reads); added the lock-ordered tap monitor (a link reaching its mutation step after the actor published Draining/Stopping and the tree lock was taken since), a grow-after-exit observer, longer rendezvous waits and 1600 th scenarios",
"C05-m2":"missed at first (no start-up failure after linking children in C05's workloads); added the startup-failure subtree clause",
"C06-m1":"missed at first (hand-polled waiters look at the world only at the end); added blocking waiters that run the instant they are woken, a supervisor, and the 'terminal event already sent' clause on the thread engine",
"C07-m2":"missed at first (no sender used send_serialized); a third of the remote-cell senders now deliver through ActorCell::send_serialized",
"C08-m2":"missed at first (cancellation while the request is still queued behind a busy spawner thread was not driven; the 'started before cut' relaxation hid it); added the cut-while-queued family with a provably held spawner thread",
"C09-m2":"missed at first (the call!/call_t! macros were not used); callers now go through the method, the closure form and the argument form of both macros",
"C11-m2":"missed at first (window of a few instructions, no hook inside it); added the 'wide' scenario: a sole member of 20-160 groups exits while other threads join the same groups",
"C12-m2":"missed at first (a paused clock never polls an interval late; the real-clock smoke tolerates small losses); added clock-jump scenarios (tokio::time::advance over several periods) with exact slot expectations",
"C13-m2":"missed at first by C13 (the stranded jobs are discarded with Shutdown when the harness stops the factory, so each had a fate); added the 'starved' clause after 20 virtual seconds of idleness. C15 reported the same change from the start (pool-size, drain-never-stops)",
"C15-m2":"missed at first (the queue-limit clause was switched off after any limit change); added the oldest-first clause after a limit change for Queuer routing (a first formulation that also covered sticky routing raised a false alarm on the unchanged tree and was corrected before being committed)",
"C16-m1":"missed at first (all subscribers were Running when subscribed); a quarter of the subscribers are now spawn_instant actors with a slow pre_start, subscribed while still starting",
"C19-m2":"missed at first (job envelopes were only round-tripped with 8-byte keys); added keys of encoded length 0-3 bytes ((), strings, vectors)",
}
for k,t in notes.items():
    p=f'/verif/seeded/{k}/meta.json'
    m=json.load(open(p)); m['first_run_missed']=True; m['strengthening']=t
    json.dump(m,open(p,'w'),indent=1)
print('ok', len(notes))
